(* P_C17 — property theorems for C17 (function bases are eigenfunctions in the documented column
   order; basis-space Laplacians are exact).  Statements only; `Gen_C17.*` regenerated from
   function_basis.py and operators.py on every run.
   Orthogonality on the sphere: `Gen_C17o.v` (regenerated together with its antiderivative
   certificates on every run) proves, for all 300 unordered pairs, that the iterated Riemann
   integral of Y_a Y_b sin(theta) over theta in [0,pi], phi in [0,2pi] vanishes.
   and that | <Y_k, Y_k> - PI | <= 1e-8 for each of the 25 (the library's constants are 9-digit
   decimals, so exact equality is false and not claimed). *)
From Coq Require Import Reals List.
From ND.lib Require Import Expr.
From ND.lib Require Poly.
From ND.gen Require Import Gen_C17 Gen_C17o.
From ND.lib Require Import Sphere.
From ND.proofs Require Import C17_harmonics C17_bases C17_other.
Import ListNotations.
Open Scope R_scope.

(* ---- the 25 real spherical harmonics: eigenfunctions of the angular Laplacian, eigenvalue -l(l+1) *)
Theorem C17_harmonics_eigen : forall k, (k < 25)%nat -> forall venv penv fenv, sin (venv 0%nat) <> 0 ->
  eval venv penv fenv (ang_lap (nth k Ys (ECst 0))) = nth k Yeigenvalues 0 * eval venv penv fenv (nth k Ys (ECst 0)).
Proof. exact harmonics_eigen. Qed.

Theorem C17_eigenvalues_are_minus_l_l1 : Yeigenvalues = map (fun l => - INR (l * (l + 1))) Ydegrees.
Proof. exact eigenvalues_are_minus_l_l1. Qed.

(* ---- mutual orthogonality on the sphere (iterated RInt, weight sin theta), all 25 x 25 pairs *)
Theorem C17_harmonics_orthogonal : forall a b, (a < 25)%nat -> (b < 25)%nat -> a <> b ->
  sphere_inner (fun th ph => eval (env2 th ph) zp nofenv (nth a Ys (ECst 0)) * eval (env2 th ph) zp nofenv (nth b Ys (ECst 0))) = 0.
Proof. exact ortho_all. Qed.

(* common normalisation: <Y_k, Y_k> = pi up to the 9-digit constants *)
Theorem C17_harmonics_normalised : forall k, (k < 25)%nat ->
  Rabs (sphere_inner (fun th ph => eval (env2 th ph) zp nofenv (nth k Ys (ECst 0)) * eval (env2 th ph) zp nofenv (nth k Ys (ECst 0))) - PI) <= 1 / 100000000.
Proof. exact norm_all. Qed.

Theorem C17_no_non_orthogonal_pair : non_orthogonal_pairs = 0%nat.
Proof. reflexivity. Qed.

(* ---- documented column order for every max_degree 0..4 (5 is rejected); position j has the degree
   whose eigenvalue the Laplacian operator uses at j *)
Theorem C17_harmonics_order :
  harmonics_4.terms = Ys /\ harmonics_3.terms = firstn 16 Ys /\ harmonics_2.terms = firstn 9 Ys /\
  harmonics_1.terms = firstn 4 Ys /\ harmonics_0.terms = firstn 1 Ys /\ harmonics_reject_5.raises = true.
Proof. exact harmonics_order. Qed.

Theorem C17_harmonics_degrees : map snd (combine Ys Ydegrees) = map fst index_Y /\ List.length Ys = 25%nat.
Proof. exact harmonics_degrees. Qed.

(* ---- HarmonicsLaplacian(max_degree = 0..4) applied to arbitrary coefficient functions R_k(r)
   equals operators.spherical_laplacian (model tied to the generated term) of sum_k R_k(r) Y_k *)
Theorem C17_tie_sph_lap_model : sph_lap_U.term = sph_lap_model (EFun 0 [0;0;0]%nat [AVar 0; AVar 1; AVar 2]%nat).
Proof. exact tie_sph_lap_model. Qed.

Theorem C17_harmonics_laplacian_exact : forall venv penv fenv, venv 0%nat <> 0 -> sin (venv 1%nat) <> 0 ->
  let ev := eval venv penv fenv in
  ev harm_lap_4.term = ev (sph_lap_model (expansion 25)) /\ ev harm_lap_3.term = ev (sph_lap_model (expansion 16)) /\
  ev harm_lap_2.term = ev (sph_lap_model (expansion 9)) /\ ev harm_lap_1.term = ev (sph_lap_model (expansion 4)) /\
  ev harm_lap_0.term = ev (sph_lap_model (expansion 1)).
Proof. exact harmonics_laplacian_exact. Qed.

Theorem C17_expansion_small_generated : forall venv penv fenv, venv 0%nat <> 0 -> sin (venv 1%nat) <> 0 ->
  eval venv penv fenv sph_lap_expansion_0.term = eval venv penv fenv (sph_lap_model (expansion 1)) /\
  eval venv penv fenv sph_lap_expansion_1.term = eval venv penv fenv (sph_lap_model (expansion 4)).
Proof. exact expansion_small_generated. Qed.

(* ---- Legendre polynomials of degree 0..12: Legendre's equation and the normalisation P(1) = 1 *)
Theorem C17_legendre_ode : forall d, (d <= 12)%nat -> forall venv penv fenv,
  eval venv penv fenv (legendre_ode d (nth d legendre_terms (ECst 0))) = 0.
Proof. exact legendre_ode_holds. Qed.

Theorem C17_legendre_normalised : forall d, (d <= 12)%nat -> forall venv penv fenv, venv 0%nat = 1 ->
  eval venv penv fenv (nth d legendre_terms (ECst 0)) = 1.
Proof. exact legendre_normalised. Qed.

(* ... and the generated term of degree d is a polynomial of degree exactly d in x (with Legendre's equation and
   P(1) = 1 this characterises P_d): decided by the certified polynomial normaliser lib/Poly.v *)
Theorem C17_legendre_degree : forall d, (d <= 12)%nat ->
  exists p, Poly.pnorm 0 (nth d legendre_terms (ECst 0)) = Some p /\ pdeg p = Some d.
Proof. exact legendre_degree. Qed.

(* ---- zonal harmonics: Y_l = sqrt((2l+1)/(4 pi)) P_l(cos theta), any degree list up to 12 *)
Theorem C17_zonal_spec :
  zonal_12.terms = map zonal_col (seq 0 13) /\ zonal_4.terms = map zonal_col (seq 0 5) /\
  zonal_1.terms = map zonal_col (seq 0 2) /\ zonal_0.terms = map zonal_col (seq 0 1) /\
  zonal_degrees_7_2.terms = map zonal_col [7; 2]%nat.
Proof. exact zonal_spec. Qed.

Theorem C17_zonal_value : forall venv penv fenv l, (l <= 12)%nat -> penv 0%nat = PI ->
  eval venv penv fenv (zonal_col l)
  = eval (fun _ => cos (venv 0%nat)) penv fenv (nth l legendre_terms (ECst 0)) * sqrt (IZR (Z.of_nat (2 * l + 1)) / (4 * PI)).
Proof. exact zonal_value. Qed.

Theorem C17_zonal_laplacian_exact : forall venv penv fenv, venv 0%nat <> 0 -> sin (venv 1%nat) <> 0 -> 0 < penv 0%nat ->
  eval venv penv fenv zonal_lap_0.term = eval venv penv fenv zonal_expansion_0.term /\
  eval venv penv fenv zonal_lap_2.term = eval venv penv fenv zonal_expansion_2.term /\
  eval venv penv fenv zonal_lap_4.term = eval venv penv fenv zonal_expansion_4.term /\
  eval venv penv fenv zonal_lap_deg_3_1.term = eval venv penv fenv zonal_expansion_deg_3_1.term /\
  eval venv penv fenv zonal_lap_deg_2.term = eval venv penv fenv zonal_expansion_deg_2.term.
Proof. exact zonal_laplacian_exact. Qed.

(* ---- real Fourier series: column order, and the Fourier Laplacian against the polar Laplacian *)
Theorem C17_fourier_order :
  fourier_12.terms = fourier_cols 12 /\ fourier_3.terms = fourier_cols 3 /\ fourier_1.terms = fourier_cols 1 /\ fourier_0.terms = fourier_cols 0.
Proof. exact fourier_order. Qed.

Theorem C17_fourier_laplacian_exact : forall venv penv fenv, venv 0%nat <> 0 ->
  eval venv penv fenv fourier_lap_0.term = eval venv penv fenv fourier_expansion_0.term /\
  eval venv penv fenv fourier_lap_1.term = eval venv penv fenv fourier_expansion_1.term /\
  eval venv penv fenv fourier_lap_3.term = eval venv penv fenv fourier_expansion_3.term.
Proof. exact fourier_laplacian_exact. Qed.
