(* P_C18 — property theorems for C18 (saving never alters a solver; loading restores an equal,
   resumable one).  Only statements, each closed by `exact <lemma of proofs/C18_persist.v>`.
   `Gen_C18.facts` is regenerated from neurodiffeq/solvers_utils.py on every run by
   tools/props/t_C18.py; `save` / `load` of model/Persist.v are parameterised by it.

   All statements are at FULL strength since the fix: commits 90081b1 (get_conditions works on a
   copy), 02ac05f (lowest_loss saved and restored) and 446840b (BundleSolver1D.load passes
   eq_param_index and loss_fn).  The old behaviour is kept, for the record, in
   findings/F_C18_save.v and F_C18_load.v as statements about the facts of the old tree. *)
From Coq Require Import String.
From Coq Require Import List ZArith QArith Bool.
From ND.model Require Import Persist.
From ND.gen Require Import Gen_C18.
From ND.proofs Require Import C18_persist.
Import ListNotations.
Close Scope Q_scope.
Local Open Scope nat_scope.

(* ============================ saving and the solver in memory ================================
   whether or not serialisation succeeds (ok is an oracle outcome), the solver is unchanged:
   conditions, networks, histories, optimiser, best nets, lowest loss, loss function, equations *)
Theorem C18_save_preserves : forall s ok, fst (save facts s ok) = s.
Proof. exact save_preserves. Qed.

Theorem C18_save_idempotent : forall s ok ok',
  fst (save facts (fst (save facts s ok)) ok') = fst (save facts s ok).
Proof. exact save_idempotent. Qed.

(* independent of everything else in the source: working on a copy suffices *)
Theorem C18_save_preserves_if_copy : forall sf s ok, sf_aliased sf = false -> fst (save sf s ok) = s.
Proof. exact save_preserves_if_copy. Qed.

(* ============================ loading what was saved =========================================
   latest and best solutions: same network parameters and the SAME conditions, function-valued
   attributes included *)
Theorem C18_load_save_solutions : forall s f,
  snd (save facts s true) = Some f ->
  exists l, load facts f = Some l /\ nets l = nets s /\ best l = best s /\ conds l = conds s
            /\ forall b, solution l b = solution s b.
Proof. exact load_save_solutions. Qed.

(* same kind, equal loss histories, equal global epoch, optimiser class and state *)
Theorem C18_load_save_history : forall s f,
  snd (save facts s true) = Some f ->
  exists l, load facts f = Some l /\ kind l = kind s /\ train_hist l = train_hist s /\ valid_hist l = valid_hist s
            /\ global_epoch l = global_epoch s /\ opt l = opt s.
Proof. exact load_save_history. Qed.

(* ============================ resuming =======================================================
   an un-interrupted solver keeps "lowest_loss is a minimum of the whole validation history" ... *)
Theorem C18_fit_tracks : forall s es, tracks s -> tracks (fit s es).
Proof. exact fit_tracks_whole. Qed.

(* ... and so does a loaded one, for any number of further epochs with any losses *)
Theorem C18_resume_best : forall s f es,
  tracks s ->
  snd (save facts s true) = Some f ->
  exists l, load facts f = Some l /\ tracks (fit l es).
Proof. exact resume_best. Qed.

(* the loss function survives for every kind; the equations receive the same bundle parameters as
   before (`select`: every wrapper layer picks its indices from what the layer above hands down),
   for ANY eq_param_index; a bundle solver that was trainable stays trainable *)
Theorem C18_load_keeps_config : forall s f,
  snd (save facts s true) = Some f ->
  exists l, load facts f = Some l /\ loss_id l = loss_id s
    /\ (forall (B : Type) (ps : list B), length ps = n_params s -> select (eqs l) ps = select (eqs s) ps)
    /\ (kind s = KBundle -> n_params l = n_params s /\ trainable l = trainable s)
    /\ (kind s <> KBundle -> eqs l = eqs s).
Proof. exact load_keeps_config. Qed.

(* ============================ any number of save / load / fit cycles =========================
   every cycle succeeds; no history entry is lost, duplicated or altered; the global epoch is the
   number of epochs run; the networks are those of the last epoch; conditions and loss function
   are those of the start; best tracking keeps referring to the whole history *)
Theorem C18_cycles : forall ops s,
  exists s', run_ops facts s ops = Some s'
    /\ train_hist s' = train_hist s ++ flat_map op_train ops
    /\ valid_hist s' = valid_hist s ++ flat_map op_valid ops
    /\ global_epoch s' = global_epoch s + length (flat_map op_train ops)
    /\ nets s' = fold_left op_nets ops (nets s)
    /\ kind s' = kind s /\ conds s' = conds s /\ loss_id s' = loss_id s /\ (tracks s -> tracks s').
Proof. exact cycles. Qed.
