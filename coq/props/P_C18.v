(* P_C18 — property theorems for C18 (saving never alters a solver; loading restores an equal,
   resumable one).  Only statements, each closed by `exact <lemma of proofs/C18_persist.v>`.
   `Gen_C18.facts` is regenerated from neurodiffeq/solvers_utils.py on every run by
   tools/props/t_C18.py; `save` / `load` of model/Persist.v are parameterised by it. *)
From Coq Require Import String.
From Coq Require Import List ZArith QArith Bool.
From ND.model Require Import Persist.
From ND.gen Require Import Gen_C18.
From ND.proofs Require Import C18_persist.
Import ListNotations.
Close Scope Q_scope.
Local Open Scope nat_scope.

(* ============================ saving and the solver in memory ================================
   FULL-STRENGTH STATEMENT (refuted on the unchanged tree, known findings C18 save/...:
   get_conditions works on condition.__dict__ itself, see findings/F_C18_save.v):

   Theorem C18_save_preserves : forall s ok, fst (save facts s ok) = s.

   What does hold: everything but the condition dictionaries is untouched, whether or not
   serialisation succeeds; the dictionaries are rewritten exactly as `touched` says (a
   `condition_type` entry is added, functions with retrievable source become that text); for
   conditions without such functions what `enforce` reads is unchanged; a second save changes
   nothing more; and working on a copy would make the full statement true. *)
Theorem C18_save_preserves_partial : forall s ok,
  let s' := fst (save facts s ok) in
  kind s' = kind s /\ nets s' = nets s /\ opt s' = opt s /\ train_hist s' = train_hist s /\
  valid_hist s' = valid_hist s /\ lowest s' = lowest s /\ best s' = best s /\ loss_id s' = loss_id s /\
  n_params s' = n_params s /\ eqs s' = eqs s /\
  conds s' = map touched (conds s) /\
  (Forall plain_cond (conds s) -> map cond_sem (conds s') = map cond_sem (conds s)).
Proof. exact save_keeps_everything_but_conditions. Qed.

Theorem C18_save_idempotent_partial : forall s ok ok',
  fst (save facts (fst (save facts s ok)) ok') = fst (save facts s ok).
Proof. exact save_idempotent. Qed.

Theorem C18_save_preserves_if_copy : forall sf s ok, sf_aliased sf = false -> fst (save sf s ok) = s.
Proof. exact save_preserves_if_copy. Qed.

(* ============================ loading what was saved =========================================
   FULL-STRENGTH STATEMENT (refuted for conditions holding functions whose source inspect can
   retrieve -- the saved condition objects are the already rewritten ones -- findings/F_C18_save.v):

   Theorem C18_load_save_solutions : forall s f, snd (save facts s true) = Some f ->
     exists l, load facts f = Some l /\ forall b, solution l b = solution s b.                  *)
Theorem C18_load_save_solutions_partial : forall s f,
  Forall plain_cond (conds s) ->
  snd (save facts s true) = Some f ->
  exists l, load facts f = Some l /\ forall b, solution l b = solution s b.
Proof. exact load_save_solutions_plain. Qed.

(* latest and best network parameters come back for every solver kind and every condition *)
Theorem C18_load_save_nets : forall s f,
  snd (save facts s true) = Some f ->
  exists l, load facts f = Some l /\ nets l = nets s /\ best l = best s.
Proof. exact load_save_nets. Qed.

(* same kind, equal loss histories, equal global epoch, optimiser class and state *)
Theorem C18_load_save_history : forall s f,
  snd (save facts s true) = Some f ->
  exists l, load facts f = Some l /\ kind l = kind s /\ train_hist l = train_hist s /\ valid_hist l = valid_hist s
            /\ global_epoch l = global_epoch s /\ opt l = opt s.
Proof. exact load_save_history. Qed.

(* ============================ resuming =======================================================
   FULL-STRENGTH STATEMENT (refuted: load never restores lowest_loss, findings/F_C18_load.v):

   Theorem C18_resume_best : forall s f es, tracks s -> snd (save facts s true) = Some f ->
     exists l, load facts f = Some l /\ tracks (fit l es).

   What does hold: an un-interrupted solver keeps the invariant; after load the tracking refers
   to the lowest validation loss since loading; nothing is lost if no epoch preceded the save. *)
Theorem C18_fit_tracks : forall s es, tracks s -> tracks (fit s es).
Proof. exact fit_tracks_whole. Qed.

Theorem C18_resume_best_partial : forall s f es,
  snd (save facts s true) = Some f ->
  exists l, load facts f = Some l /\ tracks_from (length (valid_hist s)) (fit l es).
Proof. exact resume_best_since_load. Qed.

Theorem C18_resume_best_fresh_partial : forall s f es,
  valid_hist s = [] ->
  snd (save facts s true) = Some f ->
  exists l, load facts f = Some l /\ tracks (fit l es).
Proof. exact resume_best_fresh. Qed.

(* equations and loss function survive for Solver1D / Solver2D; for BundleSolver1D only when no
   equation parameter is routed and the loss is the default (findings/F_C18_load.v otherwise) *)
Theorem C18_load_keeps_config_partial : forall s f,
  kind s <> KBundle ->
  snd (save facts s true) = Some f ->
  exists l, load facts f = Some l /\ loss_id l = loss_id s /\ eqs l = eqs s.
Proof. exact load_keeps_config_nonbundle. Qed.

Theorem C18_load_bundle_partial : forall s f,
  kind s = KBundle -> eqs s = [[]] -> loss_id s = 0 ->
  snd (save facts s true) = Some f ->
  exists l, load facts f = Some l /\ loss_id l = 0 /\ trainable l = true.
Proof. exact load_bundle_plain. Qed.

(* ============================ any number of save / load / fit cycles =========================
   every cycle succeeds, no history entry is lost, duplicated or altered, the global epoch is
   the number of epochs run, the networks are those of the last epoch *)
Theorem C18_cycles : forall ops s,
  exists s', run_ops facts s ops = Some s'
    /\ train_hist s' = train_hist s ++ flat_map op_train ops
    /\ valid_hist s' = valid_hist s ++ flat_map op_valid ops
    /\ global_epoch s' = global_epoch s + length (flat_map op_train ops)
    /\ nets s' = fold_left op_nets ops (nets s)
    /\ kind s' = kind s.
Proof. exact cycles. Qed.
