(* P_C01 — property theorems for C01 (ODE conditions hold exactly for every network).
   Only statements, each closed by `exact <lemma of proofs/C01_ode.v>`.  The terms
   `Gen_C01.<Mode>.term` are regenerated from /repo/neurodiffeq/conditions.py on every run.
   All theorems quantify over every venv (points), penv (real parameters, both orientations),
   fenv (every network / every jet family). *)
From Coq Require Import Reals List.
From Coquelicot Require Import Coquelicot.
From ND.lib Require Import Expr ExprSound.
From ND.lib Require Witness.
From ND.gen Require Import Gen_C01.
From ND.proofs Require Import C01_ode.
Import ListNotations.
Open Scope R_scope.

(* ---- IVP, value mode and value+derivative mode; multi-network and output-unit mode *)
Theorem C01_ivp_value : forall venv penv fenv,
  venv IVP_value.v_t = penv IVP_value.p_t_0 ->
  eval venv penv fenv IVP_value.term = penv IVP_value.p_u_0.
Proof. exact ivp_value. Qed.

Theorem C01_ivp_value_unit : forall venv penv fenv,
  venv IVP_value_unit.v_t = penv IVP_value_unit.p_t_0 ->
  eval venv penv fenv IVP_value_unit.term = penv IVP_value_unit.p_u_0.
Proof. exact ivp_value_unit. Qed.

Theorem C01_ivp_prime_value : forall venv penv fenv,
  venv IVP_prime.v_t = penv IVP_prime.p_t_0 ->
  eval venv penv fenv IVP_prime.term = penv IVP_prime.p_u_0.
Proof. exact ivp_prime_value. Qed.

Theorem C01_ivp_prime_deriv : forall venv penv fenv,
  venv IVP_prime.v_t = penv IVP_prime.p_t_0 ->
  eval venv penv fenv (D IVP_prime.v_t IVP_prime.term) = penv IVP_prime.p_u_0_prime.
Proof. exact ivp_prime_deriv. Qed.

(* analytic form, for every differentiable network (coherent jets) *)
Theorem C01_ivp_prime_is_derive : forall venv penv fenv, coherent fenv ->
  is_derive (fun t => eval (upd venv IVP_prime.v_t t) penv fenv IVP_prime.term)
            (penv IVP_prime.p_t_0) (penv IVP_prime.p_u_0_prime).
Proof. exact ivp_prime_is_derive. Qed.

Theorem C01_ivp_prime_unit_value : forall venv penv fenv,
  venv IVP_prime_unit.v_t = penv IVP_prime_unit.p_t_0 ->
  eval venv penv fenv IVP_prime_unit.term = penv IVP_prime_unit.p_u_0.
Proof. exact ivp_prime_unit_value. Qed.

Theorem C01_ivp_prime_unit_deriv : forall venv penv fenv,
  venv IVP_prime_unit.v_t = penv IVP_prime_unit.p_t_0 ->
  eval venv penv fenv (D IVP_prime_unit.v_t IVP_prime_unit.term) = penv IVP_prime_unit.p_u_0_prime.
Proof. exact ivp_prime_unit_deriv. Qed.

(* ---- two-point Dirichlet BVP, either orientation (only t_1 <> t_0 is assumed) *)
Theorem C01_dbvp_left : forall venv penv fenv,
  penv DBVP.p_t_1 - penv DBVP.p_t_0 <> 0 -> venv DBVP.v_t = penv DBVP.p_t_0 ->
  eval venv penv fenv DBVP.term = penv DBVP.p_u_0.
Proof. exact dbvp_left. Qed.

Theorem C01_dbvp_right : forall venv penv fenv,
  penv DBVP.p_t_1 - penv DBVP.p_t_0 <> 0 -> venv DBVP.v_t = penv DBVP.p_t_1 ->
  eval venv penv fenv DBVP.term = penv DBVP.p_u_1.
Proof. exact dbvp_right. Qed.

Theorem C01_dbvp_unit_left : forall venv penv fenv,
  penv DBVP_unit.p_t_1 - penv DBVP_unit.p_t_0 <> 0 -> venv DBVP_unit.v_t = penv DBVP_unit.p_t_0 ->
  eval venv penv fenv DBVP_unit.term = penv DBVP_unit.p_u_0.
Proof. exact dbvp_unit_left. Qed.

Theorem C01_dbvp_unit_right : forall venv penv fenv,
  penv DBVP_unit.p_t_1 - penv DBVP_unit.p_t_0 <> 0 -> venv DBVP_unit.v_t = penv DBVP_unit.p_t_1 ->
  eval venv penv fenv DBVP_unit.term = penv DBVP_unit.p_u_1.
Proof. exact dbvp_unit_right. Qed.

(* ---- double-ended BVP: all four Dirichlet/Neumann combinations.  The fresh leaves x0/x1 are
   the extra forward passes at the ends; their values are the end points (fresh tables). *)
Theorem C01_debvp_dd_left : forall venv penv fenv,
  penv DEBVP_dd.p_x_max - penv DEBVP_dd.p_x_min <> 0 -> venv DEBVP_dd.v_x = penv DEBVP_dd.p_x_min ->
  eval venv penv fenv DEBVP_dd.term = penv DEBVP_dd.p_a.
Proof. exact debvp_dd_left. Qed.
Theorem C01_debvp_dd_right : forall venv penv fenv,
  penv DEBVP_dd.p_x_max - penv DEBVP_dd.p_x_min <> 0 -> venv DEBVP_dd.v_x = penv DEBVP_dd.p_x_max ->
  eval venv penv fenv DEBVP_dd.term = penv DEBVP_dd.p_b.
Proof. exact debvp_dd_right. Qed.

Theorem C01_debvp_dn_left : forall venv penv fenv,
  penv DEBVP_dn.p_x_max - penv DEBVP_dn.p_x_min <> 0 -> venv DEBVP_dn.v_x = penv DEBVP_dn.p_x_min ->
  eval venv penv fenv DEBVP_dn.term = penv DEBVP_dn.p_a.
Proof. exact debvp_dn_left. Qed.
Theorem C01_debvp_dn_right : forall venv penv fenv,
  penv DEBVP_dn.p_x_max - penv DEBVP_dn.p_x_min <> 0 ->
  venv DEBVP_dn.v_x = penv DEBVP_dn.p_x_max -> venv DEBVP_dn.v_x1 = penv DEBVP_dn.p_x_max ->
  eval venv penv fenv (D DEBVP_dn.v_x DEBVP_dn.term) = penv DEBVP_dn.p_b.
Proof. exact debvp_dn_right. Qed.
Theorem C01_debvp_dn_fresh : DEBVP_dn.fresh = [(DEBVP_dn.v_x1, EPar DEBVP_dn.p_x_max)].
Proof. exact debvp_dn_fresh. Qed.

Theorem C01_debvp_nd_left : forall venv penv fenv,
  penv DEBVP_nd.p_x_max - penv DEBVP_nd.p_x_min <> 0 ->
  venv DEBVP_nd.v_x = penv DEBVP_nd.p_x_min -> venv DEBVP_nd.v_x0 = penv DEBVP_nd.p_x_min ->
  eval venv penv fenv (D DEBVP_nd.v_x DEBVP_nd.term) = penv DEBVP_nd.p_a.
Proof. exact debvp_nd_left. Qed.
Theorem C01_debvp_nd_right : forall venv penv fenv,
  penv DEBVP_nd.p_x_max - penv DEBVP_nd.p_x_min <> 0 -> venv DEBVP_nd.v_x = penv DEBVP_nd.p_x_max ->
  eval venv penv fenv DEBVP_nd.term = penv DEBVP_nd.p_b.
Proof. exact debvp_nd_right. Qed.
Theorem C01_debvp_nd_fresh : DEBVP_nd.fresh = [(DEBVP_nd.v_x0, EPar DEBVP_nd.p_x_min)].
Proof. exact debvp_nd_fresh. Qed.

Theorem C01_debvp_nn_left : forall venv penv fenv,
  penv DEBVP_nn.p_x_max - penv DEBVP_nn.p_x_min <> 0 ->
  venv DEBVP_nn.v_x = penv DEBVP_nn.p_x_min -> venv DEBVP_nn.v_x0 = penv DEBVP_nn.p_x_min ->
  eval venv penv fenv (D DEBVP_nn.v_x DEBVP_nn.term) = penv DEBVP_nn.p_a.
Proof. exact debvp_nn_left. Qed.
Theorem C01_debvp_nn_right : forall venv penv fenv,
  penv DEBVP_nn.p_x_max - penv DEBVP_nn.p_x_min <> 0 ->
  venv DEBVP_nn.v_x = penv DEBVP_nn.p_x_max -> venv DEBVP_nn.v_x1 = penv DEBVP_nn.p_x_max ->
  eval venv penv fenv (D DEBVP_nn.v_x DEBVP_nn.term) = penv DEBVP_nn.p_b.
Proof. exact debvp_nn_right. Qed.
Theorem C01_debvp_nn_fresh :
  DEBVP_nn.fresh = [(DEBVP_nn.v_x0, EPar DEBVP_nn.p_x_min); (DEBVP_nn.v_x1, EPar DEBVP_nn.p_x_max)].
Proof. exact debvp_nn_fresh. Qed.

(* output-unit mode of the double-ended BVP (eight statements) *)
Theorem C01_debvp_dd_unit_left : forall venv penv fenv,
  penv DEBVP_dd_unit.p_x_max - penv DEBVP_dd_unit.p_x_min <> 0 -> venv DEBVP_dd_unit.v_x = penv DEBVP_dd_unit.p_x_min ->
  eval venv penv fenv DEBVP_dd_unit.term = penv DEBVP_dd_unit.p_a.
Proof. exact debvp_dd_unit_left. Qed.
Theorem C01_debvp_dd_unit_right : forall venv penv fenv,
  penv DEBVP_dd_unit.p_x_max - penv DEBVP_dd_unit.p_x_min <> 0 -> venv DEBVP_dd_unit.v_x = penv DEBVP_dd_unit.p_x_max ->
  eval venv penv fenv DEBVP_dd_unit.term = penv DEBVP_dd_unit.p_b.
Proof. exact debvp_dd_unit_right. Qed.
Theorem C01_debvp_dn_unit_left : forall venv penv fenv,
  penv DEBVP_dn_unit.p_x_max - penv DEBVP_dn_unit.p_x_min <> 0 -> venv DEBVP_dn_unit.v_x = penv DEBVP_dn_unit.p_x_min ->
  eval venv penv fenv DEBVP_dn_unit.term = penv DEBVP_dn_unit.p_a.
Proof. exact debvp_dn_unit_left. Qed.
Theorem C01_debvp_dn_unit_right : forall venv penv fenv,
  penv DEBVP_dn_unit.p_x_max - penv DEBVP_dn_unit.p_x_min <> 0 ->
  venv DEBVP_dn_unit.v_x = penv DEBVP_dn_unit.p_x_max -> venv DEBVP_dn_unit.v_x1 = penv DEBVP_dn_unit.p_x_max ->
  eval venv penv fenv (D DEBVP_dn_unit.v_x DEBVP_dn_unit.term) = penv DEBVP_dn_unit.p_b.
Proof. exact debvp_dn_unit_right. Qed.
Theorem C01_debvp_nd_unit_left : forall venv penv fenv,
  penv DEBVP_nd_unit.p_x_max - penv DEBVP_nd_unit.p_x_min <> 0 ->
  venv DEBVP_nd_unit.v_x = penv DEBVP_nd_unit.p_x_min -> venv DEBVP_nd_unit.v_x0 = penv DEBVP_nd_unit.p_x_min ->
  eval venv penv fenv (D DEBVP_nd_unit.v_x DEBVP_nd_unit.term) = penv DEBVP_nd_unit.p_a.
Proof. exact debvp_nd_unit_left. Qed.
Theorem C01_debvp_nd_unit_right : forall venv penv fenv,
  penv DEBVP_nd_unit.p_x_max - penv DEBVP_nd_unit.p_x_min <> 0 -> venv DEBVP_nd_unit.v_x = penv DEBVP_nd_unit.p_x_max ->
  eval venv penv fenv DEBVP_nd_unit.term = penv DEBVP_nd_unit.p_b.
Proof. exact debvp_nd_unit_right. Qed.
Theorem C01_debvp_nn_unit_left : forall venv penv fenv,
  penv DEBVP_nn_unit.p_x_max - penv DEBVP_nn_unit.p_x_min <> 0 ->
  venv DEBVP_nn_unit.v_x = penv DEBVP_nn_unit.p_x_min -> venv DEBVP_nn_unit.v_x0 = penv DEBVP_nn_unit.p_x_min ->
  eval venv penv fenv (D DEBVP_nn_unit.v_x DEBVP_nn_unit.term) = penv DEBVP_nn_unit.p_a.
Proof. exact debvp_nn_unit_left. Qed.
Theorem C01_debvp_nn_unit_right : forall venv penv fenv,
  penv DEBVP_nn_unit.p_x_max - penv DEBVP_nn_unit.p_x_min <> 0 ->
  venv DEBVP_nn_unit.v_x = penv DEBVP_nn_unit.p_x_max -> venv DEBVP_nn_unit.v_x1 = penv DEBVP_nn_unit.p_x_max ->
  eval venv penv fenv (D DEBVP_nn_unit.v_x DEBVP_nn_unit.term) = penv DEBVP_nn_unit.p_b.
Proof. exact debvp_nn_unit_right. Qed.

(* in output-unit mode the only network symbol of every term is the selected column N@k *)
Theorem C01_unit_terms_only_column_symbol :
  forallb (fun e => forallb (Nat.eqb 0) (funs_of e))
    [IVP_value_unit.term; IVP_prime_unit.term; DBVP_unit.term; DEBVP_dd_unit.term; DEBVP_dn_unit.term;
     DEBVP_nd_unit.term; DEBVP_nn_unit.term] = true.
Proof. exact unit_terms_only_column_symbol. Qed.

(* ---- interior non-degeneracy: affine in the raw output o, coefficient non-zero off the
   constrained points *)
Theorem C01_ivp_value_affine : forall venv penv fenv c,
  let P h := eval (upd venv IVP_value_param.v_o h) penv fenv IVP_value_param.term in
  P c = P 0 + (P 1 - P 0) * c.
Proof. exact ivp_value_affine. Qed.
Theorem C01_ivp_value_coef : forall venv penv fenv,
  let P h := eval (upd venv IVP_value_param.v_o h) penv fenv IVP_value_param.term in
  venv IVP_value_param.v_t <> penv IVP_value_param.p_t_0 -> P 1 - P 0 <> 0.
Proof. exact ivp_value_coef. Qed.
Theorem C01_ivp_prime_affine : forall venv penv fenv c,
  let P h := eval (upd venv IVP_prime_param.v_o h) penv fenv IVP_prime_param.term in
  P c = P 0 + (P 1 - P 0) * c.
Proof. exact ivp_prime_affine. Qed.
Theorem C01_ivp_prime_coef : forall venv penv fenv,
  let P h := eval (upd venv IVP_prime_param.v_o h) penv fenv IVP_prime_param.term in
  venv IVP_prime_param.v_t <> penv IVP_prime_param.p_t_0 -> P 1 - P 0 <> 0.
Proof. exact ivp_prime_coef. Qed.
Theorem C01_dbvp_affine : forall venv penv fenv c,
  let P h := eval (upd venv DBVP_param.v_o h) penv fenv DBVP_param.term in
  P c = P 0 + (P 1 - P 0) * c.
Proof. exact dbvp_affine. Qed.
Theorem C01_dbvp_coef : forall venv penv fenv,
  let P h := eval (upd venv DBVP_param.v_o h) penv fenv DBVP_param.term in
  penv DBVP_param.p_t_1 - penv DBVP_param.p_t_0 <> 0 ->
  venv DBVP_param.v_t <> penv DBVP_param.p_t_0 -> venv DBVP_param.v_t <> penv DBVP_param.p_t_1 -> P 1 - P 0 <> 0.
Proof. exact dbvp_coef. Qed.
Theorem C01_debvp_dd_affine : forall venv penv fenv c,
  let P h := eval (upd venv DEBVP_dd_param.v_o h) penv fenv DEBVP_dd_param.term in
  P c = P 0 + (P 1 - P 0) * c.
Proof. exact debvp_dd_affine. Qed.
Theorem C01_debvp_dd_coef : forall venv penv fenv,
  let P h := eval (upd venv DEBVP_dd_param.v_o h) penv fenv DEBVP_dd_param.term in
  penv DEBVP_dd_param.p_x_max - penv DEBVP_dd_param.p_x_min <> 0 ->
  venv DEBVP_dd_param.v_x <> penv DEBVP_dd_param.p_x_min -> venv DEBVP_dd_param.v_x <> penv DEBVP_dd_param.p_x_max ->
  P 1 - P 0 = (let s := (venv DEBVP_dd_param.v_x - penv DEBVP_dd_param.p_x_min) / (penv DEBVP_dd_param.p_x_max - penv DEBVP_dd_param.p_x_min) in s * (1 - s))
  /\ P 1 - P 0 <> 0.
Proof. exact debvp_dd_coef. Qed.
Theorem C01_debvp_dn_affine : forall venv penv fenv c,
  let P h := eval (upd venv DEBVP_dn_param.v_o h) penv fenv DEBVP_dn_param.term in
  P c = P 0 + (P 1 - P 0) * c.
Proof. exact debvp_dn_affine. Qed.
Theorem C01_debvp_dn_coef : forall venv penv fenv,
  let P h := eval (upd venv DEBVP_dn_param.v_o h) penv fenv DEBVP_dn_param.term in
  penv DEBVP_dn_param.p_x_max - penv DEBVP_dn_param.p_x_min <> 0 ->
  venv DEBVP_dn_param.v_x <> penv DEBVP_dn_param.p_x_min -> P 1 - P 0 <> 0.
Proof. exact debvp_dn_coef. Qed.
Theorem C01_debvp_nd_affine : forall venv penv fenv c,
  let P h := eval (upd venv DEBVP_nd_param.v_o h) penv fenv DEBVP_nd_param.term in
  P c = P 0 + (P 1 - P 0) * c.
Proof. exact debvp_nd_affine. Qed.
Theorem C01_debvp_nd_coef : forall venv penv fenv,
  let P h := eval (upd venv DEBVP_nd_param.v_o h) penv fenv DEBVP_nd_param.term in
  penv DEBVP_nd_param.p_x_max - penv DEBVP_nd_param.p_x_min <> 0 ->
  venv DEBVP_nd_param.v_x <> penv DEBVP_nd_param.p_x_max -> P 1 - P 0 <> 0.
Proof. exact debvp_nd_coef. Qed.
Theorem C01_debvp_nn_affine : forall venv penv fenv c,
  let P h := eval (upd venv DEBVP_nn_param.v_o h) penv fenv DEBVP_nn_param.term in
  P c = P 0 + (P 1 - P 0) * c.
Proof. exact debvp_nn_affine. Qed.
Theorem C01_debvp_nn_coef : forall venv penv fenv,
  let P h := eval (upd venv DEBVP_nn_param.v_o h) penv fenv DEBVP_nn_param.term in
  penv DEBVP_nn_param.p_x_max - penv DEBVP_nn_param.p_x_min <> 0 -> 0 < P 1 - P 0.
Proof. exact debvp_nn_coef. Qed.

(* ---- the constructor's admissibility test *)
Theorem C01_debvp_rejects :
  DEBVP_reject_three.raises = true /\ DEBVP_reject_one.raises = true /\ DEBVP_reject_both_min.raises = true
  /\ DEBVP_dd.raises = false /\ DEBVP_dn.raises = false /\ DEBVP_nd.raises = false /\ DEBVP_nn.raises = false.
Proof. exact debvp_rejects. Qed.

(* ---- non-vacuity: the hypothesis `coherent fenv` of the analytic (is_derive) statements is met by a
   non-constant smooth network in any number of inputs (lib/Witness.v: N = exp of the sum of its inputs);
   the other hypotheses only place the evaluation point at a constrained point of a non-degenerate interval *)
Theorem C01_coherent_nonvacuous :
  ExprSound.coherent Witness.expfenv /\ Witness.expfenv 0%nat [0%nat] [0] = 1 /\
  Witness.expfenv 0%nat [0%nat] [1] <> Witness.expfenv 0%nat [0%nat] [0].
Proof. exact Witness.coherent_nontrivial. Qed.
