(* P_C15 — property theorems for C15 (epoch and metric bookkeeping stays consistent across any sequence
   of fits).  Only statements, each closed by `exact <lemma of proofs/C15_bookkeeping.v>`.
   Model: coq/model/Solver.v (hand-written, tied to /repo/neurodiffeq/solvers.py by the integer toy
   correspondence of tools/props/C15.py).  Every theorem quantifies over ALL components (the Section
   variables: parameter/gradient/batch/value/optimiser types, loss, gradient, metrics, optimiser
   step functions, generator streams) and over all operation sequences / callbacks / states.

   Vocabulary (definitions in proofs/C15_base.v, proofs/C15_bookkeeping.v):
     runs ph s          number of EvBegin ph events = epochs in which phase ph passed the n_batches guard
     batches ph c n     the n draws of generator ph starting at cursor c
     fixed_mode clo ph  validation, or training with a plain (non-closure) optimiser
     fit_states m 0 cbs s0   the states left behind by each completed fit-loop iteration
     epoch_event ph e   e is an event only _run_epoch(ph) emits (phase ph; never EvCb / EvLocal)

   Tie to the source: coq/gen/Gen_C15.v is REGENERATED on every run from BaseSolver.fit / global_epoch by the
   fail-closed emitter tools/props/t_C15.py (resets at entry, `for local_epoch in range(max_epochs)`, the early `break`
   on _stop_training, local-epoch assignment, train epoch, valid epoch, callbacks in order).  C15_gen_fit states that
   the generated loop, instantiated with the model's operations, IS the model's fit for all inputs; C15_gen_stop_* and
   C15_gen_callbacks_once_in_order are stated directly on the generated loop.

   History: findings F6 (closure optimisers accumulated a custom metric on every closure evaluation) and F11
   (fit(0) left local_epoch at its old value) were repaired in /repo (commits ee125e7, f844591); the model
   follows the repaired code and the two theorems are now proved at FULL strength (C15_metric_mean_closure,
   C15_local_epoch_after).  If either defect returns, the toy correspondence and the oracle of
   tools/props/C15.py report it. *)
From Coq Require Import List Arith Bool Lia.
From ND.model Require Import Solver.
From ND.gen Require Import Gen_C15.
From ND.proofs Require Import C15_base C15_bookkeeping C15_gen.
Import ListNotations.

Section P_C15.
  Variables P G B V O C : Type.
  Variable loss : nat -> C -> P -> B -> V.
  Variable gradl : nat -> C -> P -> B -> G.
  Variable metric : nat -> C -> P -> B -> V.
  Variable nmetrics : nat.
  Variable gzero : G.
  Variable gadd : G -> G -> G.
  Variable vzero : V.
  Variable vadd : V -> V -> V.
  Variable vdivn : V -> nat -> V.
  Variable vltb : V -> V -> bool.
  Variable requires_closure : O -> bool.
  Variable opt_step : O -> P -> G -> O * P.
  Variable closure_opt : O -> P -> (P -> V * G) -> O * list P * P.
  Variable draw : phase -> nat -> B.

  Local Notation state := (Solver.state P G V O C).
  Local Notation acc := (Solver.acc V).
  Local Notation callback := (Solver.callback P G V O C).
  Local Notation action := (Solver.action P O C).
  Local Notation op := (Solver.op P G V O C).
  Local Notation acc0 := (Solver.acc0 nmetrics vzero).
  Local Notation met_add := (Solver.met_add metric vadd).
  Local Notation met_add_from := (Solver.met_add_from metric vadd).
  Local Notation closure_of := (Solver.closure_of loss gradl).
  Local Notation eval_batch := (Solver.eval_batch loss gradl metric gadd vadd closure_opt).
  Local Notation batch_step := (Solver.batch_step loss gradl metric gadd vadd closure_opt draw).
  Local Notation run_batches := (Solver.run_batches loss gradl metric gadd vadd closure_opt draw).
  Local Notation update_best := (Solver.update_best vltb).
  Local Notation do_step := (Solver.do_step opt_step).
  Local Notation zero_grad := (Solver.zero_grad gzero).
  Local Notation run_epoch := (Solver.run_epoch loss gradl metric nmetrics gzero gadd vzero vadd vdivn vltb requires_closure opt_step closure_opt draw).
  Local Notation iteration := (Solver.iteration loss gradl metric nmetrics gzero gadd vzero vadd vdivn vltb requires_closure opt_step closure_opt draw).
  Local Notation fit_loop := (Solver.fit_loop loss gradl metric nmetrics gzero gadd vzero vadd vdivn vltb requires_closure opt_step closure_opt draw).
  Local Notation fit := (Solver.fit loss gradl metric nmetrics gzero gadd vzero vadd vdivn vltb requires_closure opt_step closure_opt draw).
  Local Notation run_op := (Solver.run_op loss gradl metric nmetrics gzero gadd vzero vadd vdivn vltb requires_closure opt_step closure_opt draw).
  Local Notation run_ops := (Solver.run_ops loss gradl metric nmetrics gzero gadd vzero vadd vdivn vltb requires_closure opt_step closure_opt draw).
  Local Notation init := (Solver.init V nmetrics gzero).

  (* lemmas of the earlier files, applied to the components above *)
  Local Notation batches := (C15_base.batches B draw).
  Local Notation same_book := (C15_base.same_book P G V O C).
  Local Notation same_book_refl := (C15_base.same_book_refl P G V O C).
  Local Notation same_book_trans := (C15_base.same_book_trans P G V O C).
  Local Notation batch_step_book := (C15_base.batch_step_book P G B V O C loss gradl metric gadd vadd closure_opt draw).
  Local Notation run_batches_book := (C15_base.run_batches_book P G B V O C loss gradl metric gadd vadd closure_opt draw).
  Local Notation batch_step_cur := (C15_base.batch_step_cur P G B V O C loss gradl metric gadd vadd closure_opt draw).
  Local Notation run_batches_cur := (C15_base.run_batches_cur P G B V O C loss gradl metric gadd vadd closure_opt draw).
  Local Notation batch_step_fixed := (C15_base.batch_step_fixed P G B V O C loss gradl metric gadd vadd closure_opt draw).
  Local Notation run_batches_fixed := (C15_base.run_batches_fixed P G B V O C loss gradl metric gadd vadd closure_opt draw).
  Local Notation batch_step_events := (C15_base.batch_step_events P G B V O C loss gradl metric gadd vadd closure_opt draw).
  Local Notation run_batches_events := (C15_base.run_batches_events P G B V O C loss gradl metric gadd vadd closure_opt draw).
  Local Notation state_ext := (C15_base.state_ext P G V O C).
  Local Notation set_cur := (C15_base.set_cur P G V O C).
  Local Notation run_batches_fixed_state := (C15_base.run_batches_fixed_state P G B V O C loss gradl metric gadd vadd closure_opt draw).
  Local Notation cstate := (C15_base.cstate P G V O).
  Local Notation closure_batch := (C15_base.closure_batch P G B V O C loss gradl metric vadd closure_opt).
  Local Notation run_batches_closure := (C15_base.run_batches_closure P G B V O C loss gradl metric gadd vadd closure_opt draw).
  Local Notation better := (C15_base.better P G V O C vltb).
  Local Notation update_best_snoc := (C15_base.update_best_snoc P G V O C vltb).
  Local Notation run_epoch_zero := (C15_base.run_epoch_zero P G B V O C loss gradl metric nmetrics gzero gadd vzero vadd vdivn vltb requires_closure opt_step closure_opt draw).
  Local Notation push_each_length := (C15_base.push_each_length V).
  Local Notation push_each_Forall := (C15_base.push_each_Forall V).
  Local Notation met_add_from_length := (C15_base.met_add_from_length P B V C metric vadd).
  Local Notation fold_met_length := (C15_base.fold_met_length P B V C metric vadd).
  Local Notation pre_state := (C15_base.pre_state P G V O C gzero requires_closure).
  Local Notation epoch_batches := (C15_base.epoch_batches P G B V O C loss gradl metric nmetrics gzero gadd vzero vadd requires_closure closure_opt draw).
  Local Notation means := (C15_base.means V vdivn).
  Local Notation epoch_loss := (C15_base.epoch_loss P G B V O C loss gradl metric nmetrics gzero gadd vzero vadd vdivn requires_closure closure_opt draw).
  Local Notation pre_state_book := (C15_base.pre_state_book P G V O C gzero requires_closure).
  Local Notation epoch_batches_book := (C15_base.epoch_batches_book P G B V O C loss gradl metric nmetrics gzero gadd vzero vadd requires_closure closure_opt draw).
  Local Notation run_epoch_unfold := (C15_base.run_epoch_unfold P G B V O C loss gradl metric nmetrics gzero gadd vzero vadd vdivn vltb requires_closure opt_step closure_opt draw).
  Local Notation ctl := (C15_base.ctl P G V O C).
  Local Notation ctl_of_book := (C15_base.ctl_of_book P G V O C).
  Local Notation ctl_push_hist := (C15_base.ctl_push_hist P G V O C).
  Local Notation ctl_update_best := (C15_base.ctl_update_best P G V O C vltb).
  Local Notation ctl_do_step := (C15_base.ctl_do_step P G V O C opt_step).
  Local Notation ctl_push_metrics := (C15_base.ctl_push_metrics P G V O C).
  Local Notation ctl_run_epoch := (C15_base.ctl_run_epoch P G B V O C loss gradl metric nmetrics gzero gadd vzero vadd vdivn vltb requires_closure opt_step closure_opt draw).
  Local Notation hists_update_best := (C15_base.hists_update_best P G V O C vltb).
  Local Notation hists_do_step := (C15_base.hists_do_step P G V O C opt_step).
  Local Notation a_met_length := (C15_base.a_met_length P G B V O C loss gradl metric gadd vadd closure_opt draw).
  Local Notation epoch_met_length := (C15_base.epoch_met_length P G B V O C loss gradl metric nmetrics gzero gadd vzero vadd requires_closure closure_opt draw).
  Local Notation run_epoch_hists := (C15_base.run_epoch_hists P G B V O C loss gradl metric nmetrics gzero gadd vzero vadd vdivn vltb requires_closure opt_step closure_opt draw).
  Local Notation events_update_best := (C15_base.events_update_best P G V O C vltb).
  Local Notation events_do_step := (C15_base.events_do_step P G V O C opt_step).
  Local Notation step_count := (C15_base.step_count P G V O C requires_closure).
  Local Notation run_epoch_events := (C15_base.run_epoch_events P G B V O C loss gradl metric nmetrics gzero gadd vzero vadd vdivn vltb requires_closure opt_step closure_opt draw).
  Local Notation rec_part := (C15_base.rec_part P G V O C).
  Local Notation rec_part_action := (C15_base.rec_part_action P G V O C).
  Local Notation rec_part_actions := (C15_base.rec_part_actions P G V O C).
  Local Notation rec_part_events := (C15_base.rec_part_events P G V O C).
  Local Notation quiet_part := (C15_base.quiet_part P G V O C).
  Local Notation run_cb_spec := (C15_base.run_cb_spec P G V O C).
  Local Notation run_cbs_from_spec := (C15_base.run_cbs_from_spec P G V O C).
  Local Notation runs := (C15_bookkeeping.runs P G V O C).
  Local Notation Inv_ph := (C15_bookkeeping.Inv_ph P G V O C nmetrics).
  Local Notation Inv_len := (C15_bookkeeping.Inv_len P G V O C nmetrics).
  Local Notation inv_init := (C15_bookkeeping.inv_init P G V O C nmetrics gzero).
  Local Notation inv_ph_transfer := (C15_bookkeeping.inv_ph_transfer P G V O C nmetrics).
  Local Notation inv_epoch := (C15_bookkeeping.inv_epoch P G B V O C loss gradl metric nmetrics gzero gadd vzero vadd vdivn vltb requires_closure opt_step closure_opt draw).
  Local Notation inv_same_counts := (C15_bookkeeping.inv_same_counts P G V O C nmetrics).
  Local Notation runs_app_quiet := (C15_bookkeeping.runs_app_quiet P G V O C).
  Local Notation inv_cbs := (C15_bookkeeping.inv_cbs P G V O C nmetrics).
  Local Notation inv_iteration := (C15_bookkeeping.inv_iteration P G B V O C loss gradl metric nmetrics gzero gadd vzero vadd vdivn vltb requires_closure opt_step closure_opt draw).
  Local Notation inv_fit_loop := (C15_bookkeeping.inv_fit_loop P G B V O C loss gradl metric nmetrics gzero gadd vzero vadd vdivn vltb requires_closure opt_step closure_opt draw).
  Local Notation inv_fit := (C15_bookkeeping.inv_fit P G B V O C loss gradl metric nmetrics gzero gadd vzero vadd vdivn vltb requires_closure opt_step closure_opt draw).
  Local Notation inv_action := (C15_bookkeeping.inv_action P G V O C nmetrics).
  Local Notation inv_ops := (C15_bookkeeping.inv_ops P G B V O C loss gradl metric nmetrics gzero gadd vzero vadd vdivn vltb requires_closure opt_step closure_opt draw).
  Local Notation global_epoch_inv := (C15_bookkeeping.global_epoch_inv P G B V O C loss gradl metric nmetrics gzero gadd vzero vadd vdivn vltb requires_closure opt_step closure_opt draw).
  Local Notation series_lengths := (C15_bookkeeping.series_lengths P G B V O C loss gradl metric nmetrics gzero gadd vzero vadd vdivn vltb requires_closure opt_step closure_opt draw).
  Local Notation runs_epoch := (C15_bookkeeping.runs_epoch P G B V O C loss gradl metric nmetrics gzero gadd vzero vadd vdivn vltb requires_closure opt_step closure_opt draw).
  Local Notation metric_sum := (C15_bookkeeping.metric_sum P B V C metric vzero vadd).
  Local Notation met_add_from_nth := (C15_bookkeeping.met_add_from_nth P B V C metric vadd).
  Local Notation fold_met_nth := (C15_bookkeeping.fold_met_nth P B V C metric vadd).
  Local Notation push_each_nth := (C15_bookkeeping.push_each_nth V).
  Local Notation epoch_met_fixed := (C15_bookkeeping.epoch_met_fixed P G B V O C loss gradl metric nmetrics gzero gadd vzero vadd requires_closure closure_opt draw).
  Local Notation metric_mean_plain := (C15_bookkeeping.metric_mean_plain P G B V O C loss gradl metric nmetrics gzero gadd vzero vadd vdivn vltb requires_closure opt_step closure_opt draw).
  Local Notation closure_points := (C15_bookkeeping.closure_points P G B V O C loss gradl closure_opt).
  Local Notation metric_lasts := (C15_bookkeeping.metric_lasts P B V C metric).
  Local Notation closure_fold_met := (C15_bookkeeping.closure_fold_met P G B V O C loss gradl metric vadd closure_opt).
  Local Notation epoch_met_closure := (C15_bookkeeping.epoch_met_closure P G B V O C loss gradl metric nmetrics gzero gadd vzero vadd requires_closure closure_opt draw).
  Local Notation metric_mean_closure_general := (C15_bookkeeping.metric_mean_closure_general P G B V O C loss gradl metric nmetrics gzero gadd vzero vadd vdivn vltb requires_closure opt_step closure_opt draw).
  Local Notation metric_mean_closure := (C15_bookkeeping.metric_mean_closure P G B V O C loss gradl metric nmetrics gzero gadd vzero vadd vdivn vltb requires_closure opt_step closure_opt draw).
  Local Notation iteration_local := (C15_bookkeeping.iteration_local P G B V O C loss gradl metric nmetrics gzero gadd vzero vadd vdivn vltb requires_closure opt_step closure_opt draw).
  Local Notation fit_states := (C15_bookkeeping.fit_states P G B V O C loss gradl metric nmetrics gzero gadd vzero vadd vdivn vltb requires_closure opt_step closure_opt draw).
  Local Notation fit_loop_last := (C15_bookkeeping.fit_loop_last P G B V O C loss gradl metric nmetrics gzero gadd vzero vadd vdivn vltb requires_closure opt_step closure_opt draw).
  Local Notation fit_states_spec := (C15_bookkeeping.fit_states_spec P G B V O C loss gradl metric nmetrics gzero gadd vzero vadd vdivn vltb requires_closure opt_step closure_opt draw).
  Local Notation local_epoch_run := (C15_bookkeeping.local_epoch_run P G B V O C loss gradl metric nmetrics gzero gadd vzero vadd vdivn vltb requires_closure opt_step closure_opt draw).
  Local Notation stop_request_ends_fit := (C15_bookkeeping.stop_request_ends_fit P G B V O C loss gradl metric nmetrics gzero gadd vzero vadd vdivn vltb requires_closure opt_step closure_opt draw).
  Local Notation last_map_seq := (C15_bookkeeping.last_map_seq P G V O C).
  Local Notation local_epoch_after := (C15_bookkeeping.local_epoch_after P G B V O C loss gradl metric nmetrics gzero gadd vzero vadd vdivn vltb requires_closure opt_step closure_opt draw).
  Local Notation fit_zero := (C15_bookkeeping.fit_zero P G B V O C loss gradl metric nmetrics gzero gadd vzero vadd vdivn vltb requires_closure opt_step closure_opt draw).
  Local Notation run_epoch_events_any := (C15_bookkeeping.run_epoch_events_any P G B V O C loss gradl metric nmetrics gzero gadd vzero vadd vdivn vltb requires_closure opt_step closure_opt draw).
  Local Notation callbacks_once_in_order := (C15_bookkeeping.callbacks_once_in_order P G B V O C loss gradl metric nmetrics gzero gadd vzero vadd vdivn vltb requires_closure opt_step closure_opt draw).
  Local Notation assign_local_epoch := (C15_gen.assign_local_epoch P G V O C).
  Local Notation gen_callbacks_is_model := (C15_gen.gen_callbacks_is_model P G V O C).
  Local Notation gen_body_running := (C15_gen.gen_body_running P G B V O C loss gradl metric nmetrics gzero gadd vzero vadd vdivn vltb requires_closure opt_step closure_opt draw).
  Local Notation gen_loop_stopped := (C15_gen.gen_loop_stopped P G B V O C loss gradl metric nmetrics gzero gadd vzero vadd vdivn vltb requires_closure opt_step closure_opt draw).
  Local Notation gen_loop_is_model := (C15_gen.gen_loop_is_model P G B V O C loss gradl metric nmetrics gzero gadd vzero vadd vdivn vltb requires_closure opt_step closure_opt draw).
  Local Notation gen_fit_is_model := (C15_gen.gen_fit_is_model P G B V O C loss gradl metric nmetrics gzero gadd vzero vadd vdivn vltb requires_closure opt_step closure_opt draw).
  Local Notation gen_global_epoch_is_model := (C15_gen.gen_global_epoch_is_model P G V O C).
  Local Notation gen_stop_ends_fit := (C15_gen.gen_stop_ends_fit P G B V O C loss gradl metric nmetrics gzero gadd vzero vadd vdivn vltb requires_closure opt_step closure_opt draw).
  Local Notation gen_callbacks_once_in_order := (C15_gen.gen_callbacks_once_in_order P G B V O C loss gradl metric nmetrics gzero gadd vzero vadd vdivn vltb requires_closure opt_step closure_opt draw).
  Local Notation gen_update_history_is_model := (C15_gen.gen_update_history_is_model P G V O C).

  Theorem C15_global_epoch_inv : forall (ops : list op) p o c l nbt nbv,
    let s := run_ops ops (init p o c l nbt nbv) in
    global_epoch s = length (h_train s) /\ length (h_train s) = runs Train s.
  Proof. exact global_epoch_inv. Qed.

  Theorem C15_series_lengths : forall (ops : list op) p o c l nbt nbv,
    let s := run_ops ops (init p o c l nbt nbv) in
    length (h_valid s) = runs Valid s /\
    length (m_train s) = nmetrics /\ length (m_valid s) = nmetrics /\
    (forall i, i < nmetrics -> length (nth i (m_train s) []) = runs Train s) /\
    (forall i, i < nmetrics -> length (nth i (m_valid s) []) = runs Valid s).
  Proof. exact series_lengths. Qed.

  (* a phase runs in a fit-loop epoch iff its n_batches is non-zero when it is reached *)
  Theorem C15_runs_epoch : forall ph (s : state),
    runs ph (run_epoch ph s) = runs ph s + (if nb ph s =? 0 then 0 else 1) /\
    runs (other ph) (run_epoch ph s) = runs (other ph) s.
  Proof. exact runs_epoch. Qed.

  Theorem C15_metric_mean_plain : forall ph (s : state) i,
    nb ph s <> 0 -> fixed_mode (requires_closure (ost s)) ph ->
    length (mhist ph s) = nmetrics -> i < nmetrics ->
    nth i (mhist ph (run_epoch ph s)) [] =
    nth i (mhist ph s) [] ++
        [vdivn (metric_sum i (conds s) (theta s) (batches ph (cur ph s) (nb ph s))) (nb ph s)].
  Proof. exact metric_mean_plain. Qed.

  (* closure optimisers: one value per batch, at the optimiser's last evaluation point of that batch *)
  Theorem C15_metric_mean_closure : forall (s : state) i (d : P),
    nb_train s <> 0 -> requires_closure (ost s) = true ->
    length (m_train s) = nmetrics -> i < nmetrics ->
    let tr := closure_points (lid s) (conds s) (ost s) (theta s) (batches Train (cur_train s) (nb_train s)) in
    Forall (fun bp => snd bp <> []) tr ->
    nth i (m_train (run_epoch Train s)) [] =
    nth i (m_train s) [] ++
        [vdivn (fold_left vadd (map (fun bp => metric i (conds s) (last (snd bp) d) (fst bp)) tr) vzero)
               (nb_train s)].
  Proof. exact metric_mean_closure. Qed.

  (* ... and without any assumption on the optimiser (a call that never evaluates the closure contributes nothing) *)
  Theorem C15_metric_mean_closure_general : forall (s : state) i,
    nb_train s <> 0 -> requires_closure (ost s) = true ->
    length (m_train s) = nmetrics -> i < nmetrics ->
    nth i (m_train (run_epoch Train s)) [] =
    nth i (m_train s) [] ++
        [vdivn (fold_left vadd (metric_lasts i (conds s)
                  (closure_points (lid s) (conds s) (ost s) (theta s) (batches Train (cur_train s) (nb_train s)))) vzero)
               (nb_train s)].
  Proof. exact metric_mean_closure_general. Qed.

  Theorem C15_local_epoch_run : forall m cbs (s : state),
    let s0 := set_local_epoch 0 (set_max_local m (set_stop false s)) in
    let L := fit_states m 0 cbs s0 in
    fit m cbs s = last L s0 /\
    length L <= m /\
    map (@local_epoch P G V O C) L = seq 1 (length L) /\
    Forall (fun s' => max_local s' = m) L /\
    (forall j, S j < length L -> stop (nth j L s0) = false) /\
    (length L < m -> stop (last L s0) = true) /\
    (1 <= m -> 1 <= length L).
  Proof. exact local_epoch_run. Qed.

  Theorem C15_stop_request_ends_fit : forall m cbs (s : state) k,
    let s0 := set_local_epoch 0 (set_max_local m (set_stop false s)) in
    let L := fit_states m 0 cbs s0 in
    1 <= k <= length L -> stop (nth (k - 1) L s0) = true -> length L = k.
  Proof. exact stop_request_ends_fit. Qed.

  Theorem C15_local_epoch_after : forall m cbs (s : state),
    local_epoch (fit m cbs s) <= m /\ (1 <= m -> 1 <= local_epoch (fit m cbs s)).
  Proof. exact local_epoch_after. Qed.

  Theorem C15_fit_zero : forall cbs (s : state),
    fit 0 cbs s = set_local_epoch 0 (set_max_local 0 (set_stop false s)).
  Proof. exact fit_zero. Qed.

  Theorem C15_callbacks_once_in_order : forall i cbs (s : state),
    exists lt lv,
      trace (iteration i cbs s) =
        trace s ++ [EvLocal (S i)] ++ lt ++ lv ++ map EvCb (seq 0 (length cbs)) /\
      Forall (fun e => epoch_event Train e = true) lt /\
      Forall (fun e => epoch_event Valid e = true) lv /\
      count (is_begin Train) lt = (if nb_train s =? 0 then 0 else 1) /\
      count (is_begin Valid) lv = (if nb_valid s =? 0 then 0 else 1).
  Proof. exact callbacks_once_in_order. Qed.

  (* ---- the loop generated from the source *)
  Theorem C15_gen_fit : forall m (cbs : list callback) (s : state),
    gen_fit state callback (@set_stop P G V O C) (@set_max_local P G V O C) assign_local_epoch (@stop P G V O C)
            (run_epoch Train) (run_epoch Valid) (fun i cb s => run_cb i cb s) m cbs s = fit m cbs s.
  Proof. exact gen_fit_is_model. Qed.

  Theorem C15_gen_global_epoch : forall s : state, global_epoch s = gen_global_epoch (h_train s).
  Proof. exact gen_global_epoch_is_model. Qed.

  Theorem C15_gen_stop_ends_fit : forall (cbs : list callback) (s : state),
    stop s = true -> forall r i,
      gen_fit_loop state callback assign_local_epoch (@stop P G V O C) (run_epoch Train) (run_epoch Valid)
                   (fun i cb s => run_cb i cb s) r i cbs s = s.
  Proof. exact gen_stop_ends_fit. Qed.

  Theorem C15_gen_callbacks_once_in_order : forall i (cbs : list callback) (s : state), stop s = false ->
    exists lt lv,
      trace (fst (gen_fit_body state callback assign_local_epoch (@stop P G V O C) (run_epoch Train) (run_epoch Valid)
                               (fun i cb s => run_cb i cb s) i cbs s)) =
        trace s ++ [EvLocal (S i)] ++ lt ++ lv ++ map EvCb (seq 0 (length cbs)) /\
      Forall (fun e => epoch_event Train e = true) lt /\
      Forall (fun e => epoch_event Valid e = true) lv.
  Proof. exact gen_callbacks_once_in_order. Qed.

  Theorem C15_gen_update_history : forall ph (v : V) (s : state) (known : bool),
    gen_update_history true known (hist ph s) v = Some (hist ph (push_hist ph v s)) /\
    forall (h : list V), gen_update_history false true h v = Some (h ++ [v]).
  Proof. exact gen_update_history_is_model. Qed.

End P_C15.
