(* P_C06 — property theorems for C06 (solutions evaluate condition(net) faithfully, keep shape, and are
   snapshots).  Only statements, each closed by `exact <lemma of proofs/C06_solution.v>`.
   Model: coq/model/Solver.v — `call_solution` (BaseSolution.__call__: tensorise, reshape(-1,1), _compute_u per
   (condition, net) pair, reshape to the FIRST coordinate's shape, single-vs-list), `get_residuals`,
   `get_solution` (what the returned object holds: SolCopy = deep copies, SolBestAlias = the best_nets object
   + live conditions, SolLive = the live objects).  Part 1 is for arbitrary scalars / networks / conditions /
   coordinate tensors of any shape; part 2 for arbitrary components, callbacks and later op sequences.
   Tie to the source: the C06_gen_* theorems state that the shape logic GENERATED from BaseSolution.__call__
   (coq/gen/Gen_C04.v, regenerated on every run by tools/props/t_C04.py: first coordinate's shape, reshape(-1, 1),
   zip(conditions, nets) pairing, reshape back unless no_reshape, single-vs-list) equals the model's.
   Modelled, not verified: copy.deepcopy yields an independent equal value; the solver REBINDS best_nets and
   never mutates the old object (checked by the correspondence run: interleavings of get_solution with fit and
   with in-place mutation of live weights and condition attributes). *)
From Coq Require Import List Arith Bool Lia.
From ND.model Require Import Solver.
From ND.gen Require Import Gen_C04.
From ND.proofs Require Import C15_base C05_best C06_solution C04_gen.
Import ListNotations.

Section P_C06_call.
  Variable S : Type.
  Variables N Cd : Type.
  Variable enforce_col : Cd -> N -> list (list S) -> option (list S).
  Variable diff_eqs : list (list S) -> list (list S) -> option (list (list S)).

  Theorem C06_call_solution_packs : forall cls nets cds coords nr,
    call_solution enforce_col cls nets cds coords nr =
    match solution_tensors S N Cd enforce_col cls nets cds coords nr with
    | Some ts => pack (length nets) ts
    | None => None
    end.
  Proof. exact (call_solution_packs S N Cd enforce_col). Qed.

  Theorem C06_solution_value_shape : forall cls nets cds c0 rest nr ts (dc : Cd) (dn : N) (dt : tensor S),
    solution_tensors S N Cd enforce_col cls nets cds (c0 :: rest) nr = Some ts ->
    sol_arity_ok cls (length (c0 :: rest)) = true /\
    length ts = Nat.min (length cds) (length nets) /\
    forall i, i < length ts ->
      enforce_col (nth i cds dc) (nth i nets dn) (map tdata (c0 :: rest)) = Some (tdata (nth i ts dt)) /\
      tshape (nth i ts dt) = out_shape S nr c0 (tdata (nth i ts dt)) /\
      numel (tshape (nth i ts dt)) = length (tdata (nth i ts dt)).
  Proof. exact (solution_value_shape S N Cd enforce_col). Qed.

  Theorem C06_solution_shape_total : forall cls nets cds c0 rest nr,
    sol_arity_ok cls (length (c0 :: rest)) = true ->
    numel (tshape c0) = length (tdata c0) ->
    (forall c n, In (c, n) (combine cds nets) ->
       exists u, enforce_col c n (map tdata (c0 :: rest)) = Some u /\ length u = length (tdata c0)) ->
    exists ts, solution_tensors S N Cd enforce_col cls nets cds (c0 :: rest) nr = Some ts /\
               Forall (fun t => tshape t = if nr then [length (tdata c0); 1] else tshape c0) ts.
  Proof. exact (solution_shape_total S N Cd enforce_col). Qed.

  Theorem C06_single_vs_list : forall cls nets cds coords nr out,
    call_solution enforce_col cls nets cds coords nr = Some out ->
    exists ts, solution_tensors S N Cd enforce_col cls nets cds coords nr = Some ts /\
               ((1 < length nets /\ out = Many ts) \/
                (length nets <= 1 /\ exists t rest', ts = t :: rest' /\ out = One t)).
  Proof. exact (single_vs_list S N Cd enforce_col). Qed.

  Theorem C06_single_module_replicated : forall (net : N) (cds : list Cd) i (d : N),
    i < length cds -> nth i (nets_of_module net cds) d = net /\ length (nets_of_module net cds) = length cds.
  Proof. exact (single_module_replicated N Cd). Qed.

  Theorem C06_residuals_spec : forall cls nets cds c0 rest nr out,
    get_residuals enforce_col diff_eqs cls nets cds (c0 :: rest) nr = Some out ->
    let cols := map (fun c => mkTensor [length (tdata c); 1] (tdata c)) (c0 :: rest) in
    exists sol fs rs ts,
      call_solution enforce_col cls nets cds cols nr = Some sol /\
      fs = match sol with One t => [tdata t] | Many l => map tdata l end /\
      diff_eqs fs (map tdata (c0 :: rest)) = Some rs /\
      mapM (shape_col S nr c0) rs = Some ts /\
      pack (length ts) ts = Some out /\
      length ts = length rs /\
      forall i (dr : list S) (dt : tensor S), i < length rs ->
        tdata (nth i ts dt) = nth i rs dr /\ tshape (nth i ts dt) = out_shape S nr c0 (nth i rs dr).
  Proof. exact (residuals_spec S N Cd enforce_col diff_eqs). Qed.
End P_C06_call.

Section P_C06_gen.
  Variable S : Type.

  Theorem C06_gen_original_shape : forall (c0 : tensor S) (rest : list (tensor S)),
    gen_original_shape (map tshape (c0 :: rest)) = Some (tshape c0).
  Proof. exact (gen_original_shape_is_model S). Qed.

  Theorem C06_gen_col_shapes : forall (coords : list (tensor S)),
    Forall (fun c => numel (tshape c) = length (tdata c)) coords ->
    gen_col_shapes (map tshape coords) = map (fun c => [length (tdata c); 1]) coords.
  Proof. exact (gen_col_shapes_is_model S). Qed.

  Theorem C06_gen_out_shapes : forall (nr : bool) (c0 : tensor S) (us : list (list S)),
    option_map (map (@tshape S)) (mapM (shape_col S nr c0) us) =
    gen_out_shapes nr (tshape c0) (map (fun u => [length u; 1]) us).
  Proof. exact (gen_out_shapes_is_model S). Qed.

  Theorem C06_gen_pack : forall (N : Type) (nets : list N) (ts : list (tensor S)),
    pack (length nets) ts =
    match gen_pack nets ts with
    | Some (inl l) => Some (Many l)
    | Some (inr t) => Some (One t)
    | None => None
    end.
  Proof. exact (@gen_pack_is_model S). Qed.

  Theorem C06_gen_us : forall (N Cd : Type) (enforce_col : Cd -> N -> list (list S) -> option (list S))
      (cds : list Cd) (nets : list N) (cols : list (list S)),
    mapM (fun u => u) (gen_us (fun n c x => enforce_col c n x) cds nets cols) =
    mapM (fun cn => enforce_col (fst cn) (snd cn) cols) (combine cds nets).
  Proof. exact (@gen_us_is_model S). Qed.

  Theorem C06_gen_solution_holds : forall (N Cd : Type) (net : N) (nets : list N) (cds : list Cd),
    gen_solution_nets (Some net) nets cds = nets_of_module net cds /\
    gen_solution_nets None nets cds = nets /\ gen_solution_conditions cds = cds.
  Proof. exact (@gen_solution_nets_is_model). Qed.
End P_C06_gen.

Section P_C06.
  Variables P G B V O C : Type.
  Variable loss : nat -> C -> P -> B -> V.
  Variable gradl : nat -> C -> P -> B -> G.
  Variable metric : nat -> C -> P -> B -> V.
  Variable nmetrics : nat.
  Variable gzero : G.
  Variable gadd : G -> G -> G.
  Variable vzero : V.
  Variable vadd : V -> V -> V.
  Variable vdivn : V -> nat -> V.
  Variable vltb : V -> V -> bool.
  Variable requires_closure : O -> bool.
  Variable opt_step : O -> P -> G -> O * P.
  Variable closure_opt : O -> P -> (P -> V * G) -> O * list P * P.
  Variable draw : phase -> nat -> B.

  Local Notation state := (Solver.state P G V O C).
  Local Notation acc := (Solver.acc V).
  Local Notation callback := (Solver.callback P G V O C).
  Local Notation action := (Solver.action P O C).
  Local Notation op := (Solver.op P G V O C).
  Local Notation acc0 := (Solver.acc0 nmetrics vzero).
  Local Notation met_add := (Solver.met_add metric vadd).
  Local Notation met_add_from := (Solver.met_add_from metric vadd).
  Local Notation closure_of := (Solver.closure_of loss gradl).
  Local Notation eval_batch := (Solver.eval_batch loss gradl metric gadd vadd closure_opt).
  Local Notation batch_step := (Solver.batch_step loss gradl metric gadd vadd closure_opt draw).
  Local Notation run_batches := (Solver.run_batches loss gradl metric gadd vadd closure_opt draw).
  Local Notation update_best := (Solver.update_best vltb).
  Local Notation do_step := (Solver.do_step opt_step).
  Local Notation zero_grad := (Solver.zero_grad gzero).
  Local Notation run_epoch := (Solver.run_epoch loss gradl metric nmetrics gzero gadd vzero vadd vdivn vltb requires_closure opt_step closure_opt draw).
  Local Notation iteration := (Solver.iteration loss gradl metric nmetrics gzero gadd vzero vadd vdivn vltb requires_closure opt_step closure_opt draw).
  Local Notation fit_loop := (Solver.fit_loop loss gradl metric nmetrics gzero gadd vzero vadd vdivn vltb requires_closure opt_step closure_opt draw).
  Local Notation fit := (Solver.fit loss gradl metric nmetrics gzero gadd vzero vadd vdivn vltb requires_closure opt_step closure_opt draw).
  Local Notation run_op := (Solver.run_op loss gradl metric nmetrics gzero gadd vzero vadd vdivn vltb requires_closure opt_step closure_opt draw).
  Local Notation run_ops := (Solver.run_ops loss gradl metric nmetrics gzero gadd vzero vadd vdivn vltb requires_closure opt_step closure_opt draw).
  Local Notation init := (Solver.init V nmetrics gzero).

  (* lemmas of the earlier files, applied to the components above *)
  Local Notation batches := (C15_base.batches B draw).
  Local Notation same_book := (C15_base.same_book P G V O C).
  Local Notation same_book_refl := (C15_base.same_book_refl P G V O C).
  Local Notation same_book_trans := (C15_base.same_book_trans P G V O C).
  Local Notation batch_step_book := (C15_base.batch_step_book P G B V O C loss gradl metric gadd vadd closure_opt draw).
  Local Notation run_batches_book := (C15_base.run_batches_book P G B V O C loss gradl metric gadd vadd closure_opt draw).
  Local Notation batch_step_cur := (C15_base.batch_step_cur P G B V O C loss gradl metric gadd vadd closure_opt draw).
  Local Notation run_batches_cur := (C15_base.run_batches_cur P G B V O C loss gradl metric gadd vadd closure_opt draw).
  Local Notation batch_step_fixed := (C15_base.batch_step_fixed P G B V O C loss gradl metric gadd vadd closure_opt draw).
  Local Notation run_batches_fixed := (C15_base.run_batches_fixed P G B V O C loss gradl metric gadd vadd closure_opt draw).
  Local Notation batch_step_events := (C15_base.batch_step_events P G B V O C loss gradl metric gadd vadd closure_opt draw).
  Local Notation run_batches_events := (C15_base.run_batches_events P G B V O C loss gradl metric gadd vadd closure_opt draw).
  Local Notation state_ext := (C15_base.state_ext P G V O C).
  Local Notation set_cur := (C15_base.set_cur P G V O C).
  Local Notation run_batches_fixed_state := (C15_base.run_batches_fixed_state P G B V O C loss gradl metric gadd vadd closure_opt draw).
  Local Notation cstate := (C15_base.cstate P G V O).
  Local Notation closure_batch := (C15_base.closure_batch P G B V O C loss gradl metric vadd closure_opt).
  Local Notation run_batches_closure := (C15_base.run_batches_closure P G B V O C loss gradl metric gadd vadd closure_opt draw).
  Local Notation better := (C15_base.better P G V O C vltb).
  Local Notation update_best_snoc := (C15_base.update_best_snoc P G V O C vltb).
  Local Notation run_epoch_zero := (C15_base.run_epoch_zero P G B V O C loss gradl metric nmetrics gzero gadd vzero vadd vdivn vltb requires_closure opt_step closure_opt draw).
  Local Notation push_each_length := (C15_base.push_each_length V).
  Local Notation push_each_Forall := (C15_base.push_each_Forall V).
  Local Notation met_add_from_length := (C15_base.met_add_from_length P B V C metric vadd).
  Local Notation fold_met_length := (C15_base.fold_met_length P B V C metric vadd).
  Local Notation pre_state := (C15_base.pre_state P G V O C gzero requires_closure).
  Local Notation epoch_batches := (C15_base.epoch_batches P G B V O C loss gradl metric nmetrics gzero gadd vzero vadd requires_closure closure_opt draw).
  Local Notation means := (C15_base.means V vdivn).
  Local Notation epoch_loss := (C15_base.epoch_loss P G B V O C loss gradl metric nmetrics gzero gadd vzero vadd vdivn requires_closure closure_opt draw).
  Local Notation pre_state_book := (C15_base.pre_state_book P G V O C gzero requires_closure).
  Local Notation epoch_batches_book := (C15_base.epoch_batches_book P G B V O C loss gradl metric nmetrics gzero gadd vzero vadd requires_closure closure_opt draw).
  Local Notation run_epoch_unfold := (C15_base.run_epoch_unfold P G B V O C loss gradl metric nmetrics gzero gadd vzero vadd vdivn vltb requires_closure opt_step closure_opt draw).
  Local Notation ctl := (C15_base.ctl P G V O C).
  Local Notation ctl_of_book := (C15_base.ctl_of_book P G V O C).
  Local Notation ctl_push_hist := (C15_base.ctl_push_hist P G V O C).
  Local Notation ctl_update_best := (C15_base.ctl_update_best P G V O C vltb).
  Local Notation ctl_do_step := (C15_base.ctl_do_step P G V O C opt_step).
  Local Notation ctl_push_metrics := (C15_base.ctl_push_metrics P G V O C).
  Local Notation ctl_run_epoch := (C15_base.ctl_run_epoch P G B V O C loss gradl metric nmetrics gzero gadd vzero vadd vdivn vltb requires_closure opt_step closure_opt draw).
  Local Notation hists_update_best := (C15_base.hists_update_best P G V O C vltb).
  Local Notation hists_do_step := (C15_base.hists_do_step P G V O C opt_step).
  Local Notation a_met_length := (C15_base.a_met_length P G B V O C loss gradl metric gadd vadd closure_opt draw).
  Local Notation epoch_met_length := (C15_base.epoch_met_length P G B V O C loss gradl metric nmetrics gzero gadd vzero vadd requires_closure closure_opt draw).
  Local Notation run_epoch_hists := (C15_base.run_epoch_hists P G B V O C loss gradl metric nmetrics gzero gadd vzero vadd vdivn vltb requires_closure opt_step closure_opt draw).
  Local Notation events_update_best := (C15_base.events_update_best P G V O C vltb).
  Local Notation events_do_step := (C15_base.events_do_step P G V O C opt_step).
  Local Notation step_count := (C15_base.step_count P G V O C requires_closure).
  Local Notation run_epoch_events := (C15_base.run_epoch_events P G B V O C loss gradl metric nmetrics gzero gadd vzero vadd vdivn vltb requires_closure opt_step closure_opt draw).
  Local Notation rec_part := (C15_base.rec_part P G V O C).
  Local Notation rec_part_action := (C15_base.rec_part_action P G V O C).
  Local Notation rec_part_actions := (C15_base.rec_part_actions P G V O C).
  Local Notation rec_part_events := (C15_base.rec_part_events P G V O C).
  Local Notation quiet_part := (C15_base.quiet_part P G V O C).
  Local Notation run_cb_spec := (C15_base.run_cb_spec P G V O C).
  Local Notation run_cbs_from_spec := (C15_base.run_cbs_from_spec P G V O C).
  Local Notation get_solution_holds := (C06_solution.get_solution_holds P G V O C).
  Local Notation snapshot_isolated := (C06_solution.snapshot_isolated P G B V O C loss gradl metric nmetrics gzero gadd vzero vadd vdivn vltb requires_closure opt_step closure_opt draw).
  Local Notation live_shared := (C06_solution.live_shared P G B V O C loss gradl metric nmetrics gzero gadd vzero vadd vdivn vltb requires_closure opt_step closure_opt draw).
  Local Notation best_alias_frozen := (C06_solution.best_alias_frozen P G B V O C loss gradl metric nmetrics gzero gadd vzero vadd vdivn vltb requires_closure opt_step closure_opt draw).
  Local Notation best_solution_needs_best := (C06_solution.best_solution_needs_best P G V O C).

  Theorem C06_get_solution_holds : forall (copy best_ : bool) (s : state),
    get_solution copy best_ s =
    match best_, copy with
    | true, true => option_map (fun p => SolCopy p (conds s)) (best s)
    | true, false => option_map (fun p => SolBestAlias p) (best s)
    | false, true => Some (SolCopy (theta s) (conds s))
    | false, false => Some SolLive
    end.
  Proof. exact get_solution_holds. Qed.

  Theorem C06_snapshot_isolated : forall (best_ : bool) (s : state) (sol : Solver.solution P C) (ops : list op),
    get_solution true best_ s = Some sol ->
    sol_nets sol (run_ops ops s) = sol_nets sol s /\
    sol_conds sol (run_ops ops s) = sol_conds sol s /\
    sol_conds sol s = conds s /\
    (if best_ then Some (sol_nets sol s) = best s else sol_nets sol s = theta s).
  Proof. exact snapshot_isolated. Qed.

  Theorem C06_live_shared : forall (s : state) (ops : list op),
    exists sol, get_solution false false s = Some sol /\
                sol_nets sol (run_ops ops s) = theta (run_ops ops s) /\
                sol_conds sol (run_ops ops s) = conds (run_ops ops s).
  Proof. exact live_shared. Qed.

  Theorem C06_best_alias_frozen : forall (s : state) (sol : Solver.solution P C) (ops : list op),
    get_solution false true s = Some sol ->
    Some (sol_nets sol (run_ops ops s)) = best s /\
    sol_conds sol (run_ops ops s) = conds (run_ops ops s).
  Proof. exact best_alias_frozen. Qed.

  Theorem C06_best_solution_needs_best : forall (copy : bool) (s : state),
    best s = None -> get_solution copy true s = None.
  Proof. exact best_solution_needs_best. Qed.

End P_C06.
