(* Property C16 -- callbacks fire exactly when their predicate holds and do what they say.
   Each theorem restates its full statement; proofs are in proofs/C16_*.v, the executable model
   (neurodiffeq/callbacks.py, monitors.py to_callback, the fit loop of solvers.py) in
   model/Callbacks.v and model/CallbacksEve.v.

   History: the full-strength statements C16_optimizer_params_nodup, C16_repeated_spec,
   C16_below_above_spec and C16_repeated_tree_spec were refuted on the original tree (design
   F5 / F10: SetOptimizer chained parameters without de-duplication; _RepeatedMetricChange
   counted its own evaluations).  After the repairs (fix commits 988d08c and 9737159) they are
   proved below without restricting hypotheses; the former `_partial` theorems are gone.

   The history key of a custom metric ('<phase>_<name>' built by the callbacks vs
   '<phase>__<name>' stored by the solver) was repaired by commit 98a9d3c (_metric_history):
   C16_metric_loss_spec / C16_metric_custom_spec / C16_metric_recorded_spec state which series a
   callback reads, C16_gen_metric_history ties the helper to the source.  No open finding. *)
From Coq Require Import String ZArith List Bool Reals.
From Flocq Require Import Core.Raux.
From ND.model Require Import Callbacks CallbacksEve.
From ND.gen Require Import Gen_C16.
From ND.proofs Require Import C16_pred C16_actions C16_tree C16_eve C16_gen.
Import ListNotations.

Open Scope Z_scope.

(* ---- leaves --------------------------------------------------------------------------- *)

Theorem C16_period_local_spec : forall v p o, p <> 0 ->
  (cond v (period_local p o) = true <-> exists n, v_local v = p * n + o mod p) /\
  (cond v (period_local p o) = true <-> exists n, v_local v = p * n + o).
Proof. exact period_local_spec. Qed.

Theorem C16_period_global_spec : forall v p o, p <> 0 ->
  (cond v (period_global p o) = true <-> exists n, v_global v = p * n + o mod p) /\
  (cond v (period_global p o) = true <-> exists n, v_global v = p * n + o).
Proof. exact period_global_spec. Qed.

Theorem C16_interval_spec : forall v lo hi,
  (cond v (PIntLocal lo hi) = true <->
     (forall a, lo = Some a -> a <= v_local v) /\ (forall b, hi = Some b -> v_local v <= b)) /\
  (cond v (PIntGlobal lo hi) = true <->
     (forall a, lo = Some a -> a <= v_global v) /\ (forall b, hi = Some b -> v_global v <= b)).
Proof. exact interval_spec. Qed.

Theorem C16_first_last_spec : forall v,
  (cond v PFirstLocal = true <-> v_local v = 1) /\
  (cond v PFirstGlobal = true <-> v_global v = 1) /\
  (cond v PLastLocal = true <-> v_local v = v_max v) /\
  cond v PTrue = true /\ cond v PFalse = false.
Proof. exact first_last_spec. Qed.

(* ---- combinators: every list, every nesting depth ------------------------------------ *)

Theorem C16_and_spec : forall v l, cond v (PAnd l) = forallb (cond v) l.
Proof. exact and_spec. Qed.

Theorem C16_or_spec : forall v l, cond v (POr l) = existsb (cond v) l.
Proof. exact or_spec. Qed.

Theorem C16_not_spec : forall v q, cond v (PNot q) = negb (cond v q).
Proof. exact not_spec. Qed.

Theorem C16_xor_spec : forall v l, cond v (PXor l) = parity (map (cond v) l).
Proof. exact xor_spec. Qed.

Theorem C16_parity_count : forall bs, parity bs = Nat.odd (length (filter (fun b : bool => b) bs)).
Proof. exact parity_count. Qed.

(* a callback without repeated-metric leaves: its value is the documented Boolean meaning and
   evaluating it leaves it unchanged *)
Theorem C16_stateless_spec : forall p v, stateless p = true -> step v p = (psem v p, p).
Proof. exact stateless_spec. Qed.

(* ---- BaseMonitor.to_callback ----------------------------------------------------------- *)

Theorem C16_monitor_callback_spec : forall c v,
  cond v (monitor_pred c) = true <-> v_local v = v_max v \/ (c <> 0 /\ exists n, v_local v = c * n).
Proof. exact monitor_callback_spec. Qed.

Theorem C16_monitor_default_spec : forall ce v,
  cond v (monitor_pred (monitor_init ce)) = true <->
  v_local v = v_max v \/ exists n, v_local v = monitor_init ce * n.
Proof. exact monitor_default_spec. Qed.

(* ---- stop ------------------------------------------------------------------------------ *)

Theorem C16_stop_spec : forall feed cfeed von max_epochs mask s cbs s' cbs' recs,
  fit feed cfeed von max_epochs mask s cbs = (s', cbs', recs) ->
  Z.of_nat (length recs) <= Z.max 0 max_epochs /\
  (0 < max_epochs -> recs <> []) /\
  (forall i r, nth_error recs i = Some r ->
     e_local r = Z.of_nat (S i) /\ e_max r = max_epochs /\ e_global r = s_global s + Z.of_nat (S i) /\
     (e_stop r = true <-> exists j a, In j (e_fired r) /\ nth_error (map c_act cbs) j = Some a /\ a = AStop) /\
     (e_stop r = true -> S i = length recs) /\
     (e_stop r = false -> Z.of_nat (S i) < max_epochs -> (S i < length recs)%nat)).
Proof. exact stop_spec. Qed.

(* ---- set-once actions ------------------------------------------------------------------ *)

Theorem C16_set_once_spec : forall reset fires t,
  nth t (set_trace reset false fires) false =
  nth t fires false && (reset || negb (existsb (fun b : bool => b) (firstn t fires))).
Proof. exact set_once_spec. Qed.

Theorem C16_optimizer_params_nodup :
  forall {P : Type} (dec : forall x y : P, {x = y} + {x <> y}) (nets : list (list P)),
  NoDup (opt_params dec nets) /\
  (forall p, In p (opt_params dec nets) <-> exists net, In net nets /\ In p net) /\
  (forall p net, In net nets -> In p net -> count_occ dec (opt_params dec nets) p = 1%nat).
Proof. exact @optimizer_params_nodup. Qed.

(* ---- repeated-metric callbacks: every history, every state, whenever evaluated ---------- *)

Theorem C16_repeated_spec : forall k tr mt n s v h,
  pairwise_of k = true -> hist_of tr mt v = Some h ->
  cond v (PRepeated k tr mt n s) = true <->
  (forall i : nat, Z.of_nat i < n -> (S i < List.length h)%nat /\ rel_of k (nth i h 0) (nth (S i) h 0) = true).
Proof. exact repeated_spec. Qed.

Theorem C16_below_above_spec : forall k tr mt n s v h,
  pairwise_of k = false -> hist_of tr mt v = Some h ->
  cond v (PRepeated k tr mt n s) = true <->
  (forall i : nat, Z.of_nat i < n -> (i < List.length h)%nat /\ val_of k (nth i h 0) = true).
Proof. exact below_above_spec. Qed.

(* which series h is: the one the solver records for that metric in that phase *)
Theorem C16_metric_loss_spec : forall v tr, hist_of tr "loss" v = Some (if tr then v_train v else v_valid v).
Proof. exact metric_loss_spec. Qed.

Theorem C16_metric_custom_spec : forall v tr m,
  dict_has (store_of v) (callback_key tr m) = false ->
  hist_of tr m v = dict_get (store_of v) (solver_key tr m).
Proof. exact metric_custom_spec. Qed.

Theorem C16_metric_recorded_spec : forall v tr m t va,
  dict_has (store_of v) (callback_key tr m) = false ->
  find (fun e => String.eqb (fst e) m) (v_custom v) = Some (m, (t, va)) ->
  hist_of tr m v = Some (if tr then t else va).
Proof. exact metric_recorded_spec. Qed.

(* generic in the value type and the relation: the loop of condition() against the history *)
Theorem C16_streak_cap_spec : forall {V : Type} (rel : V -> V -> bool) (d : V) (cap n : nat) (h : list V),
  (n <= cap)%nat ->
  ((n <= streak_cap rel cap h)%nat <->
   (forall i, (i < n)%nat -> (S i < length h)%nat /\ rel (nth i h d) (nth (S i) h d) = true)).
Proof. exact @streak_cap_spec. Qed.

(* any callback expression, any state, any view: the documented Boolean meaning *)
Theorem C16_tree_spec : forall p v, cond v p = psem v p.
Proof. exact tree_spec. Qed.

Theorem C16_repeated_tree_spec : forall vs p, fst (run_pred p vs) = map (fun v => psem v p) vs.
Proof. exact repeated_tree_spec. Qed.

(* ---- EveCallback ----------------------------------------------------------------------- *)

Open Scope R_scope.

Theorem C16_max0_trunc_floor : forall x : R, Z.max (Ztrunc x) 0 = Z.max (Zfloor x) 0.
Proof. exact max0_trunc_floor. Qed.

Theorem C16_eve_spec : forall (n_0 : Z) (n_max : option Z) (v v0 p : R),
  0 < v -> 0 < v0 -> 0 < p -> p <> 1 -> n_max <> Some 0%Z ->
  let x := ln (v / v0) / ln p in
  x - IZR (Zfloor x) < 1 - EVE_EPS ->
  eve_n n_0 n_max v v0 p = min_cap (n_0 * 2 ^ Z.max 0 (Zfloor x)) n_max.
Proof. exact eve_spec. Qed.

Theorem C16_eve_at_power : forall (n_0 : Z) (v0 p : R) (k : nat),
  0 < v0 -> 0 < p -> p <> 1 ->
  eve_n n_0 None (v0 * p ^ k) v0 p = (n_0 * 2 ^ Z.of_nat k)%Z.
Proof. exact eve_at_power. Qed.

(* ---- the code as translated: every definition regenerated from neurodiffeq/callbacks.py by
        tools/props/t_C16.py (gen/Gen_C16.v) equals the hand model, for all inputs ------------- *)

Open Scope Z_scope.

Theorem C16_gen_constants : forall l g m,
  TrueCallback.fires l g m = cond (tview l g m) PTrue /\
  FalseCallback.fires l g m = cond (tview l g m) PFalse /\
  OnFirstLocal.fires l g m = cond (tview l g m) PFirstLocal /\
  OnFirstGlobal.fires l g m = cond (tview l g m) PFirstGlobal /\
  OnLastLocal.fires l g m = cond (tview l g m) PLastLocal.
Proof. exact gen_constants. Qed.

Theorem C16_gen_period : forall p o l g m,
  PeriodLocal.fires p o l g m = cond (tview l g m) (period_local p o) /\
  PeriodGlobal.fires p o l g m = cond (tview l g m) (period_global p o).
Proof. exact gen_period. Qed.

Theorem C16_gen_interval : forall lo hi l g m,
  ClosedIntervalLocal.fires lo hi l g m = cond (tview l g m) (PIntLocal lo hi) /\
  ClosedIntervalGlobal.fires lo hi l g m = cond (tview l g m) (PIntGlobal lo hi).
Proof. exact gen_interval. Qed.

Theorem C16_gen_and : forall v l, AndCallback.condition (map (cond v) l) = cond v (PAnd l).
Proof. exact gen_and. Qed.

Theorem C16_gen_or : forall v l, OrCallback.condition (map (cond v) l) = cond v (POr l).
Proof. exact gen_or. Qed.

Theorem C16_gen_not : forall v q, NotCallback.condition (cond v q) = cond v (PNot q).
Proof. exact gen_not. Qed.

Theorem C16_gen_xor : forall v l, XorCallback.condition (map (cond v) l) = cond v (PXor l).
Proof. exact gen_xor. Qed.

(* & | ^ ~ build a new node from (self, other) and do not touch their operands; set_action_callback keeps the node *)
Theorem C16_gen_operators : forall p q : pred,
  Operators.and_ PAnd POr PXor PNot p q = PAnd [p; q] /\ Operators.or_ PAnd POr PXor PNot p q = POr [p; q] /\
  Operators.xor_ PAnd POr PXor PNot p q = PXor [p; q] /\ Operators.invert PAnd POr PXor PNot p = PNot p.
Proof. exact gen_operators. Qed.

Theorem C16_gen_operator_meaning : forall v (p q : pred),
  cond v (Operators.and_ PAnd POr PXor PNot p q) = cond v p && cond v q /\
  cond v (Operators.or_ PAnd POr PXor PNot p q) = cond v p || cond v q /\
  cond v (Operators.xor_ PAnd POr PXor PNot p q) = xorb (cond v p) (cond v q) /\
  cond v (Operators.invert PAnd POr PXor PNot p) = negb (cond v p).
Proof. exact gen_operator_meaning. Qed.

Theorem C16_gen_set_action : forall (T A : Type) (c : T * option A) (a : A),
  fst (Operators.set_action_callback c a) = fst c /\ snd (Operators.set_action_callback c a) = Some a.
Proof. exact gen_set_action. Qed.

(* ConditionCallback.__call__: the action runs iff the condition holds (and an action is attached) *)
Theorem C16_gen_call : forall c a, ConditionCallback.call c a = c && a.
Proof. exact gen_call. Qed.

Theorem C16_gen_repeated : forall (arg n s : Z) (tr : bool) (mt : string) (v : view),
  RepeatedMetricUp.fires arg tr mt n (hist_or_nil tr mt v) = cond v (PRepeated (RUp arg) tr mt n s) /\
  RepeatedMetricDown.fires arg tr mt n (hist_or_nil tr mt v) = cond v (PRepeated (RDown arg) tr mt n s) /\
  RepeatedMetricConverge.fires arg tr mt n (hist_or_nil tr mt v) = cond v (PRepeated (r_converge arg) tr mt n s) /\
  RepeatedMetricDiverge.fires arg tr mt n (hist_or_nil tr mt v) = cond v (PRepeated (r_diverge arg) tr mt n s) /\
  RepeatedMetricBelow.fires arg tr mt n (hist_or_nil tr mt v) = cond v (PRepeated (RBelow arg) tr mt n s) /\
  RepeatedMetricAbove.fires arg tr mt n (hist_or_nil tr mt v) = cond v (PRepeated (RAbove arg) tr mt n s).
Proof. exact gen_repeated. Qed.

(* the helper _metric_history as translated = the model's lookup; the callbacks use it with the key
   their constructors build *)
Theorem C16_gen_metric_history : forall d key, MetricHistory.metric_history d key = Callbacks.metric_history d key.
Proof. exact gen_metric_history. Qed.

Theorem C16_gen_history_of : forall (tr : bool) (mt : string) (n : Z) (v : view) (v0 p : R) (n_0 : Z) (n_max : option Z),
  RepeatedMetricChange.history_of (store_of v) (RepeatedMetricChange.init_key tr mt n) = hist_of tr mt v /\
  EveCallback.history_of (store_of v) (EveCallback.init_key v0 p n_0 n_max tr mt) = hist_of tr mt v.
Proof. exact gen_history_of. Qed.

(* the fuel the emitter gives the while loop is enough: any extra fuel yields the same counter *)
Theorem C16_gen_loop_fuel_adequate : forall pw ls n h extra,
  RepeatedMetricChange.loop (S (List.length h) + extra) pw ls n h (if pw then 2 else 1) 0 =
  RepeatedMetricChange.loop (S (List.length h)) pw ls n h (if pw then 2 else 1) 0.
Proof. exact gen_loop_fuel_adequate. Qed.

Theorem C16_gen_set_once : forall reset called,
  SetLossFn.call reset called = set_once reset called /\ SetOptimizer.call reset called = set_once reset called.
Proof. exact gen_set_once. Qed.

Theorem C16_gen_optimizer_params : forall {P : Type} (dec : forall x y : P, {x = y} + {x <> y}) (nets : list (list P)),
  SetOptimizer.params dec nets = opt_params dec nets.
Proof. exact @gen_optimizer_params. Qed.

Theorem C16_gen_eve : forall (v0 p : R) (n_0 : Z) (n_max : option Z) (tr : bool) (metric : string) (value : R),
  EveCallback.n_batches v0 p n_0 n_max tr metric value = Fin (eve_n n_0 n_max value v0 p).
Proof. exact gen_eve. Qed.
