(* P_C08 — property theorems for C08 (Cartesian grad/div/curl/laplacian equal their textbook
   definitions).  Statements only; proofs in proofs/C08_cart.v.  `Gen_C08.*` is regenerated from
   /repo/neurodiffeq/operators.py on every run.  Fields are function symbols with arbitrary
   jets `fenv f alpha point` (alpha = multi-index of partial derivatives). *)
From Coq Require Import Reals List.
From ND.lib Require Import Expr.
From ND.gen Require Import Gen_C08.
From ND.proofs Require Import C08_cart.
Import ListNotations.
Open Scope R_scope.

(* ---- list-generic specification: any number of dimensions *)
Theorem C08_div_spec : forall venv penv fenv us xs e,
  div_model us xs = Some e ->
  length us = length xs /\ (0 < length us)%nat /\
  eval venv penv fenv e = Rsum (map (fun p : expr * nat => eval venv penv fenv (D (snd p) (fst p))) (combine us xs)).
Proof. exact div_spec. Qed.

Theorem C08_div_rejects : forall us xs,
  div_model us xs = None <-> (length us = 0%nat \/ length us <> length xs).
Proof. exact div_rejects. Qed.

Theorem C08_grad_spec : forall u xs i x,
  nth_error xs i = Some x -> nth_error (grad_model u xs) i = Some (D x u).
Proof. exact grad_spec. Qed.

Theorem C08_grad_length : forall u xs, length (grad_model u xs) = length xs.
Proof. exact grad_length. Qed.

Theorem C08_laplacian_spec : forall venv penv fenv u xs,
  eval venv penv fenv (laplacian_model u xs) = Rsum (map (fun x => eval venv penv fenv (D x (D x u))) xs).
Proof. exact laplacian_spec. Qed.

Theorem C08_D_independent_zero : forall venv penv fenv v e,
  occurs v e = false -> eval venv penv fenv (D v e) = 0.
Proof. exact D_independent_zero. Qed.

(* ---- the code is the model at every dimension 1..4 (terms regenerated from the source) *)
Theorem C08_tie_grad :
  grad_1.terms = grad_model (S1 0) [0]%nat /\ grad_2.terms = grad_model (S2 0) [0;1]%nat /\
  grad_3.terms = grad_model (S3 0) [0;1;2]%nat /\ grad_4.terms = grad_model (S4 0) [0;1;2;3]%nat.
Proof. exact tie_grad. Qed.

Theorem C08_tie_div :
  Some div_1.term = div_model [S1 0] [0]%nat /\ Some div_2.term = div_model [S2 0; S2 1] [0;1]%nat /\
  Some div_3.term = div_model [S3 0; S3 1; S3 2] [0;1;2]%nat /\
  Some div_4.term = div_model [S4 0; S4 1; S4 2; S4 3] [0;1;2;3]%nat /\
  div_reject_empty.raises = true /\ div_reject_odd.raises = true.
Proof. exact tie_div. Qed.

Theorem C08_tie_laplacian :
  laplacian_1.term = laplacian_model (S1 0) [0]%nat /\ laplacian_2.term = laplacian_model (S2 0) [0;1]%nat /\
  laplacian_3.term = laplacian_model (S3 0) [0;1;2]%nat /\ laplacian_4.term = laplacian_model (S4 0) [0;1;2;3]%nat.
Proof. exact tie_laplacian. Qed.

Theorem C08_tie_vector_laplacian :
  vector_laplacian.terms = map (fun u => laplacian_model u [0;1;2]%nat) [S3 0; S3 1; S3 2].
Proof. exact tie_vector_laplacian. Qed.

(* ---- textbook forms in the partial derivatives of the field *)
Theorem C08_curl_jets : forall venv penv fenv,
  let p3 := [venv 0%nat; venv 1%nat; venv 2%nat] in
  eval venv penv fenv curl.term_0 = fenv 2%nat [0;1;0]%nat p3 - fenv 1%nat [0;0;1]%nat p3 /\
  eval venv penv fenv curl.term_1 = fenv 0%nat [0;0;1]%nat p3 - fenv 2%nat [1;0;0]%nat p3 /\
  eval venv penv fenv curl.term_2 = fenv 1%nat [1;0;0]%nat p3 - fenv 0%nat [0;1;0]%nat p3.
Proof. exact curl_jets. Qed.

Theorem C08_grad3_jets : forall venv penv fenv,
  let p3 := [venv 0%nat; venv 1%nat; venv 2%nat] in
  map (eval venv penv fenv) grad_3.terms
  = [fenv 0%nat [1;0;0]%nat p3; fenv 0%nat [0;1;0]%nat p3; fenv 0%nat [0;0;1]%nat p3].
Proof. exact grad3_jets. Qed.

Theorem C08_div3_jets : forall venv penv fenv,
  let p3 := [venv 0%nat; venv 1%nat; venv 2%nat] in
  eval venv penv fenv div_3.term
  = fenv 0%nat [1;0;0]%nat p3 + fenv 1%nat [0;1;0]%nat p3 + fenv 2%nat [0;0;1]%nat p3.
Proof. exact div3_jets. Qed.

Theorem C08_laplacian3_jets : forall venv penv fenv,
  let p3 := [venv 0%nat; venv 1%nat; venv 2%nat] in
  eval venv penv fenv laplacian_3.term
  = fenv 0%nat [2;0;0]%nat p3 + fenv 0%nat [0;2;0]%nat p3 + fenv 0%nat [0;0;2]%nat p3.
Proof. exact laplacian3_jets. Qed.

Theorem C08_laplacian4_jets : forall venv penv fenv,
  let p4 := [venv 0%nat; venv 1%nat; venv 2%nat; venv 3%nat] in
  eval venv penv fenv laplacian_4.term
  = fenv 0%nat [2;0;0;0]%nat p4 + fenv 0%nat [0;2;0;0]%nat p4 + fenv 0%nat [0;0;2;0]%nat p4 + fenv 0%nat [0;0;0;2]%nat p4.
Proof. exact laplacian4_jets. Qed.

Theorem C08_curl_partial_jets : forall venv penv fenv,
  eval venv penv fenv curl_partial.term_0 = 0 /\
  eval venv penv fenv curl_partial.term_1 = fenv 0%nat [0;1]%nat [venv 1%nat; venv 2%nat] /\
  eval venv penv fenv curl_partial.term_2 = fenv 1%nat [1]%nat [venv 0%nat] - fenv 0%nat [1;0]%nat [venv 1%nat; venv 2%nat].
Proof. exact curl_partial_jets. Qed.

(* ---- compositions of two operators stay exact *)
Theorem C08_div_curl_zero : forall venv penv fenv, eval venv penv fenv div_curl.term = 0.
Proof. exact div_curl_zero. Qed.

Theorem C08_curl_grad_zero : forall venv penv fenv,
  eval venv penv fenv curl_grad.term_0 = 0 /\ eval venv penv fenv curl_grad.term_1 = 0 /\
  eval venv penv fenv curl_grad.term_2 = 0.
Proof. exact curl_grad_zero. Qed.

Theorem C08_div_grad_is_laplacian : forall venv penv fenv,
  eval venv penv fenv div_grad.term = eval venv penv fenv laplacian_3.term.
Proof. exact div_grad_is_laplacian. Qed.

Theorem C08_curl_curl_identity : forall venv penv fenv,
  eval venv penv fenv curl_curl.term_0 = eval venv penv fenv grad_div.term_0 - eval venv penv fenv vector_laplacian.term_0 /\
  eval venv penv fenv curl_curl.term_1 = eval venv penv fenv grad_div.term_1 - eval venv penv fenv vector_laplacian.term_1 /\
  eval venv penv fenv curl_curl.term_2 = eval venv penv fenv grad_div.term_2 - eval venv penv fenv vector_laplacian.term_2.
Proof. exact curl_curl_identity. Qed.
