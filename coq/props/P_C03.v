(* P_C03 — property theorems for C03 (diff returns the exact per-sample k-th partial derivative,
   differentiably).  Statements only.  `unsafe_diff` is the loop model of proofs/C03_diff.v, tied
   (expr_eqb in the kernel) to the terms regenerated from neurodiffeq.py; `guards.*` is the shape
   guard translated from the source of safe_diff on every run. *)
From Coq Require Import Reals List.
From Coquelicot Require Import Coquelicot.
From ND.lib Require Import Expr ExprSound.
From ND.gen Require Import Gen_C03.
From ND.proofs Require Import C03_diff.
Import ListNotations.
Open Scope R_scope.

(* every order k >= 1, every operand expression, every leaf *)
Theorem C03_unsafe_diff_spec : forall venv penv fenv e v k, (1 <= k)%nat ->
  eval venv penv fenv (unsafe_diff e v k) = eval venv penv fenv (Dn k v e).
Proof. exact unsafe_diff_spec. Qed.

(* ... and that is the k-th derivative of the row function h |-> u[t := h] (Coquelicot) *)
Theorem C03_unsafe_diff_is_Derive_n : forall penv fenv, coherent fenv -> forall venv v e k,
  smooth e -> (1 <= k)%nat ->
  eval venv penv fenv (unsafe_diff e v k) = Derive_n (fun h => eval (upd venv v h) penv fenv e) k (venv v).
Proof. exact unsafe_diff_is_Derive_n. Qed.

Theorem C03_diff_independent_zero : forall venv penv fenv e v k,
  occurs v e = false -> eval venv penv fenv (unsafe_diff e v k) = 0.
Proof. exact diff_independent_zero. Qed.

Theorem C03_polynomial_above_degree : forall penv fenv, coherent fenv -> forall venv v (ms : list (Expr.expr * nat)) k,
  List.Forall (fun m : Expr.expr * nat => smooth (fst m) /\ occurs v (fst m) = false /\ (snd m < k)%nat) ms ->
  eval venv penv fenv (Dn k v (fold_right (fun m acc => EAdd (EMul (fst m) (EPow (EVar v) (snd m))) acc) (ECst 0) ms)) = 0.
Proof. exact polynomial_above_degree. Qed.

(* the result is again an expression: nested diffs are covered and mixed partials commute *)
Theorem C03_nested_commute : forall venv penv fenv,
  eval venv penv fenv nested_xy.term = eval venv penv fenv nested_yx.term.
Proof. exact nested_commute. Qed.

(* per sample, for every batch size: vector-Jacobian product with ones of a row-wise map *)
Theorem C03_ones_trick : forall n (g : nat -> R -> R) (t : nat -> R) j, (j < n)%nat ->
  vjp_ones n (fun t i => g i (t i)) t j = Derive (g j) (t j).
Proof. exact ones_trick. Qed.

(* the shape-checked entry point accepts exactly pairs of equal shape (n, 1) *)
Theorem C03_safe_guard_spec : forall su st,
  guards.safe_diff_accepts su st = true <-> exists n, su = [n; 1%nat] /\ st = [n; 1%nat].
Proof. exact safe_guard_spec. Qed.

Theorem C03_diff_dispatch :
  guards.diff_checks_shape true = true /\ guards.diff_checks_shape false = false /\
  guards.diff_default_shape_check = true /\ guards.diff_default_order = 1%nat.
Proof. exact diff_dispatch. Qed.

(* the code is the model: 7 operand families x orders 1..4, compared inside the kernel *)
Theorem C03_tie_unsafe_diff :
  tie (U 1) index_ud_U1 = true /\ tie (U 2) index_ud_U2 = true /\ tie (U 3) index_ud_U3 = true /\ tie (U 4) index_ud_U4 = true /\
  tie (EFun 0 [0;0]%nat [AVar 1; AVar 2]%nat) index_ud_indep = true /\
  tie (EAdd (EMul (EPow (EVar 0) 2) (EVar 1)) (EMul (ECst 3) (EVar 0))) index_ud_poly2 = true /\
  tie (EAdd (EMul (ESin (EMul (EVar 0) (EVar 1))) (EExp (EVar 2))) (ETanh (EVar 0))) index_ud_mixed = true.
Proof. exact tie_unsafe_diff. Qed.

Theorem C03_generated_poly_above_degree : forall venv penv fenv,
  eval venv penv fenv ud_poly2_3.term = 0 /\ eval venv penv fenv ud_poly2_4.term = 0 /\
  eval venv penv fenv ud_indep_1.term = 0 /\ eval venv penv fenv ud_indep_3.term = 0.
Proof. exact generated_poly_above_degree. Qed.
