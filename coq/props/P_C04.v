(* P_C04 — property theorems for C04 (a training epoch optimises exactly the user's residual loss on its
   batches).  Only statements, each closed by `exact <lemma of proofs/C04_epoch.v>`.
   Model: coq/model/Solver.v.  Part 1: routing (arbitrary tensors / networks / conditions);
   Part 2: epochs (arbitrary components, callbacks, op sequences).
   `loss l c p b` stands for loss_fn(residuals, funcs, coords) + additional_loss(...) of the batch b with
   parameters p, conditions c and loss function l; in the toy instance it is COMPUTED through `funcs`,
   `route_coords`, `eq_args`, so the correspondence run ties the routing theorems to the real classes.

   Tie to the source: coq/gen/Gen_C04.v is REGENERATED on every run from neurodiffeq/solvers.py by the fail-closed
   emitter tools/props/t_C04.py; the C04_gen_* theorems state that the generated definitions (what the equations of a
   BundleSolver1D receive, the spherical coordinate slicing, the n_batches guard, the loss / metric entries, when the
   plain optimiser zeroes and steps) equal the model's for all inputs.

   History: finding F9 (SolverSpherical passed only r to a VARIADIC condition) was repaired in /repo (commit
   16898fd); the model follows the repaired code and C04_route_coords_spec / C04_route_coords_all are the
   full-strength statements.  If the defect returns, the toy correspondence and the oracle of
   tools/props/C04.py report it. *)
From Coq Require Import List Arith Bool Lia.
From ND.model Require Import Solver.
From ND.gen Require Import Gen_C04.
From ND.proofs Require Import C15_base C15_bookkeeping C05_best C04_epoch C04_gen.
Import ListNotations.

Section P_C04_routing.
  Variables T N Cd : Type.
  Variable enforce : Cd -> N -> list T -> T.
  Variable sig : Cd -> csig.

  Theorem C04_funcs_routing : forall cls nets cds (coords : list T) i (dn : N) (dc : Cd) (dt : T),
    i < length nets -> i < length cds ->
    nth i (funcs enforce sig cls nets cds coords) dt =
    enforce (nth i cds dc) (nth i nets dn) (route_coords sig cls (nth i cds dc) coords).
  Proof. exact (funcs_routing T N Cd enforce sig). Qed.

  Theorem C04_funcs_length : forall cls nets cds (coords : list T),
    length (funcs enforce sig cls nets cds coords) = Nat.min (length nets) (length cds).
  Proof. exact (funcs_length T N Cd enforce sig). Qed.

  Theorem C04_route_coords_spec : forall cls (c : Cd) (coords : list T),
    route_coords sig cls c coords =
    match cls, sig c with
    | Spherical, SigFixed a => firstn a coords
    | _, _ => coords
    end.
  Proof. exact (route_coords_spec T Cd sig). Qed.

  Theorem C04_route_coords_all : forall cls (c : Cd) (coords : list T),
    cls <> Spherical \/ sig c = SigVariadic -> route_coords sig cls c coords = coords.
  Proof. exact (route_coords_all T Cd sig). Qed.

  Theorem C04_bundle_routing : forall (fs : list T) (t : T) (thetas : list T) (idx : list nat),
    eq_args Bundle (length fs) idx fs (t :: thetas) =
    match mapM (fun i => nth_error thetas i) idx with
    | Some sel => Some (fs ++ [t] ++ sel)
    | None => None
    end.
  Proof. exact (bundle_routing T). Qed.

  Theorem C04_bundle_routing_in_range : forall (fs : list T) (t : T) (thetas : list T) (idx : list nat) (d : T),
    Forall (fun i => i < length thetas) idx ->
    eq_args Bundle (length fs) idx fs (t :: thetas) = Some (fs ++ [t] ++ map (fun i => nth i thetas d) idx).
  Proof. exact (bundle_routing_in_range T). Qed.

  Theorem C04_plain_routing : forall cls nf idx (fs coords : list T),
    cls <> Bundle -> eq_args cls nf idx fs coords = Some (fs ++ coords).
  Proof. exact (plain_routing T). Qed.
End P_C04_routing.

(* ---- the generated definitions equal the model's (all inputs) *)
Theorem C04_gen_eq_args : forall (T : Type) (nf : nat) (idx : list nat) (fs coords : list T),
  gen_eq_args nf idx (fs ++ coords) = eq_args Bundle nf idx fs coords.
Proof. exact (@gen_eq_args_is_model). Qed.

Theorem C04_gen_route_coords : forall (T Cd : Type) (sig : Cd -> csig) (c : Cd) (coords : list T),
  route_coords sig Spherical c coords = gen_route_coords (sig_nparams (sig c)) (sig_variadic (sig c)) coords.
Proof. exact (@gen_route_coords_is_model). Qed.

Theorem C04_gen_epoch_skipped : forall n : nat, gen_epoch_skipped n = (n =? 0).
Proof. exact gen_epoch_skipped_is_model. Qed.

Theorem C04_gen_plain_train : forall (ph : phase) (clo : bool),
  is_train ph && negb clo = gen_plain_train (negb (is_train ph)) clo /\
  is_train ph && negb clo = gen_zero_first (negb (is_train ph)) clo.
Proof. exact gen_plain_train_is_model. Qed.

Section P_C04.
  Variables P G B V O C : Type.
  Variable loss : nat -> C -> P -> B -> V.
  Variable gradl : nat -> C -> P -> B -> G.
  Variable metric : nat -> C -> P -> B -> V.
  Variable nmetrics : nat.
  Variable gzero : G.
  Variable gadd : G -> G -> G.
  Variable vzero : V.
  Variable vadd : V -> V -> V.
  Variable vdivn : V -> nat -> V.
  Variable vltb : V -> V -> bool.
  Variable requires_closure : O -> bool.
  Variable opt_step : O -> P -> G -> O * P.
  Variable closure_opt : O -> P -> (P -> V * G) -> O * list P * P.
  Variable draw : phase -> nat -> B.

  Local Notation state := (Solver.state P G V O C).
  Local Notation acc := (Solver.acc V).
  Local Notation callback := (Solver.callback P G V O C).
  Local Notation action := (Solver.action P O C).
  Local Notation op := (Solver.op P G V O C).
  Local Notation acc0 := (Solver.acc0 nmetrics vzero).
  Local Notation met_add := (Solver.met_add metric vadd).
  Local Notation met_add_from := (Solver.met_add_from metric vadd).
  Local Notation closure_of := (Solver.closure_of loss gradl).
  Local Notation eval_batch := (Solver.eval_batch loss gradl metric gadd vadd closure_opt).
  Local Notation batch_step := (Solver.batch_step loss gradl metric gadd vadd closure_opt draw).
  Local Notation run_batches := (Solver.run_batches loss gradl metric gadd vadd closure_opt draw).
  Local Notation update_best := (Solver.update_best vltb).
  Local Notation do_step := (Solver.do_step opt_step).
  Local Notation zero_grad := (Solver.zero_grad gzero).
  Local Notation run_epoch := (Solver.run_epoch loss gradl metric nmetrics gzero gadd vzero vadd vdivn vltb requires_closure opt_step closure_opt draw).
  Local Notation iteration := (Solver.iteration loss gradl metric nmetrics gzero gadd vzero vadd vdivn vltb requires_closure opt_step closure_opt draw).
  Local Notation fit_loop := (Solver.fit_loop loss gradl metric nmetrics gzero gadd vzero vadd vdivn vltb requires_closure opt_step closure_opt draw).
  Local Notation fit := (Solver.fit loss gradl metric nmetrics gzero gadd vzero vadd vdivn vltb requires_closure opt_step closure_opt draw).
  Local Notation run_op := (Solver.run_op loss gradl metric nmetrics gzero gadd vzero vadd vdivn vltb requires_closure opt_step closure_opt draw).
  Local Notation run_ops := (Solver.run_ops loss gradl metric nmetrics gzero gadd vzero vadd vdivn vltb requires_closure opt_step closure_opt draw).
  Local Notation init := (Solver.init V nmetrics gzero).

  (* lemmas of the earlier files, applied to the components above *)
  Local Notation batches := (C15_base.batches B draw).
  Local Notation same_book := (C15_base.same_book P G V O C).
  Local Notation same_book_refl := (C15_base.same_book_refl P G V O C).
  Local Notation same_book_trans := (C15_base.same_book_trans P G V O C).
  Local Notation batch_step_book := (C15_base.batch_step_book P G B V O C loss gradl metric gadd vadd closure_opt draw).
  Local Notation run_batches_book := (C15_base.run_batches_book P G B V O C loss gradl metric gadd vadd closure_opt draw).
  Local Notation batch_step_cur := (C15_base.batch_step_cur P G B V O C loss gradl metric gadd vadd closure_opt draw).
  Local Notation run_batches_cur := (C15_base.run_batches_cur P G B V O C loss gradl metric gadd vadd closure_opt draw).
  Local Notation batch_step_fixed := (C15_base.batch_step_fixed P G B V O C loss gradl metric gadd vadd closure_opt draw).
  Local Notation run_batches_fixed := (C15_base.run_batches_fixed P G B V O C loss gradl metric gadd vadd closure_opt draw).
  Local Notation batch_step_events := (C15_base.batch_step_events P G B V O C loss gradl metric gadd vadd closure_opt draw).
  Local Notation run_batches_events := (C15_base.run_batches_events P G B V O C loss gradl metric gadd vadd closure_opt draw).
  Local Notation state_ext := (C15_base.state_ext P G V O C).
  Local Notation set_cur := (C15_base.set_cur P G V O C).
  Local Notation run_batches_fixed_state := (C15_base.run_batches_fixed_state P G B V O C loss gradl metric gadd vadd closure_opt draw).
  Local Notation cstate := (C15_base.cstate P G V O).
  Local Notation closure_batch := (C15_base.closure_batch P G B V O C loss gradl metric vadd closure_opt).
  Local Notation run_batches_closure := (C15_base.run_batches_closure P G B V O C loss gradl metric gadd vadd closure_opt draw).
  Local Notation better := (C15_base.better P G V O C vltb).
  Local Notation update_best_snoc := (C15_base.update_best_snoc P G V O C vltb).
  Local Notation run_epoch_zero := (C15_base.run_epoch_zero P G B V O C loss gradl metric nmetrics gzero gadd vzero vadd vdivn vltb requires_closure opt_step closure_opt draw).
  Local Notation push_each_length := (C15_base.push_each_length V).
  Local Notation push_each_Forall := (C15_base.push_each_Forall V).
  Local Notation met_add_from_length := (C15_base.met_add_from_length P B V C metric vadd).
  Local Notation fold_met_length := (C15_base.fold_met_length P B V C metric vadd).
  Local Notation pre_state := (C15_base.pre_state P G V O C gzero requires_closure).
  Local Notation epoch_batches := (C15_base.epoch_batches P G B V O C loss gradl metric nmetrics gzero gadd vzero vadd requires_closure closure_opt draw).
  Local Notation means := (C15_base.means V vdivn).
  Local Notation epoch_loss := (C15_base.epoch_loss P G B V O C loss gradl metric nmetrics gzero gadd vzero vadd vdivn requires_closure closure_opt draw).
  Local Notation pre_state_book := (C15_base.pre_state_book P G V O C gzero requires_closure).
  Local Notation epoch_batches_book := (C15_base.epoch_batches_book P G B V O C loss gradl metric nmetrics gzero gadd vzero vadd requires_closure closure_opt draw).
  Local Notation run_epoch_unfold := (C15_base.run_epoch_unfold P G B V O C loss gradl metric nmetrics gzero gadd vzero vadd vdivn vltb requires_closure opt_step closure_opt draw).
  Local Notation ctl := (C15_base.ctl P G V O C).
  Local Notation ctl_of_book := (C15_base.ctl_of_book P G V O C).
  Local Notation ctl_push_hist := (C15_base.ctl_push_hist P G V O C).
  Local Notation ctl_update_best := (C15_base.ctl_update_best P G V O C vltb).
  Local Notation ctl_do_step := (C15_base.ctl_do_step P G V O C opt_step).
  Local Notation ctl_push_metrics := (C15_base.ctl_push_metrics P G V O C).
  Local Notation ctl_run_epoch := (C15_base.ctl_run_epoch P G B V O C loss gradl metric nmetrics gzero gadd vzero vadd vdivn vltb requires_closure opt_step closure_opt draw).
  Local Notation hists_update_best := (C15_base.hists_update_best P G V O C vltb).
  Local Notation hists_do_step := (C15_base.hists_do_step P G V O C opt_step).
  Local Notation a_met_length := (C15_base.a_met_length P G B V O C loss gradl metric gadd vadd closure_opt draw).
  Local Notation epoch_met_length := (C15_base.epoch_met_length P G B V O C loss gradl metric nmetrics gzero gadd vzero vadd requires_closure closure_opt draw).
  Local Notation run_epoch_hists := (C15_base.run_epoch_hists P G B V O C loss gradl metric nmetrics gzero gadd vzero vadd vdivn vltb requires_closure opt_step closure_opt draw).
  Local Notation events_update_best := (C15_base.events_update_best P G V O C vltb).
  Local Notation events_do_step := (C15_base.events_do_step P G V O C opt_step).
  Local Notation step_count := (C15_base.step_count P G V O C requires_closure).
  Local Notation run_epoch_events := (C15_base.run_epoch_events P G B V O C loss gradl metric nmetrics gzero gadd vzero vadd vdivn vltb requires_closure opt_step closure_opt draw).
  Local Notation rec_part := (C15_base.rec_part P G V O C).
  Local Notation rec_part_action := (C15_base.rec_part_action P G V O C).
  Local Notation rec_part_actions := (C15_base.rec_part_actions P G V O C).
  Local Notation rec_part_events := (C15_base.rec_part_events P G V O C).
  Local Notation quiet_part := (C15_base.quiet_part P G V O C).
  Local Notation run_cb_spec := (C15_base.run_cb_spec P G V O C).
  Local Notation run_cbs_from_spec := (C15_base.run_cbs_from_spec P G V O C).
  Local Notation runs := (C15_bookkeeping.runs P G V O C).
  Local Notation Inv_ph := (C15_bookkeeping.Inv_ph P G V O C nmetrics).
  Local Notation Inv_len := (C15_bookkeeping.Inv_len P G V O C nmetrics).
  Local Notation inv_init := (C15_bookkeeping.inv_init P G V O C nmetrics gzero).
  Local Notation inv_ph_transfer := (C15_bookkeeping.inv_ph_transfer P G V O C nmetrics).
  Local Notation inv_epoch := (C15_bookkeeping.inv_epoch P G B V O C loss gradl metric nmetrics gzero gadd vzero vadd vdivn vltb requires_closure opt_step closure_opt draw).
  Local Notation inv_same_counts := (C15_bookkeeping.inv_same_counts P G V O C nmetrics).
  Local Notation runs_app_quiet := (C15_bookkeeping.runs_app_quiet P G V O C).
  Local Notation inv_cbs := (C15_bookkeeping.inv_cbs P G V O C nmetrics).
  Local Notation inv_iteration := (C15_bookkeeping.inv_iteration P G B V O C loss gradl metric nmetrics gzero gadd vzero vadd vdivn vltb requires_closure opt_step closure_opt draw).
  Local Notation inv_fit_loop := (C15_bookkeeping.inv_fit_loop P G B V O C loss gradl metric nmetrics gzero gadd vzero vadd vdivn vltb requires_closure opt_step closure_opt draw).
  Local Notation inv_fit := (C15_bookkeeping.inv_fit P G B V O C loss gradl metric nmetrics gzero gadd vzero vadd vdivn vltb requires_closure opt_step closure_opt draw).
  Local Notation inv_action := (C15_bookkeeping.inv_action P G V O C nmetrics).
  Local Notation inv_ops := (C15_bookkeeping.inv_ops P G B V O C loss gradl metric nmetrics gzero gadd vzero vadd vdivn vltb requires_closure opt_step closure_opt draw).
  Local Notation global_epoch_inv := (C15_bookkeeping.global_epoch_inv P G B V O C loss gradl metric nmetrics gzero gadd vzero vadd vdivn vltb requires_closure opt_step closure_opt draw).
  Local Notation series_lengths := (C15_bookkeeping.series_lengths P G B V O C loss gradl metric nmetrics gzero gadd vzero vadd vdivn vltb requires_closure opt_step closure_opt draw).
  Local Notation runs_epoch := (C15_bookkeeping.runs_epoch P G B V O C loss gradl metric nmetrics gzero gadd vzero vadd vdivn vltb requires_closure opt_step closure_opt draw).
  Local Notation metric_sum := (C15_bookkeeping.metric_sum P B V C metric vzero vadd).
  Local Notation met_add_from_nth := (C15_bookkeeping.met_add_from_nth P B V C metric vadd).
  Local Notation fold_met_nth := (C15_bookkeeping.fold_met_nth P B V C metric vadd).
  Local Notation push_each_nth := (C15_bookkeeping.push_each_nth V).
  Local Notation epoch_met_fixed := (C15_bookkeeping.epoch_met_fixed P G B V O C loss gradl metric nmetrics gzero gadd vzero vadd requires_closure closure_opt draw).
  Local Notation metric_mean_plain := (C15_bookkeeping.metric_mean_plain P G B V O C loss gradl metric nmetrics gzero gadd vzero vadd vdivn vltb requires_closure opt_step closure_opt draw).
  Local Notation closure_points := (C15_bookkeeping.closure_points P G B V O C loss gradl closure_opt).
  Local Notation metric_lasts := (C15_bookkeeping.metric_lasts P B V C metric).
  Local Notation closure_fold_met := (C15_bookkeeping.closure_fold_met P G B V O C loss gradl metric vadd closure_opt).
  Local Notation epoch_met_closure := (C15_bookkeeping.epoch_met_closure P G B V O C loss gradl metric nmetrics gzero gadd vzero vadd requires_closure closure_opt draw).
  Local Notation metric_mean_closure_general := (C15_bookkeeping.metric_mean_closure_general P G B V O C loss gradl metric nmetrics gzero gadd vzero vadd vdivn vltb requires_closure opt_step closure_opt draw).
  Local Notation metric_mean_closure := (C15_bookkeeping.metric_mean_closure P G B V O C loss gradl metric nmetrics gzero gadd vzero vadd vdivn vltb requires_closure opt_step closure_opt draw).
  Local Notation iteration_local := (C15_bookkeeping.iteration_local P G B V O C loss gradl metric nmetrics gzero gadd vzero vadd vdivn vltb requires_closure opt_step closure_opt draw).
  Local Notation fit_states := (C15_bookkeeping.fit_states P G B V O C loss gradl metric nmetrics gzero gadd vzero vadd vdivn vltb requires_closure opt_step closure_opt draw).
  Local Notation fit_loop_last := (C15_bookkeeping.fit_loop_last P G B V O C loss gradl metric nmetrics gzero gadd vzero vadd vdivn vltb requires_closure opt_step closure_opt draw).
  Local Notation fit_states_spec := (C15_bookkeeping.fit_states_spec P G B V O C loss gradl metric nmetrics gzero gadd vzero vadd vdivn vltb requires_closure opt_step closure_opt draw).
  Local Notation local_epoch_run := (C15_bookkeeping.local_epoch_run P G B V O C loss gradl metric nmetrics gzero gadd vzero vadd vdivn vltb requires_closure opt_step closure_opt draw).
  Local Notation stop_request_ends_fit := (C15_bookkeeping.stop_request_ends_fit P G B V O C loss gradl metric nmetrics gzero gadd vzero vadd vdivn vltb requires_closure opt_step closure_opt draw).
  Local Notation last_map_seq := (C15_bookkeeping.last_map_seq P G V O C).
  Local Notation local_epoch_after := (C15_bookkeeping.local_epoch_after P G B V O C loss gradl metric nmetrics gzero gadd vzero vadd vdivn vltb requires_closure opt_step closure_opt draw).
  Local Notation fit_zero := (C15_bookkeeping.fit_zero P G B V O C loss gradl metric nmetrics gzero gadd vzero vadd vdivn vltb requires_closure opt_step closure_opt draw).
  Local Notation run_epoch_events_any := (C15_bookkeeping.run_epoch_events_any P G B V O C loss gradl metric nmetrics gzero gadd vzero vadd vdivn vltb requires_closure opt_step closure_opt draw).
  Local Notation callbacks_once_in_order := (C15_bookkeeping.callbacks_once_in_order P G B V O C loss gradl metric nmetrics gzero gadd vzero vadd vdivn vltb requires_closure opt_step closure_opt draw).
  Local Notation tracks := (C05_best.tracks P G V O C).
  Local Notation bt := (C05_best.bt P G V O C).
  Local Notation new_entry := (C05_best.new_entry P G B V O C loss gradl metric nmetrics gzero gadd vzero vadd vdivn requires_closure closure_opt draw).
  Local Notation bt_do_step := (C05_best.bt_do_step P G V O C opt_step).
  Local Notation bt_push_metrics := (C05_best.bt_push_metrics P G V O C).
  Local Notation bt_run_epoch := (C05_best.bt_run_epoch P G B V O C loss gradl metric nmetrics gzero gadd vzero vadd vdivn vltb requires_closure opt_step closure_opt draw).
  Local Notation step_best := (C05_best.step_best P V C vltb).
  Local Notation scan := (C05_best.scan P V C vltb).
  Local Notation Best_inv := (C05_best.Best_inv P G V O C vltb).
  Local Notation scan_snoc := (C05_best.scan_snoc P V C vltb).
  Local Notation best_inv_epoch := (C05_best.best_inv_epoch P G B V O C loss gradl metric nmetrics gzero gadd vzero vadd vdivn vltb requires_closure opt_step closure_opt draw).
  Local Notation best_inv_same := (C05_best.best_inv_same P G V O C vltb).
  Local Notation bt_action := (C05_best.bt_action P G V O C).
  Local Notation bt_cbs := (C05_best.bt_cbs P G V O C).
  Local Notation best_inv_iteration := (C05_best.best_inv_iteration P G B V O C loss gradl metric nmetrics gzero gadd vzero vadd vdivn vltb requires_closure opt_step closure_opt draw).
  Local Notation best_inv_fit_loop := (C05_best.best_inv_fit_loop P G B V O C loss gradl metric nmetrics gzero gadd vzero vadd vdivn vltb requires_closure opt_step closure_opt draw).
  Local Notation best_inv_ops := (C05_best.best_inv_ops P G B V O C loss gradl metric nmetrics gzero gadd vzero vadd vdivn vltb requires_closure opt_step closure_opt draw).
  Local Notation scan_none := (C05_best.scan_none P V C vltb).
  Local Notation scan_spec := (C05_best.scan_spec P V C vltb).
  Local Notation best_inv_init := (C05_best.best_inv_init P G V O C nmetrics gzero vltb).
  Local Notation best_inv := (C05_best.best_inv P G B V O C loss gradl metric nmetrics gzero gadd vzero vadd vdivn vltb requires_closure opt_step closure_opt draw).
  Local Notation act_ok := (C05_best.act_ok P G V O C).
  Local Notation op_ok := (C05_best.op_ok P G V O C).
  Local Notation keeps_valid_on := (C05_best.keeps_valid_on P O C).
  Local Notation keeps_valid_off := (C05_best.keeps_valid_off P O C).
  Local Notation Tr_valid := (C05_best.Tr_valid P G V O C).
  Local Notation Tr_train := (C05_best.Tr_train P G V O C).
  Local Notation nbv_run_epoch := (C05_best.nbv_run_epoch P G B V O C loss gradl metric nmetrics gzero gadd vzero vadd vdivn vltb requires_closure opt_step closure_opt draw).
  Local Notation tr_valid_epoch := (C05_best.tr_valid_epoch P G B V O C loss gradl metric nmetrics gzero gadd vzero vadd vdivn vltb requires_closure opt_step closure_opt draw).
  Local Notation tr_train_epoch := (C05_best.tr_train_epoch P G B V O C loss gradl metric nmetrics gzero gadd vzero vadd vdivn vltb requires_closure opt_step closure_opt draw).
  Local Notation inv_acts := (C05_best.inv_acts P G V O C).
  Local Notation inv_cbs_from := (C05_best.inv_cbs_from P G V O C).
  Local Notation tr_valid_act := (C05_best.tr_valid_act P G V O C).
  Local Notation tr_train_act := (C05_best.tr_train_act P G V O C).
  Local Notation tracked_is_valid_history := (C05_best.tracked_is_valid_history P G B V O C loss gradl metric nmetrics gzero gadd vzero vadd vdivn vltb requires_closure opt_step closure_opt draw).
  Local Notation tracked_is_train_history := (C05_best.tracked_is_train_history P G B V O C loss gradl metric nmetrics gzero gadd vzero vadd vdivn vltb requires_closure opt_step closure_opt draw).
  Local Notation strictly_lower := (C05_best.strictly_lower V vltb).
  Local Notation improves := (C05_best.improves P G V O C vltb).
  Local Notation improves_refl := (C05_best.improves_refl P G V O C vltb).
  Local Notation improves_trans := (C05_best.improves_trans P G V O C vltb).
  Local Notation improves_same := (C05_best.improves_same P G V O C vltb).
  Local Notation best_frozen_epoch := (C05_best.best_frozen_epoch P G B V O C loss gradl metric nmetrics gzero gadd vzero vadd vdivn vltb requires_closure opt_step closure_opt draw).
  Local Notation improves_iteration := (C05_best.improves_iteration P G B V O C loss gradl metric nmetrics gzero gadd vzero vadd vdivn vltb requires_closure opt_step closure_opt draw).
  Local Notation improves_fit_loop := (C05_best.improves_fit_loop P G B V O C loss gradl metric nmetrics gzero gadd vzero vadd vdivn vltb requires_closure opt_step closure_opt draw).
  Local Notation best_frozen := (C05_best.best_frozen P G B V O C loss gradl metric nmetrics gzero gadd vzero vadd vdivn vltb requires_closure opt_step closure_opt draw).
  Local Notation mean_loss := (C05_best.mean_loss P B V C loss vzero vadd vdivn draw).
  Local Notation reproduces := (C05_best.reproduces P B V C loss vzero vadd vdivn draw).
  Local Notation new_entry_reproduces := (C05_best.new_entry_reproduces P G B V O C loss gradl metric nmetrics gzero gadd vzero vadd vdivn requires_closure closure_opt draw).
  Local Notation Rep_inv := (C05_best.Rep_inv P G B V O C loss vzero vadd vdivn draw).
  Local Notation rep_epoch := (C05_best.rep_epoch P G B V O C loss gradl metric nmetrics gzero gadd vzero vadd vdivn vltb requires_closure opt_step closure_opt draw).
  Local Notation rep_same := (C05_best.rep_same P G B V O C loss vzero vadd vdivn draw).
  Local Notation rep_fit_loop := (C05_best.rep_fit_loop P G B V O C loss gradl metric nmetrics gzero gadd vzero vadd vdivn vltb requires_closure opt_step closure_opt draw).
  Local Notation rep_ops := (C05_best.rep_ops P G B V O C loss gradl metric nmetrics gzero gadd vzero vadd vdivn vltb requires_closure opt_step closure_opt draw).
  Local Notation best_reproduces := (C05_best.best_reproduces P G B V O C loss gradl metric nmetrics gzero gadd vzero vadd vdivn vltb requires_closure opt_step closure_opt draw).
  Local Notation closure_final := (C05_best.closure_final P G B V O C loss gradl closure_opt).
  Local Notation closure_pts := (C05_best.closure_pts P G B V O C loss gradl closure_opt).
  Local Notation closure_fold_spec := (C05_best.closure_fold_spec P G B V O C loss gradl metric vadd closure_opt).
  Local Notation best_closure_novalid_partial := (C05_best.best_closure_novalid_partial P G B V O C loss gradl metric nmetrics gzero gadd vzero vadd vdivn vltb requires_closure opt_step closure_opt draw).
  Local Notation cur_post := (C04_epoch.cur_post P G V O C vltb opt_step).
  Local Notation cur_run_epoch := (C04_epoch.cur_run_epoch P G B V O C loss gradl metric nmetrics gzero gadd vzero vadd vdivn vltb requires_closure opt_step closure_opt draw).
  Local Notation train_epoch_draws := (C04_epoch.train_epoch_draws P G B V O C loss gradl metric nmetrics gzero gadd vzero vadd vdivn vltb requires_closure opt_step closure_opt draw).
  Local Notation pre_state_fields := (C04_epoch.pre_state_fields P G V O C gzero requires_closure).
  Local Notation loss_is_mean := (C04_epoch.loss_is_mean P G B V O C loss gradl metric nmetrics gzero gadd vzero vadd vdivn vltb requires_closure opt_step closure_opt draw).
  Local Notation wts := (C04_epoch.wts P G V O C).
  Local Notation wts_post := (C04_epoch.wts_post P G V O C vltb).
  Local Notation wts_run_epoch := (C04_epoch.wts_run_epoch P G B V O C loss gradl metric nmetrics gzero gadd vzero vadd vdivn vltb requires_closure opt_step closure_opt draw).
  Local Notation grad_sum := (C04_epoch.grad_sum P G B C gradl gzero gadd).
  Local Notation plain_step := (C04_epoch.plain_step P G B V O C loss gradl metric nmetrics gzero gadd vzero vadd vdivn vltb requires_closure opt_step closure_opt draw).
  Local Notation plain_step_events := (C04_epoch.plain_step_events P G B V O C loss gradl metric nmetrics gzero gadd vzero vadd vdivn vltb requires_closure opt_step closure_opt draw).
  Local Notation closure_fold_theta := (C04_epoch.closure_fold_theta P G B V O C loss gradl metric vadd closure_opt).
  Local Notation closure_step := (C04_epoch.closure_step P G B V O C loss gradl metric nmetrics gzero gadd vzero vadd vdivn vltb requires_closure opt_step closure_opt draw).
  Local Notation closure_loss_is_mean_of_last := (C04_epoch.closure_loss_is_mean_of_last P G B V O C loss gradl metric nmetrics gzero gadd vzero vadd vdivn vltb requires_closure opt_step closure_opt draw).
  Local Notation valid_epoch_pure := (C04_epoch.valid_epoch_pure P G B V O C loss gradl metric nmetrics gzero gadd vzero vadd vdivn vltb requires_closure opt_step closure_opt draw).
  Local Notation train_view := (C04_epoch.train_view P G V O C).
  Local Notation tv_valid := (C04_epoch.tv_valid P G B V O C loss gradl metric nmetrics gzero gadd vzero vadd vdivn vltb requires_closure opt_step closure_opt draw).
  Local Notation train_core_eq := (C04_epoch.train_core_eq P G B V O C loss gradl metric nmetrics gzero gadd vzero vadd requires_closure closure_opt draw).
  Local Notation tv_train_formula := (C04_epoch.tv_train_formula P G B V O C loss gradl metric nmetrics gzero gadd vzero vadd vdivn vltb requires_closure opt_step closure_opt draw).
  Local Notation tv_train := (C04_epoch.tv_train P G B V O C loss gradl metric nmetrics gzero gadd vzero vadd vdivn vltb requires_closure opt_step closure_opt draw).
  Local Notation blind := (C04_epoch.blind P G V O C).
  Local Notation tv_action := (C04_epoch.tv_action P G V O C).
  Local Notation tv_actions := (C04_epoch.tv_actions P G V O C).
  Local Notation tv_log := (C04_epoch.tv_log P G V O C).
  Local Notation tv_cbs := (C04_epoch.tv_cbs P G V O C).
  Local Notation tv_iteration := (C04_epoch.tv_iteration P G B V O C loss gradl metric nmetrics gzero gadd vzero vadd vdivn vltb requires_closure opt_step closure_opt draw).
  Local Notation tv_stop := (C04_epoch.tv_stop P G V O C).
  Local Notation tv_fit_states := (C04_epoch.tv_fit_states P G B V O C loss gradl metric nmetrics gzero gadd vzero vadd vdivn vltb requires_closure opt_step closure_opt draw).
  Local Notation op_blind := (C04_epoch.op_blind P G V O C).
  Local Notation trajectory_independent_of_validation := (C04_epoch.trajectory_independent_of_validation P G B V O C loss gradl metric nmetrics gzero gadd vzero vadd vdivn vltb requires_closure opt_step closure_opt draw).
  Local Notation epoch_trajectory_independent_of_validation := (C04_epoch.epoch_trajectory_independent_of_validation P G B V O C loss gradl metric nmetrics gzero gadd vzero vadd vdivn vltb requires_closure opt_step closure_opt draw).
  Local Notation gen_guard_is_model := (C04_gen.gen_guard_is_model P G B V O C loss gradl metric nmetrics gzero gadd vzero vadd vdivn vltb requires_closure opt_step closure_opt draw).
  Local Notation gen_entries_are_model := (C04_gen.gen_entries_are_model P G B V O C loss gradl metric nmetrics gzero gadd vzero vadd vdivn vltb requires_closure opt_step closure_opt draw).
  Local Notation gen_tracks_is_model := (C04_gen.gen_tracks_is_model P G V O C).
  Local Notation gen_better_is_model := (C04_gen.gen_better_is_model P G V O C vltb).
  Local Notation gen_update_best_is_model := (C04_gen.gen_update_best_is_model P G V O C vltb).

  Theorem C04_train_epoch_draws : forall ph (s : state),
    cur ph (run_epoch ph s) = cur ph s + nb ph s /\
    cur (other ph) (run_epoch ph s) = cur (other ph) s /\
    exists l, events (run_epoch ph s) = l ++ events s /\
              filter is_draw (rev l) = map (EvDraw ph) (seq (cur ph s) (nb ph s)).
  Proof. exact train_epoch_draws. Qed.

  Theorem C04_train_loss_is_mean : forall ph (s : state),
    nb ph s <> 0 -> fixed_mode (requires_closure (ost s)) ph ->
    hist ph (run_epoch ph s) =
    hist ph s ++ [mean_loss (lid s) (conds s) (theta s) ph (cur ph s) (nb ph s)].
  Proof. exact loss_is_mean. Qed.

  Theorem C04_plain_step : forall (s : state),
    nb_train s <> 0 -> requires_closure (ost s) = false ->
    let g := grad_sum (lid s) (conds s) (theta s) (batches Train (cur_train s) (nb_train s)) in
    theta (run_epoch Train s) = snd (opt_step (ost s) (theta s) g) /\
    ost (run_epoch Train s) = fst (opt_step (ost s) (theta s) g) /\
    grad (run_epoch Train s) = g.
  Proof. exact plain_step. Qed.

  Theorem C04_plain_step_events : forall (s : state),
    nb_train s <> 0 -> requires_closure (ost s) = false ->
    exists lb,
      trace (run_epoch Train s) =
      trace s ++ [EvBegin Train; EvZero]
              ++ flat_map (fun k => [EvDraw Train k; EvEval Train k]) (seq (cur_train s) (nb_train s))
              ++ [EvHist Train] ++ lb ++ [EvStep] ++ map (EvMetric Train) (seq 0 nmetrics) /\
      (lb = [] \/ exists b, lb = [EvBest Train b]).
  Proof. exact plain_step_events. Qed.

  Theorem C04_closure_step : forall (s : state),
    nb_train s <> 0 -> requires_closure (ost s) = true ->
    let bs := batches Train (cur_train s) (nb_train s) in
    let r := fold_left (closure_batch (lid s) (conds s)) bs (ost s, theta s, grad s, acc0) in
    wts (run_epoch Train s) = (snd (fst (fst r)), fst (fst (fst r)), snd (fst r)) /\
    theta (run_epoch Train s) = closure_final (lid s) (conds s) (ost s) (theta s) bs /\
    exists l, events (run_epoch Train s) = l ++ events s /\ count is_cstep l = nb_train s /\ count is_step l = 0.
  Proof. exact closure_step. Qed.

  Theorem C04_closure_loss_is_mean_of_last : forall (s : state) (d : P),
    nb_train s <> 0 -> requires_closure (ost s) = true ->
    let bs := batches Train (cur_train s) (nb_train s) in
    Forall (fun bp => snd bp <> []) (closure_pts (lid s) (conds s) (ost s) (theta s) bs) ->
    h_train (run_epoch Train s) =
    h_train s ++ [vdivn (fold_left vadd
                           (map (fun bp => loss (lid s) (conds s) (last (snd bp) d) (fst bp))
                                (closure_pts (lid s) (conds s) (ost s) (theta s) bs)) vzero) (nb_train s)].
  Proof. exact closure_loss_is_mean_of_last. Qed.

  Theorem C04_valid_epoch_pure : forall (s : state),
    wts (run_epoch Valid s) = wts s /\
    h_train (run_epoch Valid s) = h_train s /\ m_train (run_epoch Valid s) = m_train s /\
    cur_train (run_epoch Valid s) = cur_train s /\ ctl (run_epoch Valid s) = ctl s.
  Proof. exact valid_epoch_pure. Qed.

  Theorem C04_trajectory_independent_of_validation : forall (ops : list op), Forall op_blind ops ->
    forall s1 s2 : state, train_view s1 = train_view s2 -> train_view (run_ops ops s1) = train_view (run_ops ops s2).
  Proof. exact trajectory_independent_of_validation. Qed.

  Theorem C04_epoch_trajectory_independent_of_validation : forall m cbs (s1 s2 : state),
    Forall blind cbs -> train_view s1 = train_view s2 ->
    map train_view (fit_states m 0 cbs (set_local_epoch 0 (set_max_local m (set_stop false s1)))) =
    map train_view (fit_states m 0 cbs (set_local_epoch 0 (set_max_local m (set_stop false s2)))).
  Proof. exact epoch_trajectory_independent_of_validation. Qed.

  Theorem C04_gen_guard : forall ph (s : state), gen_epoch_skipped (nb ph s) = true -> run_epoch ph s = s.
  Proof. exact gen_guard_is_model. Qed.

  Theorem C04_gen_entries : forall ph (s : state), gen_epoch_skipped (nb ph s) = false ->
    hist ph (run_epoch ph s) =
      hist ph s ++ [gen_loss_entry vdivn (a_eloss (snd (epoch_batches ph s))) (nb ph s)] /\
    mhist ph (run_epoch ph s) =
      push_each (mhist ph s) (map (fun v => gen_metric_entry vdivn v (nb ph s)) (a_met (snd (epoch_batches ph s)))).
  Proof. exact gen_entries_are_model. Qed.

End P_C04.
