(* P_C12 — property theorems for C12 (condition composition acts column-wise).  Statements only.
   `ensemble_parameterize` is the list-generic model (sub-conditions = arbitrary functions of
   their own output column and the inputs); `Gen_C12.*` is regenerated from conditions.py. *)
From Coq Require Import Reals List String Bool.
From ND.lib Require Import Expr.
From ND.gen Require Import Gen_C12.
From ND.proofs Require Import C12_compose.
Import ListNotations.
Open Scope R_scope.

Theorem C12_ensemble_columnwise : forall subs cols inputs res i p c,
  ensemble_parameterize subs cols inputs = Some res ->
  nth_error subs i = Some p -> nth_error cols i = Some c -> nth_error res i = Some (p c inputs).
Proof. exact ensemble_columnwise. Qed.

Theorem C12_ensemble_width : forall subs cols inputs res,
  ensemble_parameterize subs cols inputs = Some res -> List.length res = List.length subs.
Proof. exact ensemble_width. Qed.

Theorem C12_ensemble_mismatch_rejected : forall subs cols inputs,
  List.length cols <> List.length subs <-> ensemble_parameterize subs cols inputs = None.
Proof. exact ensemble_mismatch_rejected. Qed.

Theorem C12_ensemble_inherits : forall (G : expr -> Prop) subs cols inputs res i p c,
  ensemble_parameterize subs cols inputs = Some res ->
  nth_error subs i = Some p -> nth_error cols i = Some c -> G (p c inputs) ->
  exists e, nth_error res i = Some e /\ G e.
Proof. exact ensemble_inherits. Qed.

(* the code is the model for 1..4 sub-conditions x 1..4 input columns (sub-conditions opaque) *)
Theorem C12_tie_ensemble :
  Some ens_1_1.terms = model_ens 1 1 /\ Some ens_1_2.terms = model_ens 1 2 /\ Some ens_1_3.terms = model_ens 1 3 /\ Some ens_1_4.terms = model_ens 1 4 /\
  Some ens_2_1.terms = model_ens 2 1 /\ Some ens_2_2.terms = model_ens 2 2 /\ Some ens_2_3.terms = model_ens 2 3 /\ Some ens_2_4.terms = model_ens 2 4 /\
  Some ens_3_1.terms = model_ens 3 1 /\ Some ens_3_2.terms = model_ens 3 2 /\ Some ens_3_3.terms = model_ens 3 3 /\ Some ens_3_4.terms = model_ens 3 4 /\
  Some ens_4_1.terms = model_ens 4 1 /\ Some ens_4_2.terms = model_ens 4 2 /\ Some ens_4_3.terms = model_ens 4 3 /\ Some ens_4_4.terms = model_ens 4 4 /\
  ens_mismatch_more_cols.raises = true /\ ens_mismatch_fewer_cols.raises = true.
Proof. exact tie_ensemble. Qed.

(* closed-form classes: column i = sub-condition i on output i alone, and its guarantee holds *)
Theorem C12_tie_concrete_1d :
  ens_concrete_1d.terms = [sub_alone_0.term; sub_alone_1.term; sub_alone_2.term; sub_alone_3.term].
Proof. exact tie_concrete_1d. Qed.

Theorem C12_ens_col0_ivp : forall venv penv fenv,
  venv ens_concrete_1d.v_t = penv ens_concrete_1d.p_t_0 -> eval venv penv fenv ens_concrete_1d.term_0 = penv ens_concrete_1d.p_u_0.
Proof. exact ens_col0_ivp. Qed.
Theorem C12_ens_col1_bvp_left : forall venv penv fenv,
  penv ens_concrete_1d.p_t_1 - penv ens_concrete_1d.p_t_0 <> 0 -> venv ens_concrete_1d.v_t = penv ens_concrete_1d.p_t_0 ->
  eval venv penv fenv ens_concrete_1d.term_1 = penv ens_concrete_1d.p_a.
Proof. exact ens_col1_bvp_left. Qed.
Theorem C12_ens_col1_bvp_right : forall venv penv fenv,
  penv ens_concrete_1d.p_t_1 - penv ens_concrete_1d.p_t_0 <> 0 -> venv ens_concrete_1d.v_t = penv ens_concrete_1d.p_t_1 ->
  eval venv penv fenv ens_concrete_1d.term_1 = penv ens_concrete_1d.p_b.
Proof. exact ens_col1_bvp_right. Qed.
Theorem C12_ens_col2_raw : forall venv penv fenv,
  eval venv penv fenv ens_concrete_1d.term_2 = fenv ens_concrete_1d.f_N_2 [0]%nat [venv ens_concrete_1d.v_t].
Proof. exact ens_col2_raw. Qed.
Theorem C12_ens_col3_ivp_deriv : forall venv penv fenv,
  venv ens_concrete_1d.v_t = penv ens_concrete_1d.p_t_0 ->
  eval venv penv fenv ens_concrete_1d.term_3 = penv ens_concrete_1d.p_u_0 /\
  eval venv penv fenv (D ens_concrete_1d.v_t ens_concrete_1d.term_3) = penv ens_concrete_1d.p_u_0_prime.
Proof. exact ens_col3_ivp_deriv. Qed.
Theorem C12_ens_3d_cols : forall venv penv fenv,
  venv ens_concrete_3d.v_r = penv ens_concrete_3d.p_r_0 ->
  eval venv penv fenv ens_concrete_3d.term_0 = fenv ens_concrete_3d.f_f [0;0]%nat [venv ens_concrete_3d.v_theta; venv ens_concrete_3d.v_phi] /\
  eval venv penv fenv ens_concrete_3d.term_1 = fenv ens_concrete_3d.f_N_1 [0;0;0]%nat [venv ens_concrete_3d.v_r; venv ens_concrete_3d.v_theta; venv ens_concrete_3d.v_phi].
Proof. exact ens_3d_cols. Qed.

(* the no-op condition: identity for output widths 1..4 x input widths 1..4; raw output on enforce;
   an output unit selects only that column *)
Theorem C12_nocondition_identity :
  forallb (fun km : list expr * (nat * nat) => list_eqb expr_eqb (fst km) (leaves (snd (snd km)) (fst (snd km))))
    [(nocond_1_1.terms, (1, 1)); (nocond_1_2.terms, (1, 2)); (nocond_1_3.terms, (1, 3)); (nocond_1_4.terms, (1, 4));
     (nocond_2_1.terms, (2, 1)); (nocond_2_2.terms, (2, 2)); (nocond_2_3.terms, (2, 3)); (nocond_2_4.terms, (2, 4));
     (nocond_3_1.terms, (3, 1)); (nocond_3_2.terms, (3, 2)); (nocond_3_3.terms, (3, 3)); (nocond_3_4.terms, (3, 4));
     (nocond_4_1.terms, (4, 1)); (nocond_4_2.terms, (4, 2)); (nocond_4_3.terms, (4, 3)); (nocond_4_4.terms, (4, 4))]%nat = true.
Proof. exact tie_nocondition. Qed.

Theorem C12_nocondition_enforce_raw : forall venv penv fenv,
  eval venv penv fenv nocond_enforce_1.term = fenv 0%nat [0]%nat [venv 0%nat] /\
  eval venv penv fenv nocond_enforce_2.term = fenv 0%nat [0;0]%nat [venv 0%nat; venv 1%nat] /\
  eval venv penv fenv nocond_enforce_3.term = fenv 0%nat [0;0;0]%nat [venv 0%nat; venv 1%nat; venv 2%nat] /\
  eval venv penv fenv nocond_enforce_4.term = fenv 0%nat [0;0;0;0]%nat [venv 0%nat; venv 1%nat; venv 2%nat; venv 3%nat] /\
  nocond_unit_1.term = EFun nocond_unit_1.f_N_k [0]%nat [AVar 0%nat] /\
  nocond_unit_4.term = EFun nocond_unit_4.f_N_k [0;0;0;0]%nat [AVar 0; AVar 1; AVar 2; AVar 3]%nat.
Proof. exact nocondition_enforce_raw. Qed.

(* the ensemble constructor refuses exactly the classes that override enforce (table regenerated
   from the class bodies), and accepts them with force=True *)
Theorem C12_ensemble_rejects_overriders :
  forallb (fun mr : (string * bool) * bool => Bool.eqb (snd (fst mr)) (snd mr)) index_accept = true /\
  forallb (fun mr : (string * bool) * bool => negb (snd mr)) index_force = true.
Proof. exact ensemble_rejects_overriders. Qed.
