(* C13 -- generator combinators preserve points, pairing and size arithmetic.
   Model and specification: model/GenComb.v.  [sample g k] = what the k-th get_examples() call on
   the composite returns, as (Python container, one vector per dimension) -- the code's own
   data layout; [rsem g k] = the same as a list of points (rows), the specification;
   [transpose d rows] = the d per-dimension vectors of a list of rows.  Leaf draws, filter
   masks, randperm / randint results and user transforms are arbitrary oracles.  Every
   theorem holds for subtrees of ANY depth and ANY call index k. *)
From Coq Require Import List Arith ZArith Bool.
Import ListNotations.
From ND.model Require Import PySem Batch GenComb.
From ND.gen Require Import Gen_C13.
From ND.proofs Require Import C14_batch C13_lists C13_comb C13_gen.

(* ROW COHERENCE, whole tree (structural induction): for every tree satisfying the property's
   preconditions [ok] (same dimension count in a concat, equal run-time sizes in an ensemble,
   one-dimensional mesh children, one map per dimension, pointwise user maps, masks of the right
   length, RNG answers for the range it was asked), every call returns, in the container
   [fform g], exactly the transposition of the specified rows: the coordinates of one point
   sit at one index in every dimension, through every combinator.

   No restriction from a finding remains: the three recorded defects are repaired
   (184d471, e57b511 and the follow-up fix of ResampleGenerator, which now asks the RNG for indices
   below the number of rows actually returned).  [ok] contains only the preconditions the
   property itself states (listed above) and the RNG contract (randperm(n) is a list of length n
   with entries below n; randint(n, (size,)) has `size` entries below n), from which "the indices
   lie inside the draw" is DERIVED for every child. *)
Theorem C13_rows_paired :
  forall (draw : nat -> nat -> list row) (mask : nat -> nat -> list bool)
         (rperm rint : nat -> nat -> list nat) (tvec : nat -> row -> row) (tmulti : nat -> list row -> out)
         (ldims : nat -> nat) (tfun : nat -> Z -> Z) (trow : nat -> row -> row) (tdims : nat -> nat -> nat)
         (tform : nat -> nat -> form),
    (forall (t : nat) (c : row), tvec t c = map (tfun t) c) ->
    (forall (t d : nat) (rows : list row),
        1 <= d -> Forall (width d) rows ->
        tmulti t (transpose d rows) = (tform t d, transpose (tdims t d) (map (trow t) rows)) /\
        Forall (width (tdims t d)) (map (trow t) rows) /\ 1 <= tdims t d /\ (tform t d = FT -> tdims t d = 1)) ->
    forall (g : gen) (k : nat),
      ok draw mask rperm rint ldims tfun trow tdims tform g k ->
      sample draw mask rperm rint tvec tmulti g k =
      Some (fform ldims tdims tform g, transpose (dims ldims tdims g) (rsem draw mask rperm rint ldims tfun trow g k))
      /\ Forall (width (dims ldims tdims g)) (rsem draw mask rperm rint ldims tfun trow g k)
      /\ 1 <= dims ldims tdims g
      /\ (fform ldims tdims tform g = FT -> dims ldims tdims g = 1).
Proof. exact rows_paired. Qed.

(* concatenation appends per dimension: if the children return the rows R h (d dimensions each),
   the concat returns the rows of the children in order *)
Theorem C13_concat_rows :
  forall (draw : nat -> nat -> list row) (mask : nat -> nat -> list bool)
         (rperm rint : nat -> nat -> list nat) (tvec : nat -> row -> row) (tmulti : nat -> list row -> out)
         (gs : list gen) (k d : nat) (R : gen -> list row) (F : gen -> form),
    gs <> nil ->
    (forall h : gen, In h gs -> sample draw mask rperm rint tvec tmulti h k = Some (F h, transpose d (R h))) ->
    (forall h : gen, In h gs -> F h = FT <-> F (hd h gs) = FT) ->
    (forall h : gen, In h gs -> F h = FT -> d = 1) ->
    sample draw mask rperm rint tvec tmulti (Concat gs) k =
    Some (match F (hd (Leaf 0 0 FL) gs) with FT => FT | _ => FL end, transpose d (concat (map R gs))).
Proof. exact concat_rows. Qed.

(* ensemble juxtaposes dimensions: with equal sizes n, row i of the result is row i of every child, side by side *)
Theorem C13_ensemble_rows :
  forall (draw : nat -> nat -> list row) (mask : nat -> nat -> list bool)
         (rperm rint : nat -> nat -> list nat) (tvec : nat -> row -> row) (tmulti : nat -> list row -> out)
         (gs : list gen) (k n : nat) (D : gen -> nat) (R : gen -> list row) (F : gen -> form),
    gs <> nil ->
    (forall h : gen, In h gs -> sample draw mask rperm rint tvec tmulti h k = Some (F h, transpose (D h) (R h))) ->
    (forall h : gen, In h gs -> length (R h) = n /\ Forall (width (D h)) (R h)) ->
    sample draw mask rperm rint tvec tmulti (Ensemble gs) k =
    Some (match sumn (map D gs) with 1 => FT | _ => FU end, transpose (sumn (map D gs)) (juxt (map R gs))) /\
    length (juxt (map R gs)) = n /\ Forall (width (sumn (map D gs))) (juxt (map R gs)).
Proof. exact ensemble_rows. Qed.

(* what the constructor does on unequal sizes: it refuses (built = false, the real one raises ValueError) *)
Theorem C13_ensemble_mismatch_refused :
  forall (a b : gen), built a = true -> built b = true -> csize a <> csize b -> built (Ensemble [a; b]) = false.
Proof. exact ensemble_mismatch_refused. Qed.

(* mesh of one-dimensional generators: the Cartesian product of the children's values ... *)
Theorem C13_mesh_rows :
  forall (draw : nat -> nat -> list row) (mask : nat -> nat -> list bool)
         (rperm rint : nat -> nat -> list nat) (tvec : nat -> row -> row) (tmulti : nat -> list row -> out)
         (gs : list gen) (k : nat) (R : gen -> list row) (F : gen -> form),
    gs <> nil ->
    (forall h : gen, In h gs -> sample draw mask rperm rint tvec tmulti h k = Some (F h, transpose 1 (R h))) ->
    sample draw mask rperm rint tvec tmulti (Mesh gs) k =
    Some (match gs with _ :: nil => FT | _ => FU end,
          transpose (length gs) (cart (map (fun h : gen => map (zp 0) (R h)) gs))).
Proof. exact mesh_rows. Qed.

(* ... which has product-many rows, *)
Theorem C13_mesh_length : forall cs : list row, length (cart cs) = prod (map (length (A:=Z)) cs).
Proof. exact cart_length. Qed.

(* ... contains exactly the combinations, *)
Theorem C13_mesh_combinations :
  forall (cs : list row) (r : row), In r (cart cs) <-> Forall2 (fun (x : Z) (c : row) => In x c) r cs.
Proof. exact cart_In. Qed.

(* ... each index combination at exactly one position, first axis slowest (row-major) *)
Theorem C13_mesh_row_major :
  forall (c : row) (cs : list row) (i j : nat),
    i < length c -> j < length (cart cs) ->
    nth (i * length (cart cs) + j) (cart (c :: cs)) nil = nth i c 0%Z :: nth j (cart cs) nil.
Proof. exact cart_nth. Qed.

(* nested meshes are flattened by the constructor: Mesh(Mesh(gs...), rest...) is Mesh(gs..., rest...) *)
Theorem C13_mesh_flatten : forall gs rest : list gen, norm (Mesh (Mesh gs :: rest)) = norm (Mesh (gs ++ rest)).
Proof. exact mesh_flatten. Qed.

(* transform applies the given maps, one per dimension *)
Theorem C13_transform_rows :
  forall (draw : nat -> nat -> list row) (mask : nat -> nat -> list bool)
         (rperm rint : nat -> nat -> list nat) (tvec : nat -> row -> row) (tmulti : nat -> list row -> out)
         (tfun : nat -> Z -> Z),
    (forall (t : nat) (c : row), tvec t c = map (tfun t) c) ->
    forall (g : gen) (ts : list (option nat)) (k : nat) (R : list row) (f : form),
      sample draw mask rperm rint tvec tmulti g k = Some (f, transpose (length ts) R) ->
      Forall (width (length ts)) R ->
      (f = FT -> length ts = 1) ->
      sample draw mask rperm rint tvec tmulti (TransformL g ts) k =
      Some (match f with FT => FT | _ => FU end, transpose (length ts) (map (zipmap tfun ts) R)).
Proof. exact transL_rows. Qed.

(* transform=callable: the row map trow t applied to every point *)
Theorem C13_transform_callable_rows :
  forall (draw : nat -> nat -> list row) (mask : nat -> nat -> list bool)
         (rperm rint : nat -> nat -> list nat) (tvec : nat -> row -> row) (tmulti : nat -> list row -> out)
         (trow : nat -> row -> row) (tdims : nat -> nat -> nat) (tform : nat -> nat -> form),
    (forall (t d : nat) (rows : list row),
        1 <= d -> Forall (width d) rows ->
        tmulti t (transpose d rows) = (tform t d, transpose (tdims t d) (map (trow t) rows)) /\
        Forall (width (tdims t d)) (map (trow t) rows) /\ 1 <= tdims t d /\ (tform t d = FT -> tdims t d = 1)) ->
    forall (g : gen) (t k d : nat) (R : list row) (f : form),
      sample draw mask rperm rint tvec tmulti g k = Some (f, transpose d R) ->
      1 <= d -> Forall (width d) R ->
      sample draw mask rperm rint tvec tmulti (TransformF g t) k =
      Some (tform t d, transpose (tdims t d) (map (trow t) R)).
Proof. exact transF_rows. Qed.

(* TransformGenerator(g) without maps: the identity, for any number of dimensions (fix e57b511) *)
Theorem C13_transform_default :
  forall (draw : nat -> nat -> list row) (mask : nat -> nat -> list bool)
         (rperm rint : nat -> nat -> list nat) (tvec : nat -> row -> row) (tmulti : nat -> list row -> out)
         (g : gen) (k d : nat) (R : list row) (f : form),
    sample draw mask rperm rint tvec tmulti g k = Some (f, transpose d R) ->
    sample draw mask rperm rint tvec tmulti (TransformN g) k = Some (match d with 1 => FT | _ => FU end, transpose d R).
Proof. exact transN_rows. Qed.

(* filter keeps exactly the rows passing the mask; their number is the number of true bits ... *)
Theorem C13_filter_rows :
  forall (draw : nat -> nat -> list row) (mask : nat -> nat -> list bool)
         (rperm rint : nat -> nat -> list nat) (tvec : nat -> row -> row) (tmulti : nat -> list row -> out)
         (g : gen) (m : nat) (s : option nat) (u : bool) (k d : nat) (R : list row) (f : form),
    sample draw mask rperm rint tvec tmulti g k = Some (f, transpose d R) ->
    1 <= d ->
    length (mask m k) = length R ->
    sample draw mask rperm rint tvec tmulti (Filter g m s u) k =
    Some (match d with 1 => FT | _ => FL end, transpose d (select (mask m k) R)) /\
    length (select (mask m k) R) = count_true (mask m k).
Proof. exact filter_rows. Qed.

(* ... and becomes the filter's .size for the next call *)
Theorem C13_filter_size_update :
  forall (draw : nat -> nat -> list row) (mask : nat -> nat -> list bool)
         (rperm rint : nat -> nat -> list nat) (tvec : nat -> row -> row) (tmulti : nat -> list row -> out)
         (g : gen) (m : nat) (s : option nat) (k : nat) (f : form) (c : row) (cs : list row),
    sample draw mask rperm rint tvec tmulti (Filter g m s true) k = Some (f, c :: cs) ->
    size_at draw mask rperm rint tvec tmulti (Filter g m s true) (S k) = length c.
Proof. exact filter_size_after. Qed.

(* resample returns rows of ONE underlying draw (the child's k-th), at the drawn indices, which lie
   inside that draw for ANY answer randperm(n) / randint(n, (size,)) can give, n = the number of rows of the
   draw just taken.  FULL strength, any child (leaf, filter, a combinator above a filter, ...) *)
Theorem C13_resample_rows :
  forall (draw : nat -> nat -> list row) (mask : nat -> nat -> list bool) (rperm rint : nat -> nat -> list nat)
         (tvec : nat -> row -> row) (tmulti : nat -> list row -> out) (g : gen) (r : nat)
         (sz : option nat) (repl : bool) (k d : nat) (R : list row) (f : form),
    sample draw mask rperm rint tvec tmulti g k = Some (f, transpose d R) ->
    1 <= d ->
    (if repl
     then length (rint r k) = rsize g sz /\ Forall (fun i : nat => i < length R) (rint r k)
     else length (rperm r k) = length R /\ Forall (fun i : nat => i < length R) (rperm r k)) ->
    sample draw mask rperm rint tvec tmulti (Resample g r sz repl) k =
    Some (match f with FT => FT | _ => FL end,
          transpose d (map (fun i : nat => nth i R nil) (ridx rperm rint g r sz repl k))) /\
    Forall (fun i : nat => i < length R) (ridx rperm rint g r sz repl k).
Proof. exact resample_rows. Qed.

(* in particular directly above a filter (either update_size setting): n is the number of rows the filter has just kept *)
Theorem C13_resample_over_filter :
  forall (draw : nat -> nat -> list row) (mask : nat -> nat -> list bool) (rperm rint : nat -> nat -> list nat)
         (tvec : nat -> row -> row) (tmulti : nat -> list row -> out) (g : gen) (m : nat)
         (s : option nat) (u : bool) (r : nat) (sz : option nat) (repl : bool) (k d : nat)
         (R : list row) (f : form),
    sample draw mask rperm rint tvec tmulti g k = Some (f, transpose d R) ->
    1 <= d ->
    length (mask m k) = length R ->
    let F := Filter g m s u in
    let R' := select (mask m k) R in
    (if repl
     then length (rint r k) = rsize F sz /\ Forall (fun i : nat => i < length R') (rint r k)
     else length (rperm r k) = length R' /\ Forall (fun i : nat => i < length R') (rperm r k)) ->
    sample draw mask rperm rint tvec tmulti (Resample F r sz repl) k =
    Some (match d with 1 => FT | _ => FL end,
          transpose d (map (fun i : nat => nth i R' nil) (ridx rperm rint F r sz repl k))).
Proof. exact resample_over_filter. Qed.

(* ... pairwise distinct positions without replacement *)
Theorem C13_resample_distinct :
  forall (rperm rint : nat -> nat -> list nat) (g : gen) (r : nat) (sz : option nat) (k : nat),
    NoDup (rperm r k) -> NoDup (ridx rperm rint g r sz false k).
Proof. exact resample_distinct. Qed.

(* static and predefined return the same points forever *)
Theorem C13_static_const :
  forall (draw : nat -> nat -> list row) (mask : nat -> nat -> list bool)
         (rperm rint : nat -> nat -> list nat) (tvec : nat -> row -> row) (tmulti : nat -> list row -> out)
         (g : gen) (k : nat),
    sample draw mask rperm rint tvec tmulti (Static g) k = sample draw mask rperm rint tvec tmulti (Static g) 0.
Proof. exact static_const. Qed.

Theorem C13_predefined_const :
  forall (draw : nat -> nat -> list row) (mask : nat -> nat -> list bool)
         (rperm rint : nat -> nat -> list nat) (tvec : nat -> row -> row) (tmulti : nat -> list row -> out)
         (cs : list row) (k : nat),
    sample draw mask rperm rint tvec tmulti (Predefined cs) k = sample draw mask rperm rint tvec tmulti (Predefined cs) 0.
Proof. exact predefined_const. Qed.

(* the solver-facing sampler: a list, each dimension reshaped to (n, 1) (flag true), values untouched *)
Theorem C13_sampler_shape :
  forall (draw : nat -> nat -> list row) (mask : nat -> nat -> list bool)
         (rperm rint : nat -> nat -> list nat) (tvec : nat -> row -> row) (tmulti : nat -> list row -> out)
         (g : gen) (k : nat) (f : form) (cs : list row),
    built (norm g) = true ->
    sample draw mask rperm rint tvec tmulti (norm g) k = Some (f, cs) ->
    run draw mask rperm rint tvec tmulti (Sampler g) k = Some (true, (FL, cs)).
Proof. exact sampler_shape. Qed.

(* size arithmetic for static-size trees (no filter): the number of points returned is the .size computed at
   construction (sum for concat, product for mesh, ...), and .size never changes *)
Theorem C13_size_matches :
  forall (draw : nat -> nat -> list row) (mask : nat -> nat -> list bool)
         (rperm rint : nat -> nat -> list nat) (tvec : nat -> row -> row) (tmulti : nat -> list row -> out)
         (ldims : nat -> nat) (tfun : nat -> Z -> Z) (trow : nat -> row -> row) (g : gen) (k : nat),
    sized draw rperm rint g k ->
    length (rsem draw mask rperm rint ldims tfun trow g k) = csize g /\
    size_at draw mask rperm rint tvec tmulti g k = csize g.
Proof. exact size_matches. Qed.

(* ... so every dimension the code returns has exactly .size entries *)
Theorem C13_size_of_columns :
  forall (draw : nat -> nat -> list row) (mask : nat -> nat -> list bool)
         (rperm rint : nat -> nat -> list nat) (tvec : nat -> row -> row) (tmulti : nat -> list row -> out)
         (ldims : nat -> nat) (tfun : nat -> Z -> Z) (trow : nat -> row -> row) (tdims : nat -> nat -> nat)
         (tform : nat -> nat -> form),
    (forall (t : nat) (c : row), tvec t c = map (tfun t) c) ->
    (forall (t d : nat) (rows : list row),
        1 <= d -> Forall (width d) rows ->
        tmulti t (transpose d rows) = (tform t d, transpose (tdims t d) (map (trow t) rows)) /\
        Forall (width (tdims t d)) (map (trow t) rows) /\ 1 <= tdims t d /\ (tform t d = FT -> tdims t d = 1)) ->
    forall (g : gen) (k : nat) (f : form) (cs : list row),
      ok draw mask rperm rint ldims tfun trow tdims tform g k ->
      sized draw rperm rint g k ->
      sample draw mask rperm rint tvec tmulti g k = Some (f, cs) ->
      Forall (fun c : row => length c = csize g) cs.
Proof. exact size_of_columns. Qed.

(* ------------------------------------------------------------------------------------------
   The tie to the source: gen/Gen_C13.v is REGENERATED on every run from the combinator classes by a
   fail-closed syntax-directed translator (tools/props/t_C13.py); the following theorems say that the
   code as translated IS the corresponding part of the model, for all arguments.  ([out_of_pyv v] =
   a get_examples() value as (container, vectors); [splice h] = the children a constructed child h
   contributes to a MeshGenerator; [rows_n v] = the length of the first vector of v -- proofs/C13_gen.v.)
   Not translated: see the header of tools/props/t_C13.py. *)
Theorem C13_gen_concat_init : forall gs : list gen, concat_init gs = Some (gs, csize (Concat gs)).
Proof. exact gen_concat_init_eq. Qed.

Theorem C13_gen_ensemble_init :
  forall gs : list gen,
    ensemble_init gs =
    match gs with
    | [] => None
    | h :: _ => if forallb (fun x => Nat.eqb (csize x) (csize h)) gs then Some (gs, csize (Ensemble gs)) else None
    end.
Proof. exact gen_ensemble_init_eq. Qed.

Theorem C13_gen_ensemble_init_built :
  forall gs : list gen,
    forallb built gs = true -> (built (Ensemble gs) = true <-> exists r : list gen * nat, ensemble_init gs = Some r).
Proof. exact gen_ensemble_init_built. Qed.

Theorem C13_gen_mesh_init :
  forall gs : list gen,
    norm (Mesh gs) = Mesh (flat_map splice gs) /\
    mesh_init (map norm gs) = Some (flat_map splice gs, csize (Mesh (flat_map splice gs))).
Proof. exact gen_mesh_init_eq. Qed.

Theorem C13_gen_static :
  forall (child : pyv) (gsize : nat),
    static_init child gsize = Some (gsize, child) /\ static_get_examples child = Some (child, tt).
Proof. exact gen_static_eq. Qed.

Theorem C13_gen_filter :
  forall (draw : nat -> nat -> list row) (mask : nat -> nat -> list bool) (rperm rint : nat -> nat -> list nat)
         (tvec : nat -> row -> row) (tmulti : nat -> list row -> out) (g : gen) (m : nat) (s : option nat)
         (upd : bool) (k : nat) (v : pyv) (filter_fn : list row -> list bool) (size : nat),
    sample draw mask rperm rint tvec tmulti g k = Some (out_of_pyv v) ->
    mask m k = filter_fn (cols_of v) ->
    option_map (fun p : pyv * nat => out_of_pyv (fst p)) (filter_get_examples filter_fn v size upd) =
    sample draw mask rperm rint tvec tmulti (Filter g m s upd) k /\
    (forall (r : pyv) (sz' : nat),
        filter_get_examples filter_fn v size upd = Some (r, sz') ->
        sz' = (if upd then size_at draw mask rperm rint tvec tmulti (Filter g m s true) (S k) else size)).
Proof. exact gen_filter_eq. Qed.

Theorem C13_gen_resample :
  forall (draw : nat -> nat -> list row) (mask : nat -> nat -> list bool) (rperm rint : nat -> nat -> list nat)
         (tvec : nat -> row -> row) (tmulti : nat -> list row -> out) (g : gen) (r : nat) (sz : option nat)
         (repl : bool) (k : nat) (v : pyv) (randint : nat -> nat -> list nat) (randperm : nat -> list nat),
    sample draw mask rperm rint tvec tmulti g k = Some (out_of_pyv v) ->
    rint r k = randint (rows_n v) (rsize g sz) ->
    rperm r k = randperm (rows_n v) ->
    sample draw mask rperm rint tvec tmulti (Resample g r sz repl) k =
    (if (if repl
         then Nat.eqb (length (randint (rows_n v) (rsize g sz))) (rsize g sz) &&
              forallb (fun i : nat => Nat.ltb i (rows_n v)) (randint (rows_n v) (rsize g sz))
         else Nat.eqb (length (randperm (rows_n v))) (rows_n v))
     then option_map (fun p : pyv * unit => out_of_pyv (fst p))
                     (resample_get_examples randint randperm v (rsize g sz) repl)
     else None).
Proof. exact gen_resample_eq. Qed.

(* ---- the get_examples bodies (children sampled through the oracle [get]: what each child returns at this
   call; user callables are abstract functions; meshgrid / flatten / reshape are PySem primitives) *)
Theorem C13_gen_concat_get :
  forall (draw : nat -> nat -> list row) (mask : nat -> nat -> list bool) (rperm rint : nat -> nat -> list nat)
         (tvec : nat -> row -> row) (tmulti : nat -> list row -> out) (get : gen -> pyv) (k : nat) (gs : list gen),
    (forall h : gen, In h gs -> sample draw mask rperm rint tvec tmulti h k = Some (out_of_pyv (get h))) ->
    option_map (fun p : pyv * unit => out_of_pyv (fst p)) (concat_get_examples get gs) = sample draw mask rperm rint tvec tmulti (Concat gs) k.
Proof. exact gen_concat_get_eq. Qed.

Theorem C13_gen_ensemble_get :
  forall (draw : nat -> nat -> list row) (mask : nat -> nat -> list bool) (rperm rint : nat -> nat -> list nat)
         (tvec : nat -> row -> row) (tmulti : nat -> list row -> out) (get : gen -> pyv) (k : nat) (gs : list gen),
    (forall h : gen, In h gs -> sample draw mask rperm rint tvec tmulti h k = Some (out_of_pyv (get h))) ->
    option_map (fun p : pyv * unit => out_of_pyv (fst p)) (ensemble_get_examples get gs) = sample draw mask rperm rint tvec tmulti (Ensemble gs) k.
Proof. exact gen_ensemble_get_eq. Qed.

Theorem C13_gen_mesh_get :
  forall (draw : nat -> nat -> list row) (mask : nat -> nat -> list bool) (rperm rint : nat -> nat -> list nat)
         (tvec : nat -> row -> row) (tmulti : nat -> list row -> out) (get : gen -> pyv) (k : nat) (gs : list gen),
    (forall h : gen, In h gs -> sample draw mask rperm rint tvec tmulti h k = Some (out_of_pyv (get h))) ->
    option_map (fun p : pyv * unit => out_of_pyv (fst p)) (mesh_get_examples get gs) = sample draw mask rperm rint tvec tmulti (Mesh gs) k.
Proof. exact gen_mesh_get_eq. Qed.

Theorem C13_gen_transform_callable :
  forall (draw : nat -> nat -> list row) (mask : nat -> nat -> list bool) (rperm rint : nat -> nat -> list nat)
         (tvec : nat -> row -> row) (tmulti : nat -> list row -> out) (k : nat) (g : gen) (t : nat) (v : pyv)
         (trans_fn : list row -> pyv) (trans_list : list (row -> row)),
    sample draw mask rperm rint tvec tmulti g k = Some (out_of_pyv v) ->
    (forall cs : list row, tmulti t cs = out_of_pyv (trans_fn cs)) ->
    option_map (fun p : pyv * unit => out_of_pyv (fst p)) (transform_get_examples trans_fn trans_list v true) =
    sample draw mask rperm rint tvec tmulti (TransformF g t) k.
Proof. exact gen_transform_callable_eq. Qed.

Theorem C13_gen_transform_list :
  forall (draw : nat -> nat -> list row) (mask : nat -> nat -> list bool) (rperm rint : nat -> nat -> list nat)
         (tvec : nat -> row -> row) (tmulti : nat -> list row -> out) (k : nat) (g : gen) (ts : list (option nat))
         (v : pyv) (trans_fn : list row -> pyv),
    sample draw mask rperm rint tvec tmulti g k = Some (out_of_pyv v) ->
    option_map (fun p : pyv * unit => out_of_pyv (fst p)) (transform_get_examples trans_fn (map (app_t tvec) ts) v false) =
    sample draw mask rperm rint tvec tmulti (TransformL g ts) k.
Proof. exact gen_transform_list_eq. Qed.

Theorem C13_gen_sampler_get :
  forall (draw : nat -> nat -> list row) (mask : nat -> nat -> list bool) (rperm rint : nat -> nat -> list nat)
         (tvec : nat -> row -> row) (tmulti : nat -> list row -> out) (k : nat) (g : gen) (v : pyv),
    built (norm g) = true ->
    sample draw mask rperm rint tvec tmulti (norm g) k = Some (out_of_pyv v) ->
    sampler_get_examples v = Some (PL (cols_of v), tt) /\
    run draw mask rperm rint tvec tmulti (Sampler g) k = Some (true, (FL, cols_of v)).
Proof. exact gen_sampler_get_eq. Qed.

(* the infix operators build exactly the combinator of their operands (and, taking no sampling oracle, call no
   method of the operands: construction draws nothing) *)
Theorem C13_gen_operators :
  forall a b : gen,
    base_add a b = Some (Concat [a; b], tt) /\
    base_mul a b = Some (Ensemble [a; b], tt) /\
    base_xor a b = Some (Mesh [a; b], tt).
Proof. exact gen_operators_eq. Qed.

(* the constructors with optional / defaulted arguments, translated from the source (tools/harness/gen_pyast.py accepts
   `size=None`-style parameters as [option nat]; the integer may only be used under an `is None` test): the size set by
   FilterGenerator.__init__ / ResampleGenerator.__init__ is the model's [csize] -- the given size if any, else the
   underlying generator's -- and the literal defaults in the signature are the ones the model's constructor forms assume *)
Theorem C13_gen_filter_init :
  forall (g : gen) (m : nat) (size : option nat) (upd : bool),
    filter_init (csize g) size upd = Some (csize (Filter g m size upd), upd).
Proof. exact gen_filter_init_eq. Qed.

Theorem C13_gen_resample_init :
  forall (g : gen) (r : nat) (size : option nat) (repl : bool),
    resample_init (csize g) size repl = Some (csize (Resample g r size repl), repl).
Proof. exact gen_resample_init_eq. Qed.

Theorem C13_gen_init_defaults :
  filter_init_default_size = @None nat /\ filter_init_default_update_size = true /\
  resample_init_default_size = @None nat /\ resample_init_default_replacement = false.
Proof. exact gen_init_defaults. Qed.

(* PredefinedGenerator: the constructor raises exactly when the model's [built] is false (no column: IndexError; columns
   of different lengths: ValueError); otherwise size = length of the first column and the stored value -- which
   get_examples returns unchanged on every call -- is the columns themselves (a single column as a bare tensor), whatever
   mixture of tensors and plain sequences the user passed ([isT] arbitrary) *)
Theorem C13_gen_predefined :
  forall (isT : list Z -> bool) (cs : list (list Z)),
    predefined_init isT cs =
    (if built (Predefined cs)
     then Some (csize (Predefined cs), match single_or FL cs with (FT, [t]) => PT t | (_, l) => PL l end)
     else None)
    /\ forall v, predefined_get_examples v = Some (v, tt).
Proof. exact gen_predefined_eq. Qed.

Example C13_gen_predefined_nonvacuous :
  predefined_init (fun _ => false) [[1; 2]; [3; 4]]%Z = Some (2, PL [[1; 2]; [3; 4]]%Z) /\
  predefined_init (fun _ => true) [[1; 2]; [3]]%Z = None /\
  filter_init 5 (Some 3) false = Some (3, false) /\ resample_init 5 None true = Some (5, true).
Proof. repeat split. Qed.

(* ... and that stored value is what the model's [sample] yields at EVERY call index k ("predefined returns the same
   points forever", now for the generated constructor + get_examples rather than for the hand model only) *)
Theorem C13_gen_predefined_sample :
  forall (isT : list Z -> bool) (cs : list (list Z)) (sz : nat) (v : pyv)
         (draw : nat -> nat -> list row) (mask : nat -> nat -> list bool)
         (rperm rint : nat -> nat -> list nat) (tvec : nat -> row -> row) (tmulti : nat -> list row -> out),
    predefined_init isT cs = Some (sz, v) ->
    built (Predefined cs) = true /\ sz = csize (Predefined cs) /\
    forall k, predefined_get_examples v = Some (v, tt) /\
              sample draw mask rperm rint tvec tmulti (Predefined cs) k = Some (out_of_pyv v).
Proof. exact gen_predefined_sample. Qed.
