(* P_C10 — property theorems for C10 (bundle conditions hold per sample for parameters routed
   by the lookup table).  Statements only.  `bundle_ivp` / `bundle_bvp` / `get_parameter` are the
   list-generic model of proofs/C10_bundle.v; `Gen_C10.index_ivp/index_bvp` (regenerated from
   conditions.py on every run) hold the code's term for every lookup of the quantifier. *)
From Coq Require Import Reals List String.
From ND.lib Require Import Expr.
From ND.gen Require Import Gen_C10.
From ND.proofs Require Import C10_bundle.
Import ListNotations.
Open Scope R_scope.

(* routing: a name in the table -> that column; otherwise the constructor attribute *)
Theorem C10_get_parameter_named : forall lk thetas name attr i e,
  assoc name lk = Some i -> nth_error thetas i = Some e -> get_parameter lk thetas name attr = PVal e.
Proof. exact get_parameter_named. Qed.

Theorem C10_get_parameter_default : forall lk thetas name e,
  assoc name lk = None -> get_parameter lk thetas name (Some e) = PVal e.
Proof. exact get_parameter_default. Qed.

Theorem C10_boundary_value_source : forall lk thetas name attr e,
  get_parameter lk thetas name (Some attr) = PVal e ->
  (exists i, assoc name lk = Some i /\ nth_error thetas i = Some e) \/ (assoc name lk = None /\ e = attr).
Proof. exact boundary_value_source. Qed.

(* per-row satisfaction, for EVERY lookup table, any number of columns, any raw output o *)
Theorem C10_bundle_ivp_value : forall venv penv fenv lk thetas a_t0 a_u0 a_u0p o tv e t0 u0,
  bundle_ivp lk thetas a_t0 a_u0 a_u0p o (EVar tv) = Some e ->
  get_parameter lk thetas "t_0" (Some a_t0) = PVal t0 ->
  get_parameter lk thetas "u_0" (Some a_u0) = PVal u0 ->
  venv tv = eval venv penv fenv t0 -> eval venv penv fenv e = eval venv penv fenv u0.
Proof. exact bundle_ivp_value. Qed.

Theorem C10_bundle_ivp_deriv : forall venv penv fenv lk thetas a_t0 a_u0 a_u0p o tv e t0 u0 u0p,
  bundle_ivp lk thetas a_t0 a_u0 a_u0p o (EVar tv) = Some e ->
  get_parameter lk thetas "t_0" (Some a_t0) = PVal t0 ->
  get_parameter lk thetas "u_0" (Some a_u0) = PVal u0 ->
  get_parameter lk thetas "u_0_prime" a_u0p = PVal u0p ->
  const_in tv t0 -> const_in tv u0 -> const_in tv u0p ->
  venv tv = eval venv penv fenv t0 -> eval venv penv fenv (D tv e) = eval venv penv fenv u0p.
Proof. exact bundle_ivp_deriv. Qed.

Theorem C10_bundle_bvp_left : forall venv penv fenv lk thetas a_t0 a_u0 a_t1 a_u1 o tv e t0 u0 t1,
  bundle_bvp lk thetas a_t0 a_u0 a_t1 a_u1 o (EVar tv) = Some e ->
  get_parameter lk thetas "t_0" (Some a_t0) = PVal t0 ->
  get_parameter lk thetas "u_0" (Some a_u0) = PVal u0 ->
  get_parameter lk thetas "t_1" (Some a_t1) = PVal t1 ->
  eval venv penv fenv t1 - eval venv penv fenv t0 <> 0 -> venv tv = eval venv penv fenv t0 ->
  eval venv penv fenv e = eval venv penv fenv u0.
Proof. exact bundle_bvp_left. Qed.

Theorem C10_bundle_bvp_right : forall venv penv fenv lk thetas a_t0 a_u0 a_t1 a_u1 o tv e t0 u1 t1,
  bundle_bvp lk thetas a_t0 a_u0 a_t1 a_u1 o (EVar tv) = Some e ->
  get_parameter lk thetas "t_0" (Some a_t0) = PVal t0 ->
  get_parameter lk thetas "u_1" (Some a_u1) = PVal u1 ->
  get_parameter lk thetas "t_1" (Some a_t1) = PVal t1 ->
  eval venv penv fenv t1 - eval venv penv fenv t0 <> 0 -> venv tv = eval venv penv fenv t1 ->
  eval venv penv fenv e = eval venv penv fenv u1.
Proof. exact bundle_bvp_right. Qed.

(* the code IS the model for every lookup of the quantifier (110 + 251 generated modes: every injective table over 4 columns and every table, injective or not, over 2 columns) *)
Theorem C10_generated_ivp_is_model : forall m ts, In (m, ts) index_ivp -> exists e, ivp_model m = Some e /\ ts = [e].
Proof. exact generated_ivp_is_model. Qed.

Theorem C10_generated_bvp_is_model : forall m ts, In (m, ts) index_bvp -> exists e, bvp_model m = Some e /\ ts = [e].
Proof. exact generated_bvp_is_model. Qed.

Theorem C10_index_sizes : List.length index_ivp = 110%nat /\ List.length index_bvp = 251%nat.
Proof. exact index_sizes. Qed.

Theorem C10_rejects : ivp_reject_name.raises = true /\ bvp_reject_name.raises = true.
Proof. exact c10_rejects. Qed.
