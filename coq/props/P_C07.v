(* P_C07 — property theorems for C07 (every accepted sampling method of the atomic generators
   yields usable in-domain differentiable points).  Only statements, each closed by
   `exact <lemma of proofs/C07_*.v>`.

   `Gen_C07.table`, `Gen_C07.det_terms` and the modules `Gen_C07.G*_<method>` are regenerated
   from /repo/neurodiffeq/generators.py on every run by tools/props/t_C07.py (abstract
   interpretation of every constructor branch and getter; fail-closed).  The vocabulary and the
   reference definitions (cart, mesh_flat, in_stratum, requirement_of) are in model/AtomicGen.v.

   History: findings F1 (Generator2D chebyshev2-noisy getter), F8 (spherical theta NaN for
   a, b ~ 0) and F12 (GeneratorND exp-spaced noisy, negative std) were repaired in /repo by the
   commits f030d60, 75057c3, 3e7655e; `table_total` and `sph_theta` are now proved at full
   strength on the regenerated model (no excluded entry, no hypothesis on the acos argument).
   The residual 0/0 at a = b = c = 0 was repaired by f2992d2 (denom = clamp(a+b+c, min=tiny)):
   the spherical angle theorems hold for EVERY draw; the guarded denominator is the leaf v_denom
   with the generated definition e_defs = [(v_denom, a+b+c, tiny)], i.e. the hypothesis
   venv v_denom = Rmax (a+b+c) tiny, and tiny > 0 (torch.finfo(dtype).tiny). *)
From Coq Require Import Reals List String Bool Arith Permutation.
From ND.lib Require Import Expr.
From ND.model Require Import AtomicGen.
From ND.gen Require Import Gen_C07.
From ND.proofs Require Import C07_table C07_nodes C07_grid C07_lhs C07_sph C07_std.
Import ListNotations.
Open Scope R_scope.

(* ---- every accepted method of every class has a callable getter that returns dim tensors,
   each of length size and requiring grad *)
Theorem C07_table_total : forall e, In e table ->
  e_getter e = GetLambda /\ List.length (e_tensors e) = dim (e_cls e)
  /\ forall t, In t (e_tensors e) -> t_len_ok t = true /\ t_rg t = true.
Proof. exact table_total. Qed.

(* ---- deterministic methods: no RNG call at all, stored tensors; noisy methods and 1-D
   uniform: an RNG draw inside get_examples() reaches every returned tensor; every accepted
   method string is classified by the property (meets e = false for an unknown string) *)
Theorem C07_static_vs_fresh : forall e, In e table -> meets e = true.
Proof. exact static_vs_fresh. Qed.

Theorem C07_static_methods : forall e, meets e = true ->
  requirement_of (e_cls e) (e_method e) (e_noisy e) = MustStatic ->
  e_call_rng e = [] /\ e_ctor_rng e = [] /\ forall t, In t (e_tensors e) -> t_fresh t = false /\ t_rand t = false.
Proof. exact meets_static. Qed.

Theorem C07_fresh_methods : forall e, meets e = true ->
  requirement_of (e_cls e) (e_method e) (e_noisy e) = MustFresh ->
  e_call_rng e <> [] /\ forall t, In t (e_tensors e) -> t_fresh t = true.
Proof. exact meets_fresh. Qed.

(* ---- non-noisy nodes lie in the closed domain and are defined (no NaN): for a < b, n nodes
   (n >= 2 when the formula uses n - 1, i.e. linspace / second-kind Chebyshev; n >= 1
   otherwise), index idx < n, draws in [0,1), positive bounds for log spacing *)
Theorem C07_nodes_in_domain : forall e t, In e table -> In t (e_tensors e) ->
  t_noise t = false -> t_wrap t = WNone -> e_cls e <> GSph ->
  forall venv penv fenv n idx, node_env venv penv n idx ->
  (e_pos_guard e = true -> 0 < penv p_a) -> size_ok (t_term t) n ->
  penv p_a <= eval venv penv fenv (t_term t) <= penv p_b.
Proof.
  exact (fun e t He Ht Hn Hw Hc venv penv fenv n idx Henv Hpos Hsz =>
           nodes_in_domain_det venv penv fenv n idx Henv (t_term t) (e_pos_guard e)
             (det_cover e t He Ht Hn Hw Hc) Hpos Hsz).
Qed.

Theorem C07_nodes_defined : forall e t, In e table -> In t (e_tensors e) ->
  t_noise t = false -> t_wrap t = WNone -> e_cls e <> GSph ->
  forall venv penv fenv n idx, node_env venv penv n idx ->
  (e_pos_guard e = true -> 0 < penv p_a) -> size_ok (t_term t) n ->
  defined venv penv fenv (t_term t).
Proof.
  exact (fun e t He Ht Hn Hw Hc venv penv fenv n idx Henv Hpos Hsz =>
           nodes_defined_det venv penv fenv n idx Henv (t_term t) (e_pos_guard e)
             (det_cover e t He Ht Hn Hw Hc) Hpos Hsz).
Qed.

(* ---- the same in the other orientation: an interval passed in descending order (a > b, accepted by the
   1-D/2-D/3-D/N-D constructors): the formulas lie in [b, a] and are defined.  The Latin-hypercube
   stratum theorem below is stated for a < b only; descending intervals are covered by the oracle. *)
Theorem C07_nodes_in_domain_desc : forall e t, In e table -> In t (e_tensors e) ->
  t_noise t = false -> t_wrap t = WNone -> e_cls e <> GSph ->
  forall venv penv fenv n idx, node_env_desc venv penv n idx ->
  (e_pos_guard e = true -> 0 < penv p_b) -> size_ok (t_term t) n ->
  penv p_b <= eval venv penv fenv (t_term t) <= penv p_a.
Proof.
  exact (fun e t He Ht Hn Hw Hc venv penv fenv n idx Henv Hpos Hsz =>
           nodes_in_domain_det_desc venv penv fenv n idx Henv (t_term t) (e_pos_guard e)
             (det_cover e t He Ht Hn Hw Hc) Hpos Hsz).
Qed.

Theorem C07_nodes_defined_desc : forall e t, In e table -> In t (e_tensors e) ->
  t_noise t = false -> t_wrap t = WNone -> e_cls e <> GSph ->
  forall venv penv fenv n idx, node_env_desc venv penv n idx ->
  (e_pos_guard e = true -> 0 < penv p_b) -> size_ok (t_term t) n ->
  defined venv penv fenv (t_term t).
Proof.
  exact (fun e t He Ht Hn Hw Hc venv penv fenv n idx Henv Hpos Hsz =>
           nodes_defined_det_desc venv penv fenv n idx Henv (t_term t) (e_pos_guard e)
             (det_cover e t He Ht Hn Hw Hc) Hpos Hsz).
Qed.

(* ---- noisy methods: every tensor with normal noise is  mean + S * z  with exactly one std factor S,
   and S >= 0 for ALL real bounds (either orientation), sizes, indices and draws: torch.normal never
   sees a negative std (default std |(max - min)/n|/4 since 0dd583c; exp-spaced |noise_rstd * node|) *)
Theorem C07_noisy_std_nonneg : forall e t, In e table -> In t (e_tensors e) -> t_noise t = true ->
  exists s, z_coeffs (t_term t) = [s] /\ forall venv penv fenv, 0 <= eval venv penv fenv s.
Proof. exact noisy_std_nonneg. Qed.

(* ---- grid methods: 2-D / 3-D / N-D classes use meshgrid(indexing='ij') + flatten with the
   arguments in axis order, and that is the row-major tensor product of the 1-D node lists *)
Theorem C07_grid_table : forall e, In e table -> grid_ok e = true.
Proof. exact grid_table. Qed.

Theorem C07_grid_is_product : forall (axes : list (list R)) (k : nat), (k < List.length axes)%nat ->
  mesh_flat axes k = map (fun row => nth k row 0) (cart axes).
Proof. exact grid_is_product. Qed.

Theorem C07_grid_length : forall (axes : list (list R)) (k : nat), (k < List.length axes)%nat ->
  List.length (mesh_flat axes k) = prod_len axes.
Proof. exact mesh_flat_length. Qed.

Theorem C07_grid2_is_list_prod : forall X Y : list R,
  combine (mesh_flat [X; Y] 0) (mesh_flat [X; Y] 1) = list_prod X Y.
Proof. exact grid2_is_list_prod. Qed.

(* ---- Latin hypercube: every permuted tensor of the table has the formula lhs_term; for every
   u in [0,1)^n and every permutation there is exactly one output point in each stratum *)
Theorem C07_lhs_terms : forall e t, In e table -> In t (e_tensors e) -> t_perm t = true -> t_term t = lhs_term.
Proof. exact lhs_terms. Qed.

Theorem C07_lhs_entries_permuted : forall e t, In e table -> e_method e = "latin-hypercube"%string ->
  In t (e_tensors e) -> t_perm t = true.
Proof. exact lhs_entries_permuted. Qed.

Theorem C07_lhs_one_per_stratum : forall (penv : nat -> R) (fenv : nat -> list nat -> list R -> R) (n : nat)
    (u : nat -> R) (perm : list nat),
  penv p_a < penv p_b -> penv p_n = INR n -> penv p_pi = PI -> (forall j, 0 <= u j < 1) -> Permutation perm (seq 0 n) ->
  forall j, (j < n)%nat ->
  exists k, (k < n)%nat /\ in_stratum (penv p_a) (penv p_b) n j (nth k (lhs_out penv fenv u perm) 0)
            /\ forall k', (k' < n)%nat -> in_stratum (penv p_a) (penv p_b) n j (nth k' (lhs_out penv fenv u perm) 0) -> k' = k.
Proof. exact lhs_one_per_stratum. Qed.

Theorem C07_lhs_in_domain : forall (penv : nat -> R) (fenv : nat -> list nat -> list R -> R) (n : nat)
    (u : nat -> R) (perm : list nat),
  penv p_a < penv p_b -> penv p_n = INR n -> penv p_pi = PI -> (forall j, 0 <= u j < 1) -> Permutation perm (seq 0 n) ->
  forall k, (k < n)%nat -> penv p_a <= nth k (lhs_out penv fenv u perm) 0 < penv p_b.
Proof. exact lhs_out_in_domain. Qed.

(* ---- spherical *)
Theorem C07_sph_structure :
  map t_wrap (e_tensors S2.entry) = [WNone; WAcosClamp (ECst (-1)) (ECst 1); WPhi S2.aux_2_0 S2.aux_2_1]
  /\ map t_wrap (e_tensors S1.entry) = [WNone; WAcosClamp (ECst (-1)) (ECst 1); WPhi S1.aux_2_0 S1.aux_2_1]
  /\ S1.term_1 = S2.term_1 /\ S1.term_2 = S2.term_2 /\ S1.aux_2_0 = S2.aux_2_0 /\ S1.aux_2_1 = S2.aux_2_1.
Proof. exact sph_structure. Qed.

Theorem C07_sph_r_range_spaced : forall venv penv fenv,
  0 <= penv p_a -> penv p_a <= penv p_b -> 0 <= venv v_u0 < 1 ->
  defined venv penv fenv S2.term_0 /\ penv p_a <= eval venv penv fenv S2.term_0 <= penv p_b.
Proof. exact sph_r_range_spaced. Qed.

Theorem C07_sph_r_range_radius : forall venv penv fenv,
  penv p_a <= penv p_b -> 0 <= venv v_u0 < 1 ->
  defined venv penv fenv S1.term_0 /\ penv p_a <= eval venv penv fenv S1.term_0 <= penv p_b.
Proof. exact sph_r_range_radius. Qed.

Theorem C07_sph_denom_def :
  e_defs S2.entry = [(v_denom, S2.def_0_arg, S2.def_0_lo)] /\ e_defs S1.entry = [(v_denom, S1.def_0_arg, S1.def_0_lo)]
  /\ S2.def_0_lo = EPar p_tiny /\ S1.def_0_arg = S2.def_0_arg /\ S1.def_0_lo = S2.def_0_lo.
Proof. exact denom_def. Qed.

(* theta = acos(clamp(z, -1, 1)) is defined and in [0, pi] for EVERY draw a, b, c in [0,1) and
   either sign (full strength: no hypothesis on a + b + c or on the size of z) *)
Theorem C07_sph_theta : forall venv penv fenv,
  0 <= venv v_u0 < 1 -> 0 <= venv v_u1 < 1 -> 0 <= venv v_u2 < 1 ->
  venv v_s0 = 0 \/ venv v_s0 = 1 -> 0 < penv p_tiny ->
  venv v_denom = Rmax (eval venv penv fenv S2.def_0_arg) (eval venv penv fenv S2.def_0_lo) ->
  defined venv penv fenv S2.term_1
  /\ -1 <= clamp (eval venv penv fenv S2.term_1) (-1) 1 <= 1
  /\ 0 <= acos (clamp (eval venv penv fenv S2.term_1) (-1) 1) <= PI.
Proof. exact (fun venv penv fenv _ _ H2 _ Ht Hd => sph_theta venv penv fenv H2 Ht Hd). Qed.

(* the guard is the identity unless all three draws vanish, and in the generic case the clamp of
   z is the identity too: theta = acos z *)
Theorem C07_sph_denom_generic : forall venv penv fenv,
  venv v_denom = Rmax (eval venv penv fenv S2.def_0_arg) (eval venv penv fenv S2.def_0_lo) ->
  penv p_tiny <= venv v_u0 + venv v_u1 + venv v_u2 -> venv v_denom = venv v_u0 + venv v_u1 + venv v_u2.
Proof. exact denom_generic. Qed.

Theorem C07_sph_theta_unclamped : forall venv penv fenv,
  0 <= venv v_u2 < 1 -> venv v_s0 = 0 \/ venv v_s0 = 1 -> 0 < penv p_tiny ->
  venv v_denom = Rmax (eval venv penv fenv S2.def_0_arg) (eval venv penv fenv S2.def_0_lo) ->
  sqrt (venv v_u2 / venv v_denom) + 1 / 1000000 <= 1 ->
  clamp (eval venv penv fenv S2.term_1) (-1) 1 = eval venv penv fenv S2.term_1.
Proof. exact sph_theta_unclamped. Qed.

Theorem C07_sph_atan2_args : forall venv penv fenv,
  0 <= venv v_u0 < 1 -> 0 <= venv v_u1 < 1 -> venv v_s0 = 0 \/ venv v_s0 = 1 -> 0 < penv p_tiny ->
  venv v_denom = Rmax (eval venv penv fenv S2.def_0_arg) (eval venv penv fenv S2.def_0_lo) ->
  venv v_s1 = 0 \/ venv v_s1 = 1 ->
  defined venv penv fenv S2.aux_2_0 /\ defined venv penv fenv S2.aux_2_1
  /\ eval venv penv fenv S2.aux_2_0 <> 0 /\ eval venv penv fenv S2.aux_2_1 <> 0.
Proof. exact sph_atan2_args. Qed.

Theorem C07_sph_phi_range : forall venv penv fenv (atan2 : R -> R -> R),
  (forall y x, - PI < atan2 y x <= PI) ->
  venv v_atan = atan2 (eval venv penv fenv S2.aux_2_0) (eval venv penv fenv S2.aux_2_1) ->
  penv p_pi = PI ->
  0 <= eval venv penv fenv S2.term_2 < 2 * PI.
Proof. exact sph_phi_range. Qed.
