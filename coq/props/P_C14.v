(* C14 -- BatchGenerator streams samples without loss, duplication or reordering.
   Model: model/Batch.v (row model [run], column model [crun] = the code's per-dimension
   slicing).  [draw k] is the k-th get_examples() result of the underlying generator (an
   oracle stream: any sizes, fixed or varying); [None] = loop fuel exhausted, excluded. *)
From Coq Require Import List Arith ZArith Lia.
Import ListNotations.
From ND.model Require Import PySem Batch.
From ND.gen Require Import Gen_C14.
From ND.proofs Require Import C14_batch C14_gen.

(* any number of calls k, any batch size, any stream of draws: the delivered batches
   concatenated, followed by the cache, are exactly the draws taken (prefix property) *)
Theorem C14_batch_inv :
  forall (row : Type) (draw : nat -> list row) (fuel size k : nat) (bs : list (list row)) (s' : st row),
    run row draw fuel size k (init row draw) = Some (bs, s') ->
    concat bs ++ cached s' = draws row draw (taken s').
Proof. exact batch_inv. Qed.

(* every batch has exactly [size] rows, whether size is smaller or larger than the draws *)
Theorem C14_batch_size_exact :
  forall (row : Type) (draw : nat -> list row) (fuel size k : nat) (bs : list (list row)) (s' : st row),
    run row draw fuel size k (init row draw) = Some (bs, s') ->
    Forall (fun b => length b = size) bs.
Proof. exact batch_size_exact. Qed.

(* termination: with non-empty draws the loop needs at most [size] refills per call, so the
   out-of-fuel case never occurs with fuel = size, from any state, for any number of calls *)
Theorem C14_batch_terminates :
  forall (row : Type) (draw : nat -> list row),
    (forall n, 1 <= length (draw n)) ->
    forall (size k : nat) (s : st row), exists bs s', run row draw size size k s = Some (bs, s').
Proof. exact batch_terminates. Qed.

(* the exclusion is necessary: an always-empty source never fills a batch (the real loop spins) *)
Theorem C14_empty_source_diverges :
  forall (row : Type) (draw : nat -> list row),
    (forall n, draw n = []) ->
    forall (size fuel : nat), 1 <= size -> get row draw fuel size (init row draw) = None.
Proof. exact empty_source_diverges. Qed.

(* the code slices every dimension identically: run on the transposed draws, the column
   model returns the transposition of what the row model returns (rows stay intact) *)
Theorem C14_columns_are_rows :
  forall (row A : Type) (d : nat) (proj : nat -> row -> A), 1 <= d ->
  forall (draw : nat -> list row) (fuel size k : nat),
    crun A (cdraw_of row A d proj draw) fuel size k (cinit A (cdraw_of row A d proj draw)) =
    option_map (fun p => (map (cols d proj) (fst p), cs_of d proj (snd p)))
               (run row draw fuel size k (init row draw)).
Proof. exact columns_are_rows. Qed.

(* code-level statement: for ANY stream of well-formed per-dimension draws (d >= 1 vectors of
   one common length per draw), the per-dimension batches are the columns of row batches
   which, concatenated and followed by the cached rows, are exactly the rows drawn, and each
   has exactly [size] rows *)
Theorem C14_columns_stream :
  forall (d : nat), 1 <= d ->
  forall (cdraw : nat -> list (list Z)), (forall n, wf_cols d (cdraw n)) ->
  forall (fuel size k : nat) (cbs : list (list (list Z))) (cs' : cst Z),
    crun Z cdraw fuel size k (cinit Z cdraw) = Some (cbs, cs') ->
    exists (bs : list (list (list Z))) (s' : st (list Z)),
      cbs = map (cols d (zproj Z 0%Z)) bs /\
      ccached cs' = cols d (zproj Z 0%Z) (cached s') /\ ctaken cs' = taken s' /\
      concat bs ++ cached s' = draws _ (rdraw d cdraw) (taken s') /\
      Forall (fun b => length b = size) bs.
Proof. exact columns_stream. Qed.

(* ------------------------------------------------------------------------------------------
   The tie to the source: gen/Gen_C14.v is REGENERATED on every run from
   BatchGenerator.__init__ / get_examples by a fail-closed syntax-directed translator
   (tools/props/t_C14.py); the following theorems say that the code as translated IS the column
   model, for all states, draws and fuel.  ([cdraw_of_py draw k] = the vectors of the k-th
   draw; [st_of] = a model state as the generated functions hold it; [ret_of b] = the tensor
   itself for one dimension, the list otherwise; [grun] = k successive calls of the generated
   get_examples -- proofs/C14_gen.v.) *)
Theorem C14_gen_init_eq :
  forall (draw : nat -> pyv) (gsize batch_size : nat),
    batch_init draw gsize batch_size 0 =
    if Nat.leb gsize 0 then None
    else Some (batch_size, fst (st_of (cinit Z (cdraw_of_py draw))), snd (st_of (cinit Z (cdraw_of_py draw)))).
Proof. exact gen_init_eq. Qed.

Theorem C14_gen_loop_eq :
  forall (draw : nat -> pyv) (size fuel : nat) (cs : list (list Z)) (t : nat),
    batch_get_examples_loop draw size fuel (PL cs) t =
    option_map st_of (crefill Z (cdraw_of_py draw) fuel size {| ccached := cs; ctaken := t |}).
Proof. exact gen_loop_eq. Qed.

Theorem C14_gen_get_eq :
  forall (draw : nat -> pyv) (size fuel : nat) (cs : list (list Z)) (t : nat),
    batch_get_examples fuel draw size (PL cs) t =
    option_map (fun p => (ret_of (fst p), (size, fst (st_of (snd p)), snd (st_of (snd p)))))
               (cget Z (cdraw_of_py draw) fuel size {| ccached := cs; ctaken := t |}).
Proof. exact gen_get_eq. Qed.

Theorem C14_gen_run_eq :
  forall (draw : nat -> pyv) (size fuel k : nat) (cs : list (list Z)) (t : nat),
    grun fuel draw size k (PL cs) t =
    option_map (fun p => (map ret_of (fst p), st_of (snd p)))
               (crun Z (cdraw_of_py draw) fuel size k {| ccached := cs; ctaken := t |}).
Proof. exact gen_run_eq. Qed.

(* transfer of the streaming theorem to the translated code: constructed on any stream of well-formed
   draws and called k times, it returns values whose vectors are the columns of row batches that,
   concatenated and followed by the cached rows, are exactly the rows drawn; each batch has `size`
   rows; a single tensor is returned iff there is one dimension *)
Theorem C14_gen_stream :
  forall (d : nat) (draw : nat -> pyv) (gsize size fuel k : nat),
    1 <= d -> 1 <= gsize -> (forall n, wf_cols d (cols_of (draw n))) ->
    forall (sz : nat) (c0 : pyv) (t0 : nat) (vs : list pyv) (c' : pyv) (t' : nat),
      batch_init draw gsize size 0 = Some (sz, c0, t0) ->
      grun fuel draw sz k c0 t0 = Some (vs, (c', t')) ->
      sz = size /\
      exists (bs : list (list (list Z))) (s' : st (list Z)),
        map cols_of vs = map (cols d (zproj Z 0%Z)) bs /\
        cols_of c' = cols d (zproj Z 0%Z) (cached s') /\ t' = taken s' /\
        concat bs ++ cached s' = draws _ (rdraw d (cdraw_of_py draw)) (taken s') /\
        Forall (fun b => length b = size) bs /\
        Forall (fun v => is_tensor v = Nat.eqb d 1) vs.
Proof. exact gen_stream. Qed.
