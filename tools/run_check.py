#!/venv/bin/python
"""Runs tools/props/<ID>.py main().  An unexpected exception in the machinery itself is reported as a
machinery error (exit 2, no VIOLATION line).  An exception that was raised INSIDE the implementation under
test (a frame under <repo>/neurodiffeq) while the harness was driving it with inputs the property admits is
a concrete failing execution: it is reported as a VIOLATION with the traceback as the replay."""
import importlib.util
import json
import os
import sys
import traceback

here = os.path.dirname(os.path.abspath(__file__))
sys.path.insert(0, here)
pid = sys.argv[1]
sys.argv = [os.path.join(here, 'props', f'{pid}.py')] + sys.argv[2:]
spec = importlib.util.spec_from_file_location(f'check_{pid}', sys.argv[0])
mod = importlib.util.module_from_spec(spec)
try:
    spec.loader.exec_module(mod)
    mod.main()
except SystemExit:
    raise
except BaseException as e:
    tb = traceback.extract_tb(e.__traceback__)
    traceback.print_exc()
    import common
    impl_root = os.path.realpath(os.path.join(common.REPO, 'neurodiffeq'))
    impl_frames = [f for f in tb if os.path.realpath(f.filename).startswith(impl_root)]
    if impl_frames:
        last = impl_frames[-1]
        path = common.write_replay(pid, {
            'property': pid, 'kind': 'implementation-exception',
            'what': f'{type(e).__name__}: {e} raised at {os.path.relpath(last.filename, common.REPO)}:{last.lineno} ({last.name}) '
                    f'while the harness was driving the implementation',
            'traceback': traceback.format_exception(type(e), e, e.__traceback__)[-12:],
            'seed': os.environ.get('VERIF_SEED', '0'), 'tier': os.environ.get('VERIF_TIER', 'quick')})
        print(f'VIOLATION property={pid} replay={path}')
        sys.exit(1)
    print(f'MACHINERY-ERROR property={pid}: uncaught exception in the check script (see traceback)')
    sys.exit(2)
