#!/venv/bin/python
"""Runs tools/props/<ID>.py main() so that an unexpected exception in the machinery is reported
as a machinery error (exit 2, no VIOLATION line) instead of an ambiguous exit code 1."""
import importlib.util
import os
import sys
import traceback

here = os.path.dirname(os.path.abspath(__file__))
sys.path.insert(0, here)
pid = sys.argv[1]
sys.argv = [os.path.join(here, 'props', f'{pid}.py')] + sys.argv[2:]
spec = importlib.util.spec_from_file_location(f'check_{pid}', sys.argv[0])
mod = importlib.util.module_from_spec(spec)
try:
    spec.loader.exec_module(mod)
    mod.main()
except SystemExit:
    raise
except BaseException:
    traceback.print_exc()
    print(f'MACHINERY-ERROR property={pid}: uncaught exception in the check script (see traceback)')
    sys.exit(2)
