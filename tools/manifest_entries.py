"""Source of truth for MANIFEST.json (`python tools/mk_manifest.py` rewrites it)."""

ENGINE_A = 'A-generated-real-analysis'
ENGINE_B = 'B-executable-model-correspondence'
TECH_A = 'machine-checked proof (Coq): theorems about a model regenerated from source by a translator'
TECH_B = 'machine-checked proof (Coq): invariants of a hand-written executable model tied to the code by a correspondence check'
NOTE_A = ('trusted: Coq kernel, Reals/Coquelicot axioms (listed in evidence), pyfront translator (validated each run: float64 vs the '
          'real code + in-kernel interval goals); modelled not verified: IEEE rounding, torch.autograd (= symbolic D), broadcasting')

CHECKS = {
    'C01': dict(engine=ENGINE_A, technique=TECH_A, note=NOTE_A, ref='DESIGN.md section 7 C01',
                text='Coq theorems over R for every network (function symbol with arbitrary jets), every real parameter in either '
                     'orientation and every point: IVP value/derivative, two-point Dirichlet BVP, all four double-ended '
                     'Dirichlet/Neumann combinations, multi-network and output-unit mode, affine interior with non-vanishing '
                     'coefficient; stated about terms regenerated from conditions.py on every run'),
    'C08': dict(engine=ENGINE_A, technique=TECH_A, note=NOTE_A, ref='DESIGN.md section 7 C08',
                text='list-generic Coq models of grad/div/laplacian with specification theorems for every number of dimensions, '
                     'proved equal to the terms regenerated from operators.py at dimensions 1..4; curl/vector laplacian and '
                     'compositions (div curl = 0, curl grad = 0, div grad = laplacian, curl curl = grad div - vector laplacian) '
                     'as identities in arbitrary jets; zeros for independent components'),
    'C09': dict(engine=ENGINE_A, technique=TECH_A, note=NOTE_A + '; torch.atan2 enters the conversion theorems only through its contract (hypotheses)', ref='DESIGN.md section 7 C09',
                text='for arbitrary jets of arbitrary fields and every point off the coordinate singularities, each of the 10 spherical/'
                     'cylindrical operators regenerated from operators.py equals the local-frame components of the Cartesian object '
                     '(specification via the inverse Jacobian, itself proved inverse to the derivative of the generated coordinate map); '
                     'the 4 conversion helpers are mutual inverses modulo 2 pi with the documented ranges'),
    'C11': dict(engine=ENGINE_A, technique=TECH_A, note=NOTE_A + '; coefficient-space variants proved per column (element-wise broadcasting modelled, checked per column by the harness)', ref='DESIGN.md section 7 C11',
                text='for every network and angular data: shell conditions reproduce f at r_0 and g at r_1 (either orientation), one-sided '
                     'and infinite variants reproduce f at r_0, and the infinite variants converge to g as r -> infinity (Coquelicot is_lim) '
                     'for every order k > 0 and bounded network; the same per column for the coefficient-space variants; terms regenerated '
                     'from conditions.py'),
    'C10': dict(engine=ENGINE_A, technique=TECH_A, note=NOTE_A + '; per-row parameter columns modelled as leaves (broadcasting modelled)', ref='DESIGN.md section 7 C10',
                text='list-generic Coq model of _get_parameter and both bundle parameterize bodies with theorems for every lookup table '
                     '(any names, indices, number of columns): the row satisfies value/derivative/two-point constraints with its own '
                     'parameters; the model is proved equal (expr_eqb inside the kernel) to the term regenerated from conditions.py for '
                     'each of the 94 + 209 lookup tables of the quantifier'),
    'C12': dict(engine=ENGINE_A, technique=TECH_A, note=NOTE_A + '; torch.cat / column slicing modelled (checked by the harness)', ref='DESIGN.md section 7 C12',
                text='list-generic Coq model of EnsembleCondition.parameterize with theorems for every list of sub-conditions (column i = '
                     'sub-condition i on output i alone, width, mismatch rejected, guarantees inherited), proved equal to the terms '
                     'regenerated from conditions.py for 1..4 opaque sub-conditions x 1..4 inputs; concrete class tuples column by column; '
                     'NoCondition identity; output-unit selection; the constructor refuses exactly the classes overriding enforce '
                     '(class table regenerated from the source)'),
    'C02': dict(engine=ENGINE_A, technique=TECH_A, note=NOTE_A + '; irregular domain: R-level spline model tied to the regenerated 4/5-point terms, numpy equation_weights tied by the spied linear systems only, np.linalg.solve a hypothesis', ref='DESIGN.md section 7 C02',
                text='for every network and boundary data derived from an arbitrary field G: the rectangle condition equals G at every point '
                     'of all four edges (either orientation); IBVP1D reproduces the initial profile for all x and the value or x-derivative '
                     'at both ends for all t in the four DD/DN/ND/NN modes; thin-plate-spline model for any number of control points: the '
                     'enforced function equals the prescribed value at every control point whenever the coefficients solve the fitted rows'),
    'C03': dict(engine=ENGINE_A, technique=TECH_A, note=NOTE_A + '; autograd.grad returning None exactly for syntactically independent operands is modelled (values agree either way) and validated on random programs', ref='DESIGN.md section 7 C03',
                text='loop model of unsafe_diff proved equal to the k-fold symbolic derivative for every order and operand, and to Coquelicot\'s '
                     'Derive_n of the row function for smooth operands with coherent jets; zero for independent operands and above the '
                     'polynomial degree; mixed partials commute; ones-trick (per-sample) for every batch size; the shape guard translated '
                     'from safe_diff accepts exactly equal (n,1) pairs; model tied in the kernel to terms regenerated from neurodiffeq.py'),
    'C19': dict(engine=ENGINE_B, technique='machine-checked proof (Coq): generated terms + validated executable model', ref='DESIGN.md section 7 C19',
                note='architecture and forward are a hand model (coq/model/Networks.v) tied to the real modules by per-run correspondence inside Coq plus pyfront\'s reading of the constructors; activation and monomial terms are generated; nn.Linear/Sequential acting row by row is a hypothesis (checked numerically); IEEE rounding modelled, not verified',
                text='Coq theorems for all n_in, n_out, hidden lists, batch sizes, reals and parameters: layer-list spec, legacy-argument equivalence, Resnet skip, row-wise forward (FCNN/Resnet/MonomialNN), monomial entries, sin/swish/APTx formulas on terms regenerated from networks.py, trainable flags'),
    'C07': dict(engine=ENGINE_A, technique='machine-checked proof (Coq): model regenerated from source by an abstract interpreter + implementation oracle', ref='DESIGN.md section 7 C07',
                note='extractor = subclass of pyfront Interp in t_C07.py, trusted but validated each run (spied and scripted RNG, interval goals); GeneratorND tabulated at N=2; linspace/logspace/meshgrid/rand/randperm/atan2/acos semantics modelled; see known_findings.d/C07.json for recorded defects',
                text='Coq theorems about the method table and per-index formulas regenerated from generators.py: table totality, static/fresh classification, in-domain and definedness of all noise-free node formulas, meshgrid(ij)+flatten = row-major tensor product for any number of axes, one LHS point per stratum for every u and permutation, spherical r/phi ranges, theta under the acos-argument hypothesis'),
    'C17': dict(engine=ENGINE_A, technique=TECH_A, ref='DESIGN.md section 7 C17',
                note=NOTE_A + '; orthogonality: antiderivative certificates proposed by sympy (untrusted) are re-checked in the kernel; scipy Legendre coefficients modelled by exact rationals (compared each run); basis-Laplacian theorems at the generated sizes (harmonics 0..4 = all supported, zonal 0/2/4, Fourier 0/1/3)',
                text='the 25 real spherical harmonics regenerated from function_basis.py are mutually orthogonal on the sphere (iterated RInt = 0 for all 300 pairs, certificates re-checked in the kernel) with <Y,Y> within 1e-8 of pi, and are eigenfunctions of the angular Laplacian with eigenvalue '
                     '-l(l+1) for all angles; documented column order for max_degree 0..4; HarmonicsLaplacian equals operators.spherical_laplacian '
                     'of sum_k R_k(r) Y_k for arbitrary coefficient functions (linearity + 25 per-harmonic identities); Legendre 0..12 satisfy '
                     'Legendre\'s equation with P(1)=1; zonal harmonics = sqrt((2l+1)/(4 pi)) P_l(cos theta) for any degree list up to 12; '
                     'Fourier column order; zonal and Fourier Laplacians exact'),
    'C16': dict(engine=ENGINE_B, technique='machine-checked proof (Coq) about a hand-written executable model + in-kernel correspondence with the implementation under real fit()', ref='DESIGN.md section 7 C16',
                note='trusted: Coq kernel, Reals axioms + Flocq for the Eve theorems (listed in evidence; the other theorems are axiom-free), hand-written model tied to the real classes on every run by vm_compute cases under real fit() sequences plus an independent documented-predicate oracle; modelled not verified: float64 log/div/+EPS in EveCallback, IEEE comparisons of integer-valued scripted metrics, optimiser step rule; one open finding (custom metric history key), see known_findings.d/C16.json',
                text='Coq theorems on an executable model of callbacks.py / BaseMonitor.to_callback / the fit loop: period, interval, first/last predicates for all epochs and parameters; And/Or/Not/Xor equal Boolean and/or/not/odd-parity for every list length and nesting depth (structural induction); stop ends fit after the firing epoch; set-once/reset; SetOptimizer parameter list holds every distinct parameter exactly once (also for shared nets); repeated-metric callbacks fire iff the latest n history pairs (entries for Below/Above) satisfy the relation, for every history, attachment time and expression tree; EveCallback n = min(n_0*2^k, n_max) over R with int() as truncation away from doubling boundaries'),
    'C20': dict(engine=ENGINE_A, technique='machine-checked proof (Coq): theorems about models regenerated from source by translators + correspondence-validated hand model', ref='DESIGN.md section 7 C20',
                note='loops and history are a hand model (coq/model/Legacy.v) validated each run against the real _solve_* with a spying approximator; trusted: Coq kernel, Reals/Coquelicot axioms, pyfront + the sampler translator in t_C20.py (validated each run: float64, interval goals, generated steps evaluated in Coq over Q against the real generators under a scripted torch.rand); modelled not verified: IEEE rounding, autograd, linspace/cartesian_prod/squeeze/slicing, rand in [0,1), randperm; see known_findings.d/C20.json',
                text='Coq theorems: legacy approximators equal u0 (and du/dt = u0dot, also as is_derive) at t=0 for every network, about terms regenerated from temporal.py; every draw (induction on the draw index, every oracle in [0,1)) of the 1-D, temporal, rectangle and segment samplers lies in its stratum/cell, about step functions regenerated from the generator source (loop-carried variables detected by liveness); mini-batches partition any permutation for batch_size>=1 incl. non-divisible sizes and the loop terminates; one history entry per epoch per series'),
    'C18': dict(engine=ENGINE_B, technique='machine-checked proof (Coq): invariants of an executable model parameterised by source-extracted facts + in-Coq correspondence with the implementation', ref='DESIGN.md section 7 C18',
                note='hand model (coq/model/Persist.v) with facts re-extracted from solvers_utils.py each run, validated against real Solver1D/Solver2D/BundleSolver1D scenarios in two streams (dill as installed, where every save raises PicklingError, and a dill.dump(byref=True) shim); trusted: Coq kernel (theorems closed under the global context), the t_C18.py extractor, the state abstraction of persist_h.py; modelled not verified: pickling fidelity, deepcopy, optimiser update rules, inspect.getsourcelines; see known_findings.d/C18.json',
                text='Coq theorems about an executable model of save/load/get_conditions parameterised by facts re-extracted from the source on every run: save leaves the solver unchanged whether or not serialisation succeeds; load(save s) has the same kind, nets, best nets, loss histories, global epoch and optimiser and equal solutions; any number of save/load/fit cycles (induction over the op list) never lose or alter history; best tracking after load'),
    'C14': dict(engine=ENGINE_B, technique=TECH_B, ref='DESIGN.md section 7 C14',
                note='trusted: Coq kernel, hand-written model coq/model/Batch.v tied to BatchGenerator per run by in-kernel vm_compute cases (batches per dimension + draws taken) and by the implementation-level prefix/size oracle over a spying source; modelled not verified: torch.cat, slicing, len',
                text='Coq theorems (axiom-free) for any number of calls, any batch size and any stream of underlying draws (fixed or varying sizes): delivered batches concatenated ++ cache = draws taken (prefix), every batch has exactly `size` rows, termination for non-empty draws (always-empty source shown to diverge), and the code\'s per-dimension slicing is the transposition of the row model (rows intact)'),
    'C13': dict(engine=ENGINE_B, technique=TECH_B, ref='DESIGN.md section 7 C13',
                note='trusted: Coq kernel, hand-written model coq/model/GenComb.v tied to generators.py per run by in-kernel vm_compute cases (values, container, .size, raises) and an independent reference interpreter on the real classes; assumes fresh objects (tree, no sharing), pointwise user maps; three defects found by this check were fixed in /repo (184d471, e57b511, 4431876), no open finding',
                text='Coq theorems (axiom-free) for combinator trees of any depth and any call index: the columns the code returns are the transposition of a row-level specification (concat=append per dimension, ensemble=juxtapose with constructor refusing unequal sizes, mesh=row-major Cartesian product with product length/every combination/nested flattening, transforms incl. the default identity for any dimension count, filter + size update, resample = rows of the one draw just taken at indices that are in range for every possible RNG answer and distinct without replacement, static/predefined constant, sampler (n,1) shape); row coherence for the whole tree by structural induction; size arithmetic for static-size trees'),
}
