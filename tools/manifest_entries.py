"""Source of truth for MANIFEST.json (`python tools/mk_manifest.py` rewrites it)."""

ENGINE_A = 'A-generated-real-analysis'
ENGINE_B = 'B-executable-model-correspondence'
TECH_A = 'machine-checked proof (Coq): theorems about a model regenerated from source by a translator'
TECH_B = 'machine-checked proof (Coq): invariants of a hand-written executable model tied to the code by a correspondence check'
NOTE_A = ('trusted: Coq kernel, Reals/Coquelicot axioms (listed in evidence), pyfront translator (validated each run: float64 vs the '
          'real code + in-kernel interval goals); modelled not verified: IEEE rounding, torch.autograd (= symbolic D), broadcasting')

CHECKS = {
    'C01': dict(engine=ENGINE_A, technique=TECH_A, note=NOTE_A, ref='DESIGN.md section 7 C01',
                text='Coq theorems over R for every network (function symbol with arbitrary jets), every real parameter in either '
                     'orientation and every point: IVP value/derivative, two-point Dirichlet BVP, all four double-ended '
                     'Dirichlet/Neumann combinations, multi-network and output-unit mode, affine interior with non-vanishing '
                     'coefficient; stated about terms regenerated from conditions.py on every run'),
    'C08': dict(engine=ENGINE_A, technique=TECH_A, note=NOTE_A, ref='DESIGN.md section 7 C08',
                text='list-generic Coq models of grad/div/laplacian with specification theorems for every number of dimensions, '
                     'proved equal to the terms regenerated from operators.py at dimensions 1..4; curl/vector laplacian and '
                     'compositions (div curl = 0, curl grad = 0, div grad = laplacian, curl curl = grad div - vector laplacian) '
                     'as identities in arbitrary jets; zeros for independent components'),
    'C09': dict(engine=ENGINE_A, technique=TECH_A, note=NOTE_A + '; torch.atan2 enters the conversion theorems only through its contract (hypotheses)', ref='DESIGN.md section 7 C09',
                text='for arbitrary jets of arbitrary fields and every point off the coordinate singularities, each of the 10 spherical/'
                     'cylindrical operators regenerated from operators.py equals the local-frame components of the Cartesian object '
                     '(specification via the inverse Jacobian, itself proved inverse to the derivative of the generated coordinate map); '
                     'the 4 conversion helpers are mutual inverses modulo 2 pi with the documented ranges'),
    'C11': dict(engine=ENGINE_A, technique=TECH_A, note=NOTE_A + '; coefficient-space variants proved per column (element-wise broadcasting modelled, checked per column by the harness)', ref='DESIGN.md section 7 C11',
                text='for every network and angular data: shell conditions reproduce f at r_0 and g at r_1 (either orientation), one-sided '
                     'and infinite variants reproduce f at r_0, and the infinite variants converge to g as r -> infinity (Coquelicot is_lim) '
                     'for every order k > 0 and bounded network; the same per column for the coefficient-space variants; terms regenerated '
                     'from conditions.py'),
    'C10': dict(engine=ENGINE_A, technique=TECH_A, note=NOTE_A + '; per-row parameter columns modelled as leaves (broadcasting modelled)', ref='DESIGN.md section 7 C10',
                text='list-generic Coq model of _get_parameter and both bundle parameterize bodies with theorems for every lookup table '
                     '(any names, indices, number of columns): the row satisfies value/derivative/two-point constraints with its own '
                     'parameters; the model is proved equal (expr_eqb inside the kernel) to the term regenerated from conditions.py for '
                     'each of the 94 + 209 lookup tables of the quantifier'),
    'C12': dict(engine=ENGINE_A, technique=TECH_A, note=NOTE_A + '; torch.cat / column slicing modelled (checked by the harness)', ref='DESIGN.md section 7 C12',
                text='list-generic Coq model of EnsembleCondition.parameterize with theorems for every list of sub-conditions (column i = '
                     'sub-condition i on output i alone, width, mismatch rejected, guarantees inherited), proved equal to the terms '
                     'regenerated from conditions.py for 1..4 opaque sub-conditions x 1..4 inputs; concrete class tuples column by column; '
                     'NoCondition identity; output-unit selection; the constructor refuses exactly the classes overriding enforce '
                     '(class table regenerated from the source)'),
    'C02': dict(engine=ENGINE_A, technique=TECH_A, note=NOTE_A + '; irregular domain: R-level spline model tied to the regenerated 4/5-point terms, numpy equation_weights tied by the spied linear systems only, np.linalg.solve a hypothesis', ref='DESIGN.md section 7 C02',
                text='for every network and boundary data derived from an arbitrary field G: the rectangle condition equals G at every point '
                     'of all four edges (either orientation); IBVP1D reproduces the initial profile for all x and the value or x-derivative '
                     'at both ends for all t in the four DD/DN/ND/NN modes; thin-plate-spline model for any number of control points: the '
                     'enforced function equals the prescribed value at every control point whenever the coefficients solve the fitted rows'),
    'C03': dict(engine=ENGINE_A, technique=TECH_A, note=NOTE_A + '; autograd.grad returning None exactly for syntactically independent operands is modelled (values agree either way) and validated on random programs', ref='DESIGN.md section 7 C03',
                text='loop model of unsafe_diff proved equal to the k-fold symbolic derivative for every order and operand, and to Coquelicot\'s '
                     'Derive_n of the row function for smooth operands with coherent jets; zero for independent operands and above the '
                     'polynomial degree; mixed partials commute; ones-trick (per-sample) for every batch size; the shape guard translated '
                     'from safe_diff accepts exactly equal (n,1) pairs; model tied in the kernel to terms regenerated from neurodiffeq.py'),
    'C19': dict(engine=ENGINE_B, technique='machine-checked proof (Coq): generated terms + validated executable model', ref='DESIGN.md section 7 C19',
                note='architecture and forward are a hand model (coq/model/Networks.v) tied to the real modules by per-run correspondence inside Coq plus pyfront\'s reading of the constructors; activation and monomial terms are generated; nn.Linear/Sequential acting row by row is a hypothesis (checked numerically); IEEE rounding modelled, not verified',
                text='Coq theorems for all n_in, n_out, hidden lists, batch sizes, reals and parameters: layer-list spec, legacy-argument equivalence, Resnet skip, row-wise forward (FCNN/Resnet/MonomialNN), monomial entries, sin/swish/APTx formulas on terms regenerated from networks.py, trainable flags'),
    'C07': dict(engine=ENGINE_A, technique='machine-checked proof (Coq): model regenerated from source by an abstract interpreter + implementation oracle', ref='DESIGN.md section 7 C07',
                note='extractor = subclass of pyfront Interp in t_C07.py, trusted but validated each run (spied and scripted RNG, interval goals); GeneratorND tabulated at N=2; linspace/logspace/meshgrid/rand/randperm/atan2/acos semantics modelled; see known_findings.d/C07.json for recorded defects',
                text='Coq theorems about the method table and per-index formulas regenerated from generators.py: table totality, static/fresh classification, in-domain and definedness of all noise-free node formulas, meshgrid(ij)+flatten = row-major tensor product for any number of axes, one LHS point per stratum for every u and permutation, spherical r/phi ranges, theta under the acos-argument hypothesis'),
}
