#!/venv/bin/python
"""Prints the markdown table of seeded changes (seeded/<ID>/<v>/meta.json) for DESIGN.md section 12.6."""
import glob
import json
import os

VERIF = os.path.dirname(os.path.dirname(os.path.abspath(__file__)))
rows = []
for p in sorted(glob.glob(os.path.join(VERIF, 'seeded', '*', '*', 'meta.json'))):
    m = json.load(open(p))
    ev = m.get('evaluation', {})
    if ev.get('kind') == 'harmless':
        continue
    c = ev.get('check_on_changed', {})
    nofail = any('no-failing' in l for l in c.get('lines', []))
    what = ' '.join(str(m.get('what', '')).split())[:170]
    needs = ' '.join(str(m.get('needs', '')).split())[:110]
    res = ('caught: ' + str(c.get('replay_key'))) if ev.get('caught') and not nofail else ('obligation broken, no failing input found' if ev.get('caught') else 'MISSED')
    broken = ', '.join(str(b) for b in (c.get('broken') or [])[:2])
    rows.append(f"| {ev.get('property')}/{ev.get('variant')} | {what} | {needs} | {res} | {broken} |")
print('| id | change | needs | result of `./check` on the changed tree | broken obligation |')
print('|---|---|---|---|---|')
print('\n'.join(rows))

# ---- behaviour-preserving refactorings (variants h1/h2): the ideal outcome is a quiet check
hrows = []
for p in sorted(glob.glob(os.path.join(VERIF, 'seeded', '*', 'h*', 'meta.json'))):
    m = json.load(open(p))
    ev = m.get('evaluation', {})
    what = ' '.join(str(m.get('what', '')).split())[:200]
    hrows.append(f"| {ev.get('property')}/{ev.get('variant')} | {what} | {ev.get('first_outcome', ev.get('outcome'))} | {ev.get('outcome')} |")
if hrows:
    print()
    print('| id | behaviour-preserving rewrite | first run | after generalising the translators |')
    print('|---|---|---|---|')
    print('\n'.join(hrows))
