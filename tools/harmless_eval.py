#!/venv/bin/python
"""Evaluate one behaviour-preserving refactoring against a check (development-time tool).
usage: tools/harmless_eval.py <ID> <variant> [--src /tmp/seed2/<ID>.out/<variant>]
  1. scratch worktree of /repo HEAD under /tmp/evalh_<ID>_<variant>; apply patch.diff
  2. run ./check <ID> with VERIF_REPO=<changed tree>: ideal outcome exit 0; a broken obligation with
     `no-failing-input-found` is the protocol's answer to a rewrite the translator/proofs do not absorb;
     a VIOLATION *with* a failing input would be a false alarm of the oracle (must be fixed)
  3. store patch.diff, equiv.py, meta.json (+ our result) under /verif/seeded/<ID>/<variant>/; remove the worktree
"""
import json
import os
import shutil
import subprocess
import sys

VERIF = os.path.dirname(os.path.dirname(os.path.abspath(__file__)))
ENV = dict(os.environ, OMP_NUM_THREADS='2', MKL_NUM_THREADS='2', PYTHONDONTWRITEBYTECODE='1')


def run(cmd, cwd=None, env=None, timeout=3000):
    p = subprocess.run(cmd, cwd=cwd, env=env or ENV, stdout=subprocess.PIPE, stderr=subprocess.STDOUT, text=True, timeout=timeout)
    return p.returncode, p.stdout


def main():
    pid, var = sys.argv[1], sys.argv[2]
    src = f'/tmp/seed2/{pid}.out/{var}'
    if '--src' in sys.argv:
        src = sys.argv[sys.argv.index('--src') + 1]
    src = os.path.abspath(src)
    wt = f'/tmp/evalh_{pid}_{var}'
    run(['git', '-C', '/repo', 'worktree', 'remove', '--force', wt])
    run(['git', '-C', '/repo', 'worktree', 'add', '-q', '--detach', wt, 'HEAD'])
    res = {'property': pid, 'variant': var, 'kind': 'harmless'}
    try:
        rc, out = run(['git', '-C', wt, 'apply', os.path.join(src, 'patch.diff')])
        if rc != 0:
            rc, out = run(['git', '-C', wt, 'apply', '--3way', os.path.join(src, 'patch.diff')])
        res['patch_applies'] = rc == 0
        if rc != 0:
            res['error'] = out[-400:]
            print(json.dumps(res, indent=1)); return
        rc, out = run([os.path.join(VERIF, 'check'), pid], cwd=VERIF, env=dict(ENV, VERIF_REPO=wt))
        lines = [l for l in out.splitlines() if l.startswith(('VIOLATION', 'KNOWN-FINDING', 'MACHINERY', '[' + pid))]
        viol = [l for l in lines if l.startswith('VIOLATION')]
        res['check_on_changed'] = {'exit': rc, 'lines': [l[:300] for l in lines[-5:]]}
        res['outcome'] = ('quiet' if rc == 0 else
                          'no-failing-input-found' if viol and all('no-failing-input-found' in l for l in viol) else
                          'FALSE-ALARM-WITH-INPUT' if viol else 'machinery-error')
        for l in viol:
            rp = l.split('replay=')[1].split()[0]
            if os.path.exists(rp):
                d = json.load(open(rp))
                res['check_on_changed'].setdefault('replays', []).append(
                    {'key': d.get('key'), 'what': str(d.get('what'))[:300], 'broken': [(b.get('obligation'), str(b.get('detail'))[:300]) for b in d.get('broken_obligations', [])][:4]})
        # restore generated files to /repo's
        rc, out = run([os.path.join(VERIF, 'check'), pid], cwd=VERIF)
        res['check_on_repo'] = {'exit': rc}
        dst = os.path.join(VERIF, 'seeded', pid, var)
        os.makedirs(dst, exist_ok=True)
        if os.path.abspath(dst) != src:
            shutil.copy(os.path.join(src, 'patch.diff'), dst)
            if os.path.exists(os.path.join(src, 'equiv.py')):
                shutil.copy(os.path.join(src, 'equiv.py'), dst)
        meta = {}
        if os.path.exists(os.path.join(src, 'meta.json')):
            try:
                meta = json.load(open(os.path.join(src, 'meta.json')))
            except ValueError:
                meta = {'raw': open(os.path.join(src, 'meta.json')).read()[:2000]}
        prev = os.path.join(dst, 'meta.json')
        if os.path.exists(prev):
            try:
                pe = json.load(open(prev)).get('evaluation', {})
                res['first_outcome'] = pe.get('first_outcome', pe.get('outcome'))
            except ValueError:
                pass
        res.setdefault('first_outcome', res.get('outcome'))
        meta['evaluation'] = res
        json.dump(meta, open(os.path.join(dst, 'meta.json'), 'w'), indent=1)
    finally:
        run(['git', '-C', '/repo', 'worktree', 'remove', '--force', wt])
        shutil.rmtree(wt, ignore_errors=True)
    print(json.dumps(res, indent=1))


if __name__ == '__main__':
    main()
