"""pyfront E-mode: a fail-closed abstract interpreter of neurodiffeq's formula code.

It never imports or runs the library: it reads source text with `ast.parse` and interprets the
statements of the requested class methods / module functions with

  * symbolic tensors  = IR terms of tools/pyfront/ir.py,
  * concrete Python values for everything a *configuration mode* fixes (None flags, strings,
    dict lookups, list lengths),
  * function symbols for user callables and networks.

Anything outside the accepted subset raises TranslationError(file, line, what).
"""
import ast
import os
from fractions import Fraction
from . import ir


class TranslationError(Exception):
    def __init__(self, file, line, what):
        super().__init__(f'{file}:{line}: {what}')
        self.file, self.line, self.what = file, line, what


class RaisedInSource(Exception):
    """The interpreted code executed a `raise` (a legitimate outcome: the mode is rejected)."""
    def __init__(self, exc_name, line):
        super().__init__(f'{exc_name} raised at line {line}')
        self.exc_name, self.line = exc_name, line


# ------------------------------------------------------------------------------ value kinds

class FunSym:
    """A user-supplied callable (boundary data, field ...) = function symbol."""
    def __init__(self, name):
        self.name = name

    def __bool__(self):          # `self.x_min_val and self.x_max_val` uses truthiness of callables
        return True


class NetSym:
    """A network: callable on a Cat of leaves; the output may be column-selected."""
    def __init__(self, name, width=1):
        self.name, self.width = name, width


class NetOut:
    """Raw output of a network at given leaf args (before column selection)."""
    def __init__(self, name, args, width):
        self.name, self.args, self.width = name, args, width


class ColSel:
    """tensor[:, k] awaiting .view(-1, 1)"""
    def __init__(self, base, k):
        self.base, self.k = base, k


class SymInt:
    """A symbolic integer parameter (e.g. ith_unit = k)."""
    def __init__(self, name):
        self.name = name


class Matrix:
    """A multi-column tensor given column-wise (list of IR terms)."""
    def __init__(self, cols):
        self.cols = list(cols)


class Cat:
    def __init__(self, items):
        self.items = list(items)


class OnesLeaf:
    """torch.ones_like(x, requires_grad=True): times a scalar c it is a fresh leaf of value c."""


class Opaque:
    def __init__(self, what):
        self.what = what


ROWS = Opaque('n')          # the (symbolic) number of rows of every tensor of a batch


class Builtin:
    def __init__(self, name):
        self.name = name


class Closure:
    def __init__(self, node, env, interp, self_obj=None, owner=None):
        self.node, self.env, self.interp, self.self_obj, self.owner = node, env, interp, self_obj, owner


class ClassVal:
    def __init__(self, node, module):
        self.node, self.module = node, module
        self.name = node.name


class Obj:
    """An instance of an interpreted class."""
    def __init__(self, cls):
        self.cls = cls
        self.attrs = {}


class BoundMethod:
    def __init__(self, obj, func_node, owner):
        self.obj, self.func_node, self.owner = obj, func_node, owner


class SuperProxy:
    def __init__(self, obj, after_cls):
        self.obj, self.after_cls = obj, after_cls


class _Return(Exception):
    def __init__(self, value):
        self.value = value


IGNORED_DECORATORS = {'deprecated_alias', 'staticmethod'}

# `@deprecated_alias(old=new)` is treated as the identity on calls that use the new keyword names.  That is an
# assumption about neurodiffeq/_version_utils.py, so it is CHECKED on the tree under test: the two functions must have
# exactly this canonical form (docstrings dropped, string literals abstracted); otherwise every target that meets the
# decorator is refused.
_ALIAS_EXPECTED = {
    'deprecated_alias': 'def deprecated_alias(**aliases):\n\n    def deco(f):\n\n        @functools.wraps(f)\n        def wrapper(*args, **kwargs):\n'
                        '            _rename_kwargs(f.__name__, kwargs, aliases)\n            return f(*args, **kwargs)\n        return wrapper\n    return deco',
    '_rename_kwargs': "def _rename_kwargs(func_name, kwargs, aliases):\n    for alias, new in aliases.items():\n        if alias in kwargs:\n"
                      "            if new in kwargs:\n                raise KeyError('S')\n            warnings.warn('S', FutureWarning)\n"
                      "            kwargs[new] = kwargs.pop(alias)",
}
_alias_checked = {}


def _canonical_source(fn):
    import copy

    class T(ast.NodeTransformer):
        def visit_JoinedStr(self, n):
            return ast.Constant(value='S')

        def visit_Constant(self, n):
            return ast.Constant(value='S') if isinstance(n.value, str) else n
    fn = T().visit(copy.deepcopy(fn))
    for sub in ast.walk(fn):
        if isinstance(sub, ast.FunctionDef):
            sub.body = [x for x in sub.body if not (isinstance(x, ast.Expr) and isinstance(x.value, ast.Constant))] or [ast.Pass()]
    return ast.unparse(ast.fix_missing_locations(fn))


def alias_decorator_problem(repo):
    """None if <repo>/neurodiffeq/_version_utils.py defines deprecated_alias as assumed, else a message."""
    if repo in _alias_checked:
        return _alias_checked[repo]
    msg = None
    try:
        tree = ast.parse(open(os.path.join(repo, 'neurodiffeq', '_version_utils.py')).read())
        found = {n.name: n for n in tree.body if isinstance(n, ast.FunctionDef)}
        for name, want in _ALIAS_EXPECTED.items():
            if name not in found:
                msg = f'{name} not found in _version_utils.py'
            elif _canonical_source(found[name]) != want:
                msg = f'_version_utils.{name} is not the keyword-renaming decorator the translator assumes'
            if msg:
                break
        others = [n for n in tree.body if isinstance(n, ast.Assign) and any(isinstance(t, ast.Name) and t.id in _ALIAS_EXPECTED for t in n.targets)]
        if others and not msg:
            msg = 'deprecated_alias / _rename_kwargs is re-bound at module level in _version_utils.py'
    except (OSError, SyntaxError) as e:
        msg = f'_version_utils.py unreadable: {e}'
    _alias_checked[repo] = msg
    return msg


class Module:
    def __init__(self, path, relname):
        self.path, self.relname = path, relname
        self.src = open(path).read()
        self.tree = ast.parse(self.src)
        self.classes, self.funcs, self.imports = {}, {}, {}
        self.lambdas = {}          # module-level `NAME = lambda ...`
        self.consts = {}           # module-level `NAME = <expression>` (evaluated lazily, in the module environment)
        for node in self.tree.body:
            if isinstance(node, ast.ClassDef):
                self.classes[node.name] = ClassVal(node, self)
            elif isinstance(node, ast.FunctionDef):
                self.funcs[node.name] = node
            elif isinstance(node, ast.Assign) and len(node.targets) == 1 and isinstance(node.targets[0], ast.Name) \
                    and isinstance(node.value, ast.Lambda):
                self.lambdas[node.targets[0].id] = node.value
            elif isinstance(node, ast.Assign) and len(node.targets) == 1 and isinstance(node.targets[0], ast.Name):
                self.consts[node.targets[0].id] = node.value
            elif isinstance(node, ast.Import):
                for a in node.names:
                    self.imports[a.asname or a.name.split('.')[0]] = Builtin(a.name if a.asname else a.name.split('.')[0])
            elif isinstance(node, ast.ImportFrom):
                for a in node.names:
                    self.imports[a.asname or a.name] = Builtin(f'{node.module or ""}.{a.name}')


class Interp:
    def __init__(self, repo, relpath):
        self.repo = repo
        self.mod = Module(os.path.join(repo, relpath), relpath)
        self.fresh = {}            # fresh leaf name -> IR term of its value
        self.branch_checks = []    # (leaf, term, occurs?) decided for autograd None branches
        self.truth_consulted = set()   # numeric parameters whose truthiness was tested
        self.raised = None

    # ------------------------------------------------------------------ errors
    def err(self, node, what):
        raise TranslationError(self.mod.relname, getattr(node, 'lineno', 0), what)

    # ------------------------------------------------------------------ class machinery
    def mro(self, cls):
        out = [cls]
        for b in cls.node.bases:
            if isinstance(b, ast.Name) and b.id in self.mod.classes:
                for c in self.mro(self.mod.classes[b.id]):
                    if c not in out:
                        out.append(c)
        return out

    def find_method(self, cls, name, after=None):
        chain = self.mro(cls)
        if after is not None:
            chain = chain[chain.index(after) + 1:]
        for c in chain:
            for n in c.node.body:
                if isinstance(n, ast.FunctionDef) and n.name == name:
                    return n, c
        return None, None

    def instantiate(self, clsname, *args, **kwargs):
        cls = self.mod.classes[clsname]
        obj = Obj(cls)
        init, owner = self.find_method(cls, '__init__')
        if init is not None:
            self.call_function(init, [obj] + list(args), kwargs, {}, owner=owner)
        return obj

    def call_method(self, obj, name, *args, **kwargs):
        fn, owner = self.find_method(obj.cls, name)
        if fn is None:
            raise TranslationError(self.mod.relname, 0, f'no method {name} on {obj.cls.name}')
        return self.call_function(fn, [obj] + list(args), kwargs, {}, owner=owner)

    def call_module_function(self, name, *args, **kwargs):
        return self.call_function(self.mod.funcs[name], list(args), kwargs, {}, owner=None)

    # ------------------------------------------------------------------ calling
    def call_function(self, node, args, kwargs, closure_env, owner=None):
        for d in node.decorator_list:
            dn = d.func if isinstance(d, ast.Call) else d
            if not (isinstance(dn, ast.Name) and dn.id in IGNORED_DECORATORS):
                self.err(d, f'decorator not accepted: {ast.unparse(d)}')
            if dn.id == 'deprecated_alias':
                prob = alias_decorator_problem(self.repo)
                if prob:
                    self.err(d, prob)
        env = dict(closure_env)
        env['__owner__'] = owner
        a = node.args
        if a.posonlyargs or a.kwonlyargs and any(k.arg not in kwargs and dflt is None for k, dflt in zip(a.kwonlyargs, a.kw_defaults)):
            self.err(node, 'unsupported signature')
        params = [p.arg for p in a.args]
        defaults = [None] * (len(params) - len(a.defaults)) + list(a.defaults)
        args = list(args)
        kwargs = dict(kwargs)
        for i, p in enumerate(params):
            if args:
                env[p] = args.pop(0)
            elif p in kwargs:
                env[p] = kwargs.pop(p)
            elif defaults[i] is not None:
                env[p] = self.eval(defaults[i], env)
            else:
                self.err(node, f'missing argument {p} in call to {node.name}')
        if a.vararg:
            env[a.vararg.arg] = tuple(args)
            args = []
        for k, dflt in zip(a.kwonlyargs, a.kw_defaults):
            if k.arg in kwargs:
                env[k.arg] = kwargs.pop(k.arg)
            else:
                env[k.arg] = self.eval(dflt, env)
        if args or kwargs:
            self.err(node, f'too many arguments in call to {node.name}: {args} {kwargs}')
        if params and params[0] == 'self':
            env['__self__'] = env['self']
        try:
            self.exec_block(node.body, env)
        except _Return as r:
            return r.value
        return None

    # ------------------------------------------------------------------ statements
    def exec_block(self, stmts, env):
        for s in stmts:
            self.exec(s, env)

    def exec(self, s, env):
        if isinstance(s, ast.Expr):
            if isinstance(s.value, ast.Constant) and isinstance(s.value.value, str):
                return                       # docstring
            self.eval(s.value, env)          # e.g. super().__init__(), warnings.warn(...)
            return
        if isinstance(s, ast.Pass):
            return
        if isinstance(s, ast.Return):
            raise _Return(None if s.value is None else self.eval(s.value, env))
        if isinstance(s, ast.Assign):
            val = self.eval(s.value, env)
            for t in s.targets:
                self.assign(t, val, env)
            return
        if isinstance(s, ast.AugAssign):
            if isinstance(s.target, ast.Attribute):
                obj = self.eval(s.target.value, env)
                if not isinstance(obj, Obj) or s.target.attr not in obj.attrs:
                    self.err(s, 'augmented assignment to an unknown attribute')
                obj.attrs[s.target.attr] = self.binop(s, type(s.op), obj.attrs[s.target.attr], self.eval(s.value, env))
                return
            if not isinstance(s.target, ast.Name):
                self.err(s, 'augmented assignment to non-name')
            cur = self.eval(s.target, env)
            env[s.target.id] = self.binop(s, type(s.op), cur, self.eval(s.value, env))
            return
        if isinstance(s, ast.If):
            test = self.truth(s.test, env)
            self.exec_block(s.body if test else s.orelse, env)
            return
        if isinstance(s, ast.FunctionDef):
            env[s.name] = Closure(s, env, self, owner=env.get('__owner__'))
            return
        if isinstance(s, ast.Raise):
            name = 'Exception'
            if s.exc is not None:
                f = s.exc.func if isinstance(s.exc, ast.Call) else s.exc
                name = ast.unparse(f)
            raise RaisedInSource(name, s.lineno)
        if isinstance(s, ast.For):
            it = self.eval(s.iter, env)
            if not isinstance(it, (list, tuple)):
                self.err(s, 'for-loop over a non-concrete iterable')
            for item in it:
                self.assign(s.target, item, env)
                self.exec_block(s.body, env)
            if s.orelse:
                self.err(s, 'for-else not accepted')
            return
        self.err(s, f'statement not accepted: {type(s).__name__}')

    def assign(self, target, val, env):
        if isinstance(target, ast.Name):
            env[target.id] = self.name_fresh(val, target.id)
            return
        if isinstance(target, (ast.Tuple, ast.List)):
            if isinstance(val, Matrix):
                val = tuple(val.cols)
            if not isinstance(val, (tuple, list)) or len(val) != len(target.elts):
                self.err(target, f'cannot unpack {type(val).__name__} into {len(target.elts)} names')
            for t, v in zip(target.elts, val):
                self.assign(t, v, env)
            return
        if isinstance(target, ast.Attribute):
            obj = self.eval(target.value, env)
            if not isinstance(obj, Obj):
                self.err(target, 'attribute assignment on non-object')
            obj.attrs[target.attr] = val
            return
        self.err(target, f'assignment target not accepted: {type(target).__name__}')

    def name_fresh(self, val, name):
        """Give an auto-named fresh leaf the name of the variable it is bound to."""
        if ir.is_term(val) and val[0] == 'var' and val[1].startswith('%leaf'):
            new = name
            k = 1
            while new in self.fresh or new in self.reserved_leaves:
                k += 1
                new = f'{name}_{k}'
            self.fresh[new] = self.fresh.pop(val[1])
            return ('var', new)
        return val

    reserved_leaves = ()

    # ------------------------------------------------------------------ truth of tests
    def truth(self, node, env):
        v = self.eval(node, env)
        return self.as_bool(node, v)

    def as_bool(self, node, v):
        if ir.is_term(v):
            if v[0] == 'par':
                # truthiness of a NUMERIC parameter (`if self.x:` / `not self.x` / `a and b`): the value 0 is falsy.
                # The mode may fix it (par_truth); otherwise the default is used and the use is recorded, and
                # gen.run_target re-runs the target with the other default and refuses when the result differs.
                self.truth_consulted.add(v[1])
                flag = self.par_truth.get(v[1], self.par_truth_default)
                return flag
            self.err(node, f'truthiness of a symbolic tensor: {ast.unparse(node)}')
        if v is None or isinstance(v, (bool, int, str, list, tuple, dict, set)):
            return bool(v)
        if isinstance(v, float):
            return bool(v)
        if isinstance(v, (FunSym, NetSym, Obj, Closure)):
            return True
        self.err(node, f'test is not a configuration predicate: {ast.unparse(node)} ({type(v).__name__})')

    par_truth = {}
    par_truth_default = True

    # ------------------------------------------------------------------ expressions
    def eval(self, n, env):
        if isinstance(n, ast.Constant):
            return n.value
        if isinstance(n, ast.Name):
            if n.id in env:
                return env[n.id]
            if n.id in self.mod.classes:
                return self.mod.classes[n.id]
            if n.id in self.mod.funcs:
                return Closure(self.mod.funcs[n.id], {}, self)
            if n.id in self.mod.lambdas:
                return self.eval(self.mod.lambdas[n.id], {})
            if n.id in self.mod.imports:
                return self.mod.imports[n.id]
            if n.id in self.mod.consts:
                # a module-level constant: evaluated in the empty (module) environment each time it is read; a value
                # the interpreter cannot evaluate refuses as usual
                v = self.eval(self.mod.consts[n.id], {})
                if isinstance(v, (list, dict, set)):
                    self.err(n, f'module-level name {n.id} holds a mutable container (global state is not modelled)')
                return v
            if n.id in ('len', 'sum', 'zip', 'enumerate', 'range', 'isinstance', 'getattr', 'set', 'super',
                        'str', 'int', 'float', 'list', 'tuple', 'ValueError', 'NotImplementedError',
                        'RuntimeError', 'DeprecationWarning', 'FutureWarning', 'callable', 'hasattr', 'abs', 'max', 'min'):
                return Builtin(n.id)
            self.err(n, f'unknown name {n.id}')
        if isinstance(n, ast.Attribute):
            return self.attribute(n, env)
        if isinstance(n, ast.BinOp):
            return self.binop(n, type(n.op), self.eval(n.left, env), self.eval(n.right, env))
        if isinstance(n, ast.UnaryOp):
            v = self.eval(n.operand, env)
            if isinstance(n.op, ast.USub):
                if isinstance(v, (int, float)) and not isinstance(v, bool):
                    return -v
                return ('neg', self.tens(n, v))
            if isinstance(n.op, ast.Not):
                return not self.as_bool(n, v)
            if isinstance(n.op, ast.UAdd):
                return v
            self.err(n, 'unary operator not accepted')
        if isinstance(n, ast.BoolOp):
            # Python semantics: returns an operand; only truthiness matters in the accepted code
            if isinstance(n.op, ast.And):
                v = True
                for x in n.values:
                    v = self.eval(x, env)
                    if not self.as_bool(x, v):
                        return v
                return v
            else:
                v = False
                for x in n.values:
                    v = self.eval(x, env)
                    if self.as_bool(x, v):
                        return v
                return v
        if isinstance(n, ast.Compare):
            return self.compare(n, env)
        if isinstance(n, ast.IfExp):
            return self.eval(n.body if self.truth(n.test, env) else n.orelse, env)
        if isinstance(n, ast.Tuple):
            return tuple(self.eval_elts(n.elts, env))
        if isinstance(n, ast.List):
            return list(self.eval_elts(n.elts, env))
        if isinstance(n, ast.Dict):
            return {self.eval(k, env): self.eval(v, env) for k, v in zip(n.keys, n.values)}
        if isinstance(n, ast.JoinedStr):
            return '<fstring>'
        if isinstance(n, ast.Subscript):
            return self.subscript(n, env)
        if isinstance(n, ast.Call):
            return self.call(n, env)
        if isinstance(n, (ast.ListComp, ast.GeneratorExp)):
            return self.comprehension(n, env)
        if isinstance(n, ast.Lambda):
            fn = ast.FunctionDef(name='<lambda>', args=n.args, body=[ast.Return(value=n.body, lineno=n.lineno)],
                                 decorator_list=[], lineno=n.lineno)
            return Closure(fn, env, self, owner=env.get('__owner__'))
        self.err(n, f'expression not accepted: {type(n).__name__}')

    def eval_elts(self, elts, env):
        out = []
        for e in elts:
            if isinstance(e, ast.Starred):
                v = self.eval(e.value, env)
                if not isinstance(v, (tuple, list)):
                    self.err(e, 'starred non-sequence')
                out.extend(v)
            else:
                out.append(self.eval(e, env))
        return out

    def comprehension(self, n, env):
        out = []

        def rec(gi, e2):
            if gi == len(n.generators):
                out.append(self.eval(n.elt, e2))
                return
            g = n.generators[gi]
            it = self.eval(g.iter, e2)
            if isinstance(it, Matrix):
                it = list(it.cols)
            if not isinstance(it, (list, tuple)) or ir.is_term(it):
                self.err(n, 'comprehension over a non-concrete iterable')
            for item in it:
                e3 = dict(e2)
                self.assign(g.target, item, e3)
                if all(self.truth(c, e3) for c in g.ifs):
                    rec(gi + 1, e3)
        rec(0, env)
        return out

    def compare(self, n, env):
        left = self.eval(n.left, env)
        res = True
        for op, rn in zip(n.ops, n.comparators):
            right = self.eval(rn, env)
            if isinstance(op, ast.Is):
                r = left is right if (left is None or right is None) else self.err(n, '`is` on non-None')
            elif isinstance(op, ast.IsNot):
                r = left is not right if (left is None or right is None) else self.err(n, '`is not` on non-None')
            elif isinstance(op, (ast.In, ast.NotIn)):
                if not isinstance(right, (dict, list, tuple, set, str)):
                    self.err(n, '`in` on non-concrete container')
                r = (left in right) if isinstance(op, ast.In) else (left not in right)
            else:
                conc = (int, float, str, bool, tuple)
                if isinstance(left, BoundMethod) or isinstance(right, BoundMethod) or \
                        isinstance(left, tuple) and left and left[0] == '%unbound' or \
                        isinstance(right, tuple) and right and right[0] == '%unbound':
                    r = self.cmp_methods(n, op, left, right)
                elif isinstance(left, conc) and isinstance(right, conc) and not ir.is_term(left) and not ir.is_term(right):
                    r = {ast.Eq: lambda a, b: a == b, ast.NotEq: lambda a, b: a != b, ast.Lt: lambda a, b: a < b,
                         ast.LtE: lambda a, b: a <= b, ast.Gt: lambda a, b: a > b, ast.GtE: lambda a, b: a >= b}[type(op)](left, right)
                else:
                    self.err(n, f'comparison of symbolic values: {ast.unparse(n)}')
            res = res and r
            left = right
        return res

    def cmp_methods(self, n, op, a, b):
        def key(x):
            if isinstance(x, tuple) and x[0] == '%unbound':
                return (x[1], x[2])
            self.err(n, 'method comparison on bound method')
        eq = key(a) == key(b)
        if isinstance(op, ast.Eq):
            return eq
        if isinstance(op, ast.NotEq):
            return not eq
        self.err(n, 'ordering of methods')

    # ------------------------------------------------------------------ attributes
    def attribute(self, n, env):
        base = self.eval(n.value, env)
        a = n.attr
        if isinstance(base, Obj):
            if a in base.attrs:
                return base.attrs[a]
            if a == '__class__':
                return base.cls
            fn, owner = self.find_method(base.cls, a)
            if fn is not None:
                return BoundMethod(base, fn, owner)
            self.err(n, f'object of class {base.cls.name} has no attribute {a}')
        if isinstance(base, ClassVal):
            if a == '__name__':
                return base.name
            fn, owner = self.find_method(base, a)
            if fn is not None:
                return ('%unbound', owner.name, a, fn, owner)
            self.err(n, f'class {base.name} has no attribute {a}')
        if isinstance(base, SuperProxy):
            fn, owner = self.find_method(base.obj.cls, a, after=base.after_cls)
            if fn is None:
                if a == '__init__':
                    return Builtin('noop')
                self.err(n, f'super() has no {a}')
            return BoundMethod(base.obj, fn, owner)
        if isinstance(base, Builtin):
            return Builtin(f'{base.name}.{a}')
        if ir.is_term(base) or isinstance(base, (Matrix, NetOut)):
            if a == 'shape':
                if isinstance(base, Matrix):
                    return (ROWS, len(base.cols))
                if isinstance(base, NetOut):
                    return (ROWS, base.width)
                return (ROWS, 1)
            if a == 'requires_grad':
                return Opaque('requires_grad')
            return ('%tmethod', base, a)
        if isinstance(base, ColSel):
            return ('%tmethod', base, a)
        if isinstance(base, Opaque):
            return ('%tmethod', base, a)
        if isinstance(base, list) and a == 'append':
            return ('%lappend', base)
        self.err(n, f'attribute {a} of {type(base).__name__} not accepted')

    # ------------------------------------------------------------------ subscripts
    def subscript(self, n, env):
        base = self.eval(n.value, env)
        sl = n.slice
        if isinstance(base, (tuple, list, dict)) and not ir.is_term(base):
            if isinstance(sl, ast.Slice):
                lo = None if sl.lower is None else self.eval(sl.lower, env)
                hi = None if sl.upper is None else self.eval(sl.upper, env)
                if sl.step is not None:
                    self.err(n, 'slice step')
                return base[lo:hi]
            idx = self.eval(sl, env)
            if isinstance(idx, SymInt):
                return ('%symidx', base, idx)
            try:
                return base[idx]
            except (IndexError, KeyError, TypeError) as e:
                self.err(n, f'index error {e}')
        # tensor[:, k]  /  tensor[0, 0]
        if isinstance(sl, ast.Tuple) and len(sl.elts) == 2:
            e0, e1 = sl.elts
            if isinstance(e0, ast.Slice) and e0.lower is None and e0.upper is None and e0.step is None \
                    and isinstance(e1, ast.Slice) and e1.step is None and e1.lower is not None and e1.upper is not None:
                lo, hi = self.eval(e1.lower, env), self.eval(e1.upper, env)
                cols = base.cols if isinstance(base, Matrix) else [base] if ir.is_term(base) else None
                if cols is None or not (isinstance(lo, int) and isinstance(hi, int)) or not 0 <= lo <= hi <= len(cols):
                    self.err(n, 'column slice not accepted')
                return Matrix(cols[lo:hi])
            if isinstance(e0, ast.Slice) and e0.lower is None and e0.upper is None and e0.step is None:
                k = self.eval(e1, env)
                if isinstance(base, (NetOut, Matrix)) and (isinstance(k, SymInt) or isinstance(k, int) and not isinstance(k, bool)):
                    return ColSel(base, k)
                if ir.is_term(base) and k == 0:
                    return ColSel(Matrix([base]), 0)
                self.err(n, f'column selection on {type(base).__name__}')
            v0, v1 = self.eval(e0, env), self.eval(e1, env)
            if v0 == 0 and v1 == 0 and (ir.is_term(base)):
                return Opaque('elem')
        self.err(n, f'subscript not accepted: {ast.unparse(n)}')

    # ------------------------------------------------------------------ arithmetic
    def tens(self, node, v):
        """Coerce a value to an IR term."""
        if ir.is_term(v):
            return v
        if isinstance(v, bool):
            self.err(node, 'bool used as tensor')
        if isinstance(v, (int, float)):
            return ir.const(v)
        if isinstance(v, NetOut):
            if v.width != 1:
                self.err(node, f'multi-column network output used as a single column')
            return ('fun', v.name, tuple(0 for _ in v.args), tuple(v.args))
        if isinstance(v, Matrix) and len(v.cols) == 1:
            return v.cols[0]
        self.err(node, f'{type(v).__name__} used as a tensor')

    def binop(self, node, op, a, b):
        num = lambda x: isinstance(x, (int, float)) and not isinstance(x, bool)
        if num(a) and num(b):
            if op is ast.Add: return a + b
            if op is ast.Sub: return a - b
            if op is ast.Mult: return a * b
            if op is ast.Div: return a / b
            if op is ast.FloorDiv: return a // b
            if op is ast.Mod: return a % b
            if op is ast.Pow: return a ** b
            self.err(node, 'numeric operator')
        if isinstance(a, str) and isinstance(b, str) and op is ast.Add:
            return a + b
        if isinstance(a, (list, tuple)) and isinstance(b, (list, tuple)) and not ir.is_term(a) and not ir.is_term(b) and op is ast.Add:
            return type(a)(list(a) + list(b))
        if op is ast.BitXor and isinstance(a, bool) and isinstance(b, bool):
            return a ^ b
        if op is ast.Sub and isinstance(a, (set, frozenset)) and isinstance(b, (set, frozenset)):
            return a - b
        # fresh leaf: c * ones_like(x, requires_grad=True)
        if op is ast.Mult and (isinstance(a, OnesLeaf) or isinstance(b, OnesLeaf)):
            other = b if isinstance(a, OnesLeaf) else a
            if isinstance(other, OnesLeaf):
                self.err(node, 'ones*ones')
            val = self.tens(node, other)
            if val[0] not in ('par', 'cst', 'cstq'):
                self.err(node, 'fresh leaf value must be a parameter or a literal')
            name = f'%leaf{len(self.fresh)}'
            self.fresh[name] = val
            return ('var', name)
        if op is ast.Pow:
            if not (isinstance(b, int) and not isinstance(b, bool) and b >= 0):
                self.err(node, 'exponent must be a non-negative integer literal')
            return ('pow', self.tens(node, a), b)
        tag = {ast.Add: 'add', ast.Sub: 'sub', ast.Mult: 'mul', ast.Div: 'div'}.get(op)
        if tag is None:
            self.err(node, f'operator not accepted: {op.__name__}')
        if isinstance(a, Matrix) or isinstance(b, Matrix):
            # column-wise broadcasting of (n,k) with (n,1)/(scalar)
            ca = a.cols if isinstance(a, Matrix) else None
            cb = b.cols if isinstance(b, Matrix) else None
            width = len(ca) if ca is not None else len(cb)
            if ca is not None and cb is not None and len(ca) != len(cb):
                if len(ca) == 1: ca = ca * len(cb); width = len(cb)
                elif len(cb) == 1: cb = cb * len(ca)
                else: self.err(node, 'matrix width mismatch')
            cols = []
            for i in range(width):
                x = ca[i] if ca is not None else self.tens(node, a)
                y = cb[i] if cb is not None else self.tens(node, b)
                cols.append((tag, x, y))
            return Matrix(cols)
        return (tag, self.tens(node, a), self.tens(node, b))

    # ------------------------------------------------------------------ calls
    def call(self, n, env):
        # super() needs the lexical owner
        if isinstance(n.func, ast.Name) and n.func.id == 'super':
            owner = env.get('__owner__')
            obj = env.get('__self__')
            if owner is None or obj is None:
                self.err(n, 'super() outside a method')
            return SuperProxy(obj, owner)
        f = self.eval(n.func, env)
        args = self.eval_elts(n.args, env)
        kwargs = {}
        for kw in n.keywords:
            if kw.arg is None:
                self.err(n, '**kwargs not accepted')
            kwargs[kw.arg] = self.eval(kw.value, env)
        return self.apply(n, f, args, kwargs)

    def leaf_arg(self, node, v):
        """Argument of a function symbol: a leaf, a parameter, or 1*parameter (constant tensor)."""
        if isinstance(v, (int, float)) and not isinstance(v, bool):
            self.err(node, 'numeric literal passed to a function symbol')
        t = self.tens(node, v)
        if t[0] == 'mul' and t[1] == ('cst', 1):
            t = t[2]
        elif t[0] == 'mul' and t[2] == ('cst', 1):
            t = t[1]
        if t[0] == 'var':
            return ('avar', t[1])
        if t[0] == 'par':
            return ('apar', t[1])
        self.err(node, f'function symbol applied to a non-leaf argument: {t[0]}')

    def apply(self, n, f, args, kwargs):
        if isinstance(f, FunSym):
            if kwargs:
                self.err(n, 'keyword arguments to a user function')
            a = tuple(self.leaf_arg(n, x) for x in args)
            return ('fun', f.name, tuple(0 for _ in a), a)
        if isinstance(f, NetSym):
            if len(args) != 1 or kwargs:
                self.err(n, 'network must be called on one tensor')
            x = args[0]
            if not isinstance(x, Cat):
                # the library always hands the network a fresh torch.cat copy of the coordinates; a direct call on the
                # caller's own tensor is observably different for networks that pre-process their input in place
                self.err(n, 'network called directly on a coordinate tensor (no torch.cat copy): input aliasing is not modelled')
            items = x.items
            a = tuple(self.leaf_arg(n, t) for t in items)
            if any(k != 'avar' for k, _ in a):
                self.err(n, 'network applied to a non-leaf')
            return NetOut(f.name, a, f.width)
        if isinstance(f, Closure):
            return self.call_function(f.node, args, kwargs, f.env, owner=f.owner)
        if isinstance(f, BoundMethod):
            static = any(isinstance(d, ast.Name) and d.id == 'staticmethod' for d in f.func_node.decorator_list)
            return self.call_function(f.func_node, (args if static else [f.obj] + args), kwargs, {}, owner=f.owner)
        if isinstance(f, tuple) and f and f[0] == '%unbound':
            return self.call_function(f[3], args, kwargs, {}, owner=f[4])
        if isinstance(f, tuple) and f and f[0] == '%tmethod':
            return self.tensor_method(n, f[1], f[2], args, kwargs)
        if isinstance(f, tuple) and f and f[0] == '%lappend':
            f[1].append(args[0])
            return None
        if isinstance(f, ClassVal):
            return self.instantiate(f.name, *args, **kwargs)
        if isinstance(f, Obj):
            fn, owner = self.find_method(f.cls, '__call__')
            if fn is None:
                self.err(n, f'object of class {f.cls.name} is not callable')
            return self.call_function(fn, [f] + args, kwargs, {}, owner=owner)
        if isinstance(f, Builtin):
            return self.builtin(n, f.name, args, kwargs)
        self.err(n, f'call of {type(f).__name__} not accepted')

    def tensor_method(self, n, base, meth, args, kwargs):
        if meth in ('view', 'reshape') and args == [-1, 1] and not kwargs:
            if isinstance(base, ColSel):
                b = base.base
                if isinstance(b, NetOut):
                    k = base.k
                    suffix = k.name if isinstance(k, SymInt) else str(k)
                    return ('fun', f'{b.name}@{suffix}', tuple(0 for _ in b.args), tuple(b.args))
                if isinstance(b, Matrix):
                    if isinstance(base.k, SymInt):
                        self.err(n, 'symbolic column of a matrix leaf')
                    if not 0 <= base.k < len(b.cols):
                        self.err(n, 'column index out of range')
                    return b.cols[base.k]
            if ir.is_term(base):
                return base
        if meth == 'expand' and isinstance(base, tuple) and base == ('cst', 1):
            return base
        if meth == 'requires_grad_' and ir.is_term(base):
            return base
        self.err(n, f'tensor method .{meth}{tuple(args)} not accepted')

    def builtin(self, n, name, args, kwargs):
        un = {'torch.exp': 'exp', 'torch.tanh': 'tanh', 'torch.abs': 'abs', 'torch.sqrt': 'sqrt', 'torch.log': 'ln',
              'torch.sin': 'sin', 'torch.cos': 'cos'}
        if name in un:
            if len(args) != 1 or kwargs:
                self.err(n, f'{name} arity')
            return (un[name], self.tens(n, args[0]))
        if name == 'torch.sigmoid':
            x = self.tens(n, args[0])
            return ('div', ('cst', 1), ('add', ('cst', 1), ('exp', ('neg', x))))
        if name == 'torch.ones_like':
            if len(args) != 1:
                self.err(n, 'ones_like arity')
            if not (ir.is_term(args[0]) or isinstance(args[0], (Opaque, NetOut))):
                self.err(n, 'ones_like of a non-tensor')
            if kwargs == {'requires_grad': True}:
                return OnesLeaf()
            if set(kwargs) == {'requires_grad'} and isinstance(kwargs['requires_grad'], Opaque):
                return ('cst', 1)      # a constant column of ones (its derivative is zero either way)
            if kwargs:
                self.err(n, f'ones_like keywords {sorted(kwargs)} not accepted')
            return ('cst', 1)
        if name == 'torch.zeros_like':
            if len(args) != 1 or (kwargs and kwargs != {'requires_grad': True}):
                self.err(n, 'zeros_like usage')
            return ('cst', 0)
        if name == 'torch.sum':
            if len(args) != 1 or kwargs != {'dim': 1, 'keepdim': True}:
                self.err(n, 'torch.sum must be called as torch.sum(x, dim=1, keepdim=True)')
            cols = args[0].cols if isinstance(args[0], Matrix) else [self.tens(n, args[0])]
            acc = cols[0]
            for c in cols[1:]:
                acc = ('add', acc, c)
            return acc
        if name == 'torch.tensor':
            vals = args[0]
            if not isinstance(vals, (list, tuple)) or not all(isinstance(v, (int, float)) and not isinstance(v, bool) for v in vals):
                self.err(n, 'torch.tensor of a non-numeric-list')
            if set(kwargs) - {'dtype'}:
                self.err(n, 'torch.tensor keywords')
            return Matrix([ir.const(v) for v in vals])
        if name == 'torch.cat':
            dim = kwargs.get('dim', args[1] if len(args) > 1 else 0)
            if dim != 1 or not isinstance(args[0], (list, tuple)):
                self.err(n, 'torch.cat must be called on a list with dim=1')
            items = list(args[0])
            if all(ir.is_term(x) and x[0] == 'var' for x in items):
                return Cat(items)
            cols = []
            for x in items:
                if isinstance(x, Matrix):
                    cols.extend(x.cols)
                else:
                    cols.append(self.tens(n, x))
            return Matrix(cols)
        if name in ('neurodiffeq.safe_diff', 'neurodiffeq.diff', '.neurodiffeq.safe_diff', '.neurodiffeq.diff', 'neurodiffeq.neurodiffeq.safe_diff', 'diff', 'safe_diff'):
            return self.do_diff(n, args, kwargs)
        if name in ('autograd.grad', 'torch.autograd.grad', 'torch.autograd.grad.grad'):
            return self.do_autograd(n, args, kwargs)
        if name == 'len':
            v = args[0]
            if isinstance(v, Matrix):
                self.err(n, 'len of a tensor')
            if isinstance(v, (list, tuple, dict, str)) and not ir.is_term(v):
                return len(v)
            self.err(n, 'len of a symbolic value')
        if name == 'sum':
            items = list(args[0])
            acc = args[1] if len(args) > 1 else 0
            for x in items:
                if isinstance(x, bool) or (isinstance(acc, (int, float)) and isinstance(x, (int, float)) and not isinstance(x, bool)):
                    acc = acc + x
                else:
                    acc = self.binop(n, ast.Add, acc, x)
            return acc
        if name == 'zip':
            seqs = [list(a.cols) if isinstance(a, Matrix) else a for a in args]
            for s in seqs:
                if not isinstance(s, (list, tuple)) or ir.is_term(s):
                    self.err(n, 'zip of a non-concrete sequence')
            return [tuple(t) for t in zip(*seqs)]
        if name == 'enumerate':
            return [(i, x) for i, x in enumerate(args[0])]
        if name == 'range':
            if not all(isinstance(a, int) for a in args):
                self.err(n, 'range of symbolic bound')
            return list(range(*args))
        if name in ('list', 'tuple'):
            return (list if name == 'list' else tuple)(args[0]) if args else (list if name == 'list' else tuple)()
        if name == 'set':
            return set(args[0]) if args else set()
        if name == 'isinstance':
            v, t = args
            tn = t.name if isinstance(t, Builtin) else None
            if tn == 'str':
                return isinstance(v, str)
            self.err(n, f'isinstance(_, {tn}) not accepted')
        if name == 'getattr':
            obj, a = args[0], args[1]
            if isinstance(obj, Obj) and isinstance(a, str):
                if a in obj.attrs:
                    return obj.attrs[a]
                if len(args) > 2:
                    return args[2]
                self.err(n, f'getattr: no attribute {a}')
            self.err(n, 'getattr on non-object')
        if name in ('warnings.warn', 'noop'):
            return None
        if name in ('ValueError', 'NotImplementedError', 'RuntimeError', 'DeprecationWarning', 'FutureWarning'):
            return Opaque(name)
        self.err(n, f'call of {name} not accepted')

    def do_diff(self, n, args, kwargs):
        if len(args) < 2:
            self.err(n, 'diff arity')
        u, t = args[0], args[1]
        order = kwargs.pop('order', args[2] if len(args) > 2 else 1)
        kwargs.pop('shape_check', None)
        if kwargs or not isinstance(order, int) or order < 1:
            self.err(n, 'diff keywords/order')
        t = self.tens(n, t)
        if t[0] != 'var':
            self.err(n, 'diff with respect to a non-leaf')
        e = self.tens(n, u)
        for _ in range(order):
            e = ('D', t[1], e)
        return e

    def do_autograd(self, n, args, kwargs):
        """autograd.grad(u, xs, grad_outputs=ones_like(u), create_graph=True, allow_unused=True)"""
        if len(args) != 2:
            self.err(n, 'autograd.grad arity')
        if set(kwargs) != {'grad_outputs', 'create_graph', 'allow_unused'} or kwargs['create_graph'] is not True \
                or kwargs['allow_unused'] is not True or kwargs['grad_outputs'] != ('cst', 1):
            self.err(n, 'autograd.grad must be called with grad_outputs=ones_like(u), create_graph=True, allow_unused=True')
        u = self.tens(n, args[0])
        xs = args[1]
        single = ir.is_term(xs)
        xs_l = [xs] if single else list(xs)
        out = []
        for x in xs_l:
            x = self.tens(n, x)
            if x[0] != 'var':
                self.err(n, 'autograd.grad with respect to a non-leaf')
            occ = ir.occurs(x[1], u)
            self.branch_checks.append((x[1], u, occ))
            out.append(('D', x[1], u) if occ else None)
        return tuple(out)
