"""IR of the row-wise tensor expressions (mirror of coq/lib/Expr.v) + Python mirror of D,
float evaluation and Coq pretty-printing.  Terms are nested tuples:

  ('var', name) ('par', name) ('cst', int) ('cstq', n, d)
  ('add',a,b) ('sub',a,b) ('mul',a,b) ('div',a,b) ('neg',a) ('pow',a,n)
  ('sin',a) ('cos',a) ('exp',a) ('tanh',a) ('abs',a) ('sqrt',a) ('ln',a)
  ('fun', fname, alpha(tuple of int), args(tuple of ('avar',name)|('apar',name)))
  ('D', vname, a)              -- unexpanded symbolic derivative, printed as `D v a` in Coq

The Python D below is used only (a) by the float evaluator that validates the translator
against torch and (b) to decide `g is None` branches of autograd.grad (each such decision is
re-checked inside Coq by an emitted `occurs` example).
"""
from fractions import Fraction
import math

UN = ('neg', 'sin', 'cos', 'exp', 'tanh', 'abs', 'sqrt', 'ln')
BIN = ('add', 'sub', 'mul', 'div')


def is_term(x):
    return isinstance(x, tuple) and len(x) >= 1 and isinstance(x[0], str) and x[0] in (
        'var', 'par', 'cst', 'cstq', 'pow', 'fun', 'D') + UN + BIN


def const(v):
    """IR constant for a Python int/float/Fraction (exact decimal reading of floats)."""
    if isinstance(v, bool):
        raise TypeError('bool is not a tensor constant')
    if isinstance(v, int):
        return ('cst', v)
    if isinstance(v, float):
        fr = Fraction(repr(v))
    elif isinstance(v, Fraction):
        fr = v
    else:
        raise TypeError(f'not a numeric constant: {v!r}')
    if fr.denominator == 1:
        return ('cst', fr.numerator)
    return ('cstq', fr.numerator, fr.denominator)


def bump(alpha, j):
    a = list(alpha)
    a[j] += 1
    return tuple(a)


def pyD(v, e):
    """Python mirror of Coq `D v e` (same shape of result term)."""
    k = e[0]
    if k == 'var':
        return ('cst', 1) if e[1] == v else ('cst', 0)
    if k in ('par', 'cst', 'cstq'):
        return ('cst', 0)
    if k == 'add':
        return ('add', pyD(v, e[1]), pyD(v, e[2]))
    if k == 'sub':
        return ('sub', pyD(v, e[1]), pyD(v, e[2]))
    if k == 'mul':
        return ('add', ('mul', pyD(v, e[1]), e[2]), ('mul', e[1], pyD(v, e[2])))
    if k == 'div':
        return ('div', ('sub', ('mul', pyD(v, e[1]), e[2]), ('mul', e[1], pyD(v, e[2]))), ('mul', e[2], e[2]))
    if k == 'neg':
        return ('neg', pyD(v, e[1]))
    if k == 'pow':
        n = e[2]
        if n == 0:
            return ('cst', 0)
        return ('mul', ('mul', ('cst', n), ('pow', e[1], n - 1)), pyD(v, e[1]))
    if k == 'sin':
        return ('mul', ('cos', e[1]), pyD(v, e[1]))
    if k == 'cos':
        return ('neg', ('mul', ('sin', e[1]), pyD(v, e[1])))
    if k == 'exp':
        return ('mul', ('exp', e[1]), pyD(v, e[1]))
    if k == 'tanh':
        return ('mul', ('sub', ('cst', 1), ('mul', ('tanh', e[1]), ('tanh', e[1]))), pyD(v, e[1]))
    if k == 'abs':
        return ('mul', ('div', e[1], ('abs', e[1])), pyD(v, e[1]))
    if k == 'sqrt':
        return ('div', pyD(v, e[1]), ('mul', ('cst', 2), ('sqrt', e[1])))
    if k == 'ln':
        return ('div', pyD(v, e[1]), e[1])
    if k == 'fun':
        _, f, alpha, args = e
        # dargs: right-nested sum over slots holding leaf v, ending in ECst 0
        res = ('cst', 0)
        for j in reversed(range(len(args))):
            a = args[j]
            if a[0] == 'avar' and a[1] == v:
                res = ('add', ('fun', f, bump(alpha, j), args), res)
        return res
    if k == 'D':
        return pyD(v, expand(e))
    raise ValueError(f'pyD: unknown node {k}')


def expand(e):
    """Expand all ('D', v, a) nodes."""
    k = e[0]
    if k == 'D':
        return pyD(e[1], expand(e[2]))
    if k in ('var', 'par', 'cst', 'cstq', 'fun'):
        return e
    if k == 'pow':
        return ('pow', expand(e[1]), e[2])
    if k in UN:
        return (k, expand(e[1]))
    if k in BIN:
        return (k, expand(e[1]), expand(e[2]))
    raise ValueError(k)


def occurs(v, e):
    """Mirror of Coq `occurs v e` on the expanded term."""
    e = expand(e)
    stack = [e]
    while stack:
        t = stack.pop()
        k = t[0]
        if k == 'var':
            if t[1] == v:
                return True
        elif k == 'fun':
            if any(a[0] == 'avar' and a[1] == v for a in t[3]):
                return True
        elif k in ('par', 'cst', 'cstq'):
            pass
        elif k == 'pow':
            stack.append(t[1])
        elif k in UN:
            stack.append(t[1])
        elif k in BIN:
            stack.append(t[1]); stack.append(t[2])
    return False


def leaves(e, acc=None):
    acc = set() if acc is None else acc
    k = e[0]
    if k == 'var':
        acc.add(e[1])
    elif k == 'fun':
        for a in e[3]:
            if a[0] == 'avar':
                acc.add(a[1])
    elif k == 'D':
        acc.add(e[1]); leaves(e[2], acc)
    elif k in ('par', 'cst', 'cstq'):
        pass
    elif k == 'pow' or k in UN:
        leaves(e[1], acc)
    elif k in BIN:
        leaves(e[1], acc); leaves(e[2], acc)
    return acc


def symbols(e, pars=None, funs=None):
    """(set of parameter names, dict fname -> arity)"""
    pars = set() if pars is None else pars
    funs = {} if funs is None else funs
    k = e[0]
    if k == 'par':
        pars.add(e[1])
    elif k == 'fun':
        funs[e[1]] = len(e[3])
        for a in e[3]:
            if a[0] == 'apar':
                pars.add(a[1])
    elif k == 'D':
        symbols(e[2], pars, funs)
    elif k in ('var', 'cst', 'cstq'):
        pass
    elif k == 'pow' or k in UN:
        symbols(e[1], pars, funs)
    elif k in BIN:
        symbols(e[1], pars, funs); symbols(e[2], pars, funs)
    return pars, funs


def size(e):
    k = e[0]
    if k in ('var', 'par', 'cst', 'cstq', 'fun'):
        return 1
    if k == 'D':
        return 1 + size(e[2])
    if k == 'pow' or k in UN:
        return 1 + size(e[1])
    return 1 + size(e[1]) + size(e[2])


# ---------------------------------------------------------------------------------------
# float evaluation (validation of the translator against torch)

def feval(e, venv, penv, fenv):
    """venv: leaf name -> float; penv: param name -> float;
    fenv: fname -> callable(alpha tuple, [float args]) -> float."""
    e = expand(e)
    return _feval(e, venv, penv, fenv)


def _feval(e, venv, penv, fenv):
    k = e[0]
    if k == 'var':
        return venv[e[1]]
    if k == 'par':
        return penv[e[1]]
    if k == 'cst':
        return float(e[1])
    if k == 'cstq':
        return e[1] / e[2]
    if k == 'add':
        return _feval(e[1], venv, penv, fenv) + _feval(e[2], venv, penv, fenv)
    if k == 'sub':
        return _feval(e[1], venv, penv, fenv) - _feval(e[2], venv, penv, fenv)
    if k == 'mul':
        return _feval(e[1], venv, penv, fenv) * _feval(e[2], venv, penv, fenv)
    if k == 'div':
        return _feval(e[1], venv, penv, fenv) / _feval(e[2], venv, penv, fenv)
    if k == 'neg':
        return -_feval(e[1], venv, penv, fenv)
    if k == 'pow':
        return _feval(e[1], venv, penv, fenv) ** e[2]
    if k == 'sin':
        return math.sin(_feval(e[1], venv, penv, fenv))
    if k == 'cos':
        return math.cos(_feval(e[1], venv, penv, fenv))
    if k == 'exp':
        return math.exp(_feval(e[1], venv, penv, fenv))
    if k == 'tanh':
        return math.tanh(_feval(e[1], venv, penv, fenv))
    if k == 'abs':
        return abs(_feval(e[1], venv, penv, fenv))
    if k == 'sqrt':
        return math.sqrt(_feval(e[1], venv, penv, fenv))
    if k == 'ln':
        return math.log(_feval(e[1], venv, penv, fenv))
    if k == 'fun':
        args = [venv[a[1]] if a[0] == 'avar' else penv[a[1]] for a in e[3]]
        return fenv[e[1]](e[2], args)
    raise ValueError(k)


# ---------------------------------------------------------------------------------------
# Coq printing

class Names:
    """Numbering of leaves / params / function symbols of one generated file."""

    def __init__(self):
        self.vars, self.pars, self.funs = [], [], []

    def _idx(self, lst, name):
        if name not in lst:
            lst.append(name)
        return lst.index(name)

    def v(self, name):
        return self._idx(self.vars, name)

    def p(self, name):
        return self._idx(self.pars, name)

    def f(self, name):
        return self._idx(self.funs, name)


def ident(prefix, name):
    s = ''.join(c if c.isalnum() else '_' for c in name)
    return f'{prefix}_{s}'


def coq(e, nm):
    k = e[0]
    if k == 'var':
        nm.v(e[1]); return '(EVar %s)' % ident('v', e[1])
    if k == 'par':
        nm.p(e[1]); return '(EPar %s)' % ident('p', e[1])
    if k == 'cst':
        return f'(ECst ({e[1]}))'
    if k == 'cstq':
        return f'(ECstQ ({e[1]}) {e[2]})'
    if k in BIN:
        c = {'add': 'EAdd', 'sub': 'ESub', 'mul': 'EMul', 'div': 'EDiv'}[k]
        return f'({c} {coq(e[1], nm)} {coq(e[2], nm)})'
    if k == 'pow':
        return f'(EPow {coq(e[1], nm)} {e[2]})'
    if k in UN:
        c = {'neg': 'ENeg', 'sin': 'ESin', 'cos': 'ECos', 'exp': 'EExp', 'tanh': 'ETanh',
             'abs': 'EAbs', 'sqrt': 'ESqrt', 'ln': 'ELn'}[k]
        return f'({c} {coq(e[1], nm)})'
    if k == 'fun':
        nm.f(e[1])
        al = '; '.join(str(a) for a in e[2])
        parts = []
        for a in e[3]:
            if a[0] == 'avar':
                nm.v(a[1]); parts.append('AVar %s' % ident('v', a[1]))
            else:
                nm.p(a[1]); parts.append('APar %s' % ident('p', a[1]))
        return '(EFun %s [%s]%%nat [%s])' % (ident('f', e[1]), al, '; '.join(parts))
    if k == 'D':
        nm.v(e[1])
        return '(D %s %s)' % (ident('v', e[1]), coq(e[2], nm))
    raise ValueError(k)


def coq_real(e, venv, penv, fexpr):
    """Closed Coq real-number expression for `interval` goals: leaves/params replaced by
    exact dyadic/decimal literals (strings), function symbols by closed forms
    fexpr[fname](alpha, [arg strings]) -> string.  Term is expanded first."""
    e = expand(e)

    def go(t):
        k = t[0]
        if k == 'var':
            return venv[t[1]]
        if k == 'par':
            return penv[t[1]]
        if k == 'cst':
            return f'({t[1]})'
        if k == 'cstq':
            return f'({t[1]} / {t[2]})'
        if k in BIN:
            op = {'add': '+', 'sub': '-', 'mul': '*', 'div': '/'}[k]
            return f'({go(t[1])} {op} {go(t[2])})'
        if k == 'neg':
            return f'(- {go(t[1])})'
        if k == 'pow':
            return f'({go(t[1])} ^ {t[2]})'
        if k in UN:
            fn = {'sin': 'sin', 'cos': 'cos', 'exp': 'exp', 'tanh': 'tanh', 'abs': 'Rabs', 'sqrt': 'sqrt', 'ln': 'ln'}[k]
            return f'({fn} {go(t[1])})'
        if k == 'fun':
            args = [venv[a[1]] if a[0] == 'avar' else penv[a[1]] for a in t[3]]
            return fexpr[t[1]](t[2], args)
        raise ValueError(k)
    return go(e)
