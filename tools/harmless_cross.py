#!/venv/bin/python
"""Cross-matrix of behaviour-preserving rewrites (seeded/<ID>/h*) against EVERY check whose translator reads the
touched file (development tool).  One patch at a time; the checks of one patch run in parallel (different properties).
Prints one line per (patch, check); appends to build/harmless_cross.jsonl."""
import json, os, subprocess, sys, glob, shutil
from concurrent.futures import ThreadPoolExecutor
V = os.path.dirname(os.path.dirname(os.path.abspath(__file__)))
READERS = {
    'neurodiffeq/solvers.py': ['C04', 'C05', 'C06', 'C15', 'C16', 'C18'],
    'neurodiffeq/generators.py': ['C07', 'C13', 'C14'],
    'neurodiffeq/conditions.py': ['C01', 'C02', 'C10', 'C11', 'C12'],
    'neurodiffeq/pde.py': ['C02'],
    'neurodiffeq/operators.py': ['C08', 'C09', 'C17'],
    'neurodiffeq/neurodiffeq.py': ['C03', 'C08', 'C09', 'C17'],
    'neurodiffeq/function_basis.py': ['C17'],
    'neurodiffeq/callbacks.py': ['C16'],
    'neurodiffeq/temporal.py': ['C20'],
    'neurodiffeq/networks.py': ['C19'],
    'neurodiffeq/solvers_utils.py': ['C18'],
}
ENV = dict(os.environ, OMP_NUM_THREADS='2', MKL_NUM_THREADS='2', PYTHONDONTWRITEBYTECODE='1')
only = sys.argv[1:]
for pd in sorted(glob.glob(os.path.join(V, 'seeded', '*', 'h*', 'patch.diff'))):
    pid, var = pd.split(os.sep)[-3:-1]
    if only and pid not in only:
        continue
    files = [l[6:].strip() for l in open(pd) if l.startswith('+++ b/')]
    checks = sorted({c for f in files for c in READERS.get(f, [])} - {pid})
    if not checks:
        continue
    wt = f'/tmp/evalx_{pid}_{var}'
    subprocess.run(['git', '-C', '/repo', 'worktree', 'remove', '--force', wt], capture_output=True)
    subprocess.run(['git', '-C', '/repo', 'worktree', 'add', '-q', '--detach', wt, 'HEAD'], capture_output=True)
    try:
        if subprocess.run(['git', '-C', wt, 'apply', pd], capture_output=True).returncode:
            print(pid, var, 'PATCH-DOES-NOT-APPLY'); continue

        def one(c):
            p = subprocess.run([os.path.join(V, 'check'), c], cwd=V, env=dict(ENV, VERIF_REPO=wt), stdout=subprocess.PIPE, stderr=subprocess.STDOUT, text=True)
            viol = [l for l in p.stdout.splitlines() if l.startswith(('VIOLATION', 'MACHINERY'))]
            det = []
            for l in viol:
                if 'replay=' in l:
                    rp = l.split('replay=')[1].split()[0]
                    if os.path.exists(rp):
                        d = json.load(open(rp))
                        det.append({'key': d.get('key'), 'what': str(d.get('what'))[:200], 'obl': [(o.get('obligation'), str(o.get('detail'))[:200]) for o in (d.get('obligations') or d.get('broken_obligations') or [])][:3]})
            return {'patch': f'{pid}/{var}', 'check': c, 'exit': p.returncode, 'lines': [l[:200] for l in viol][:3], 'detail': det[:2]}
        with ThreadPoolExecutor(4) as ex:
            for r in ex.map(one, checks):
                print(r['patch'], r['check'], 'exit', r['exit'], r['lines'][:1], r['detail'][:1], flush=True)
                with open(os.path.join(V, 'build', 'harmless_cross.jsonl'), 'a') as f:
                    f.write(json.dumps(r) + '\n')
    finally:
        subprocess.run(['git', '-C', '/repo', 'worktree', 'remove', '--force', wt], capture_output=True)
        shutil.rmtree(wt, ignore_errors=True)
