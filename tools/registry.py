"""Which properties are implemented, and what each needs generated before its proofs build."""
import importlib

# property id -> (gen file name, module holding TARGETS) list
GEN = {
    'C01': [('Gen_C01', 'props.t_C01')],
    'C02': [('Gen_C02', 'props.t_C02')],
    'C03': [('Gen_C03', 'props.t_C03')],
    'C08': [('Gen_C08', 'props.t_C08')],
    'C09': [('Gen_C09', 'props.t_C09')],
    'C10': [('Gen_C10', 'props.t_C10')],
    'C11': [('Gen_C11', 'props.t_C11')],
    'C12': [('Gen_C12', 'props.t_C12')],
    'C17': [('Gen_C17', 'props.t_C17')],
    'C19': [('Gen_C19', 'props.t_C19')],
}

# properties whose generated file is written by their own fail-closed emitter:
# property id -> 'module:function' returning (ok, info); called with no arguments
CUSTOM = {
    'C04': 'props.t_C04:setup_generate',      # Gen_C04.v: solver-loop fragments, also used by P_C05 / P_C06
    'C05': 'props.t_C04:setup_generate',
    'C06': 'props.t_C04:setup_generate',
    'C07': 'props.t_C07:generate_for_make',
    'C13': 'props.t_C13:setup_generate',
    'C14': 'props.t_C14:setup_generate',
    'C15': 'props.t_C15:setup_generate',      # Gen_C15.v: BaseSolver.fit loop + global_epoch
    'C16': 'props.t_C16:setup_generate',
    'C17': 'props.t_C17o:setup_generate',
    'C18': 'props.t_C18:setup_generate',
    'C20': 'props.t_C20:setup_generate',
}

NOGEN = []        # every property has at least one source-generated fragment

PROPS = sorted(set(GEN) | set(CUSTOM) | set(NOGEN))


def run_custom(pid):
    mod, fn = CUSTOM[pid].split(':')
    return getattr(importlib.import_module(mod), fn)()


def targets_of(modname):
    return importlib.import_module(modname).TARGETS
