"""The integer/rational toy problem of DESIGN.md section 4.2, shared by the C04 / C05 / C06 / C15 checks.

Three things live here:

1. torch components that go through the PUBLIC constructors of the five real solver classes
   (scalar-weight nets, tagging conditions, prime-coefficient equations, callable losses, scripted
   spying generators, a scripted closure-requiring optimiser, scripted callbacks) and a driver that
   runs a *scenario* (a JSON-able dict: configuration + a list of fit / act / get_solution /
   eval ops) on the real solver and records everything observable;
2. an independent pure-Python reference of the same toy formulas over `fractions.Fraction`
   (used by the properties' own oracles: independent recomputation);
3. a writer of Coq terms that lets the executable Gallina model (`coq/model/Solver.v`, module
   `Toy`) compute the same scenario inside `ck.step_cases`.

The toy formulas (the SAME text is implemented in Solver.v, module Toy):
  net k on routed coordinate columns X_0..X_{r-1}:   out = w_k * (kappa_k + sum_j (j+1) X_j)
  condition i:            u_i = out + coef_i * (tag_i + sum_j (10+j) X_j)        (coef 0 = NoCondition)
  equations on args a_0..: res_e = sum_pos PRIME[8 e + pos] * a_pos             (e < n_eq <= 2)
  loss 0:  sum(res) + 3 sum_i (i+1) sum(f_i) + 5 sum_j (j+1) sum(c_j)
  loss 1:  2 sum(res) + sum(f_0)
  loss 2:  sum(res^2)
  loss 3:  mean(res^2)                          (None / 'l2' / MSELoss)
  extra :  7 sum(f_0) + 11 sum(c_0)             (additional_loss of a subclass)
  metric i: sum_pos (100 (i+1) + pos + 1) sum(a_pos)   over a = funcs ++ all coordinates
"""
import copy
import math
import warnings
from fractions import Fraction

PRIMES = [2, 3, 5, 7, 11, 13, 17, 19, 23, 29, 31, 37, 41, 43, 47, 53]
CLASSES = ['Generic', 'S1D', 'Bundle', 'S2D', 'Spherical']
BIG = 2 ** 40          # discard (and count) scenarios whose observed values leave the exactly-representable range


def F(x):
    return x if isinstance(x, Fraction) else Fraction(x)


# =====================================================================================================
# 1. pure-Python reference over Fractions (independent of torch and of Coq)
# =====================================================================================================

def ref_route(cls, sig, cols):
    """SolverSpherical._auto_enforce: a fixed-arity condition gets the leading coordinates it accepts, a variadic
    one gets all of them; every other solver class passes all coordinates"""
    if cls == 'Spherical' and isinstance(sig, int):
        return cols[:sig]
    return cols


def ref_enforce(w, kappa, cond, cols):
    """one unknown on columns of Fractions; cond = {'tag','coef','sig'}"""
    n = len(cols[0])
    out = []
    for r in range(n):
        s = F(kappa) + sum(F(j + 1) * cols[j][r] for j in range(len(cols)))
        c = F(cond['tag']) + sum(F(10 + j) * cols[j][r] for j in range(len(cols)))
        out.append(F(w) * s + F(cond['coef']) * c)
    return out


def ref_funcs(cfg, conds, w, cols):
    return [ref_enforce(w[cfg['netof'][i]], cfg['kappa'][cfg['netof'][i]], conds[i], ref_route(cfg['cls'], conds[i]['sig'], cols))
            for i in range(len(conds))]


def ref_eq_args(cfg, fs, cols):
    if cfg['cls'] == 'Bundle':
        nf = len(fs)
        vs = fs + cols
        return vs[:nf + 1] + [vs[nf + 1 + i] for i in cfg['idx']]
    return fs + cols


def ref_residuals(cfg, args, k=None):
    n = len(args[0])
    extra = F(59) * F(k) if k is not None else F(0)          # a learnable coefficient inside the equations
    return [[sum(F(PRIMES[8 * e + pos]) * args[pos][r] for pos in range(len(args))) + extra for r in range(n)]
            for e in range(cfg['neq'])]


def ref_loss_from(cfg, lid, res, fs, cols):
    tot = lambda col: sum(col, Fraction(0))
    if lid == 0:
        v = sum(tot(r) for r in res) + 3 * sum((i + 1) * tot(f) for i, f in enumerate(fs)) + 5 * sum((j + 1) * tot(c) for j, c in enumerate(cols))
    elif lid == 1:
        v = 2 * sum(tot(r) for r in res) + tot(fs[0])
    elif lid == 2:
        v = sum(sum(x * x for x in r) for r in res)
    elif lid == 3:
        v = sum(sum(x * x for x in r) for r in res) / (len(res) * len(res[0]))
    elif lid == 4:      # 'l1' / L1Loss: mean absolute residual (not modelled in Coq; oracle only)
        v = sum(sum(abs(x) for x in r) for r in res) / (len(res) * len(res[0]))
    else:
        raise ValueError(lid)
    if cfg['ext']:
        v += 7 * tot(fs[0]) + 11 * tot(cols[0])
    return F(v)


def ref_loss(cfg, lid, conds, w, batch):
    cols = [[F(x) for x in c] for c in batch]
    fs = ref_funcs(cfg, conds, w, cols)
    res = ref_residuals(cfg, ref_eq_args(cfg, fs, cols), w[-1] if cfg.get('extra_k') else None)
    return ref_loss_from(cfg, lid, res, fs, cols)


def ref_metric(cfg, i, conds, w, batch):
    cols = [[F(x) for x in c] for c in batch]
    fs = ref_funcs(cfg, conds, w, cols)
    a = fs + cols
    return sum(F(100 * (i + 1) + pos + 1) * sum(a[pos], Fraction(0)) for pos in range(len(a)))


def ref_grad(cfg, lid, conds, w, batch):
    """exact gradient by finite differences of a polynomial of degree <= 2 in each weight:
    g_k = (L(w + e_k) - L(w - e_k)) / 2  (exact for quadratics)"""
    g = []
    for k in range(len(w)):
        wp = list(w); wp[k] = F(w[k]) + 1
        wm = list(w); wm[k] = F(w[k]) - 1
        g.append((ref_loss(cfg, lid, conds, wp, batch) - ref_loss(cfg, lid, conds, wm, batch)) / 2)
    return g


def ref_solution(cfg, conds, w, cols, training=False):
    """what a Solution evaluates: every condition on every coordinate (no spherical truncation)"""
    cols = [[F(x) for x in c] for c in cols]
    return [ref_enforce(w[cfg['netof'][i]], cfg['kappa'][cfg['netof'][i]], conds[i], cols) for i in range(len(conds))]


# =====================================================================================================
# 2. torch components and the driver
# =====================================================================================================

_T = {}


def _torch():
    if 'torch' not in _T:
        from harness import enga
        _T['torch'] = enga.import_repo()
    return _T['torch']


def toy_harmonics(theta, phi):
    """a two-function 'basis' for SolutionSphericalHarmonics: columns theta + 2 phi and 3 theta - phi"""
    torch = _torch()
    return torch.cat([theta + 2 * phi, 3 * theta - phi], dim=1)


def mutable_reachable(roots, depth=4):
    """{id: object} of the MUTABLE objects reachable from roots through lists / tuples / sets / dict values / __dict__
    (to the given depth): containers, tensors, modules and plain instances; immutable scalars, strings, functions, classes,
    modules, dtypes and devices are ignored"""
    import types
    torch = _torch()
    skip = (int, float, complex, str, bytes, bool, type(None), type, types.FunctionType, types.BuiltinFunctionType, types.MethodType,
            types.ModuleType, torch.dtype, torch.device, torch.Size, range, frozenset)
    seen = {}

    def walk(o, d):
        if isinstance(o, skip) or id(o) in seen and not isinstance(o, tuple):
            return
        if not isinstance(o, tuple):
            seen[id(o)] = o
        if d == 0:
            return
        if isinstance(o, (list, tuple, set)):
            for x in o:
                walk(x, d - 1)
        elif isinstance(o, dict):
            for x in o.values():
                walk(x, d - 1)
        elif isinstance(o, torch.Tensor):
            return
        elif hasattr(o, '__dict__'):
            for x in vars(o).values():
                walk(x, d - 1)
    for r_ in roots:
        walk(r_, depth)
    return seen


def _requires_closure(opt):
    import inspect
    p = inspect.signature(opt.step).parameters.get('closure')
    return bool(p and p.default == inspect._empty)


def make_components():
    """Classes are created lazily (after neurodiffeq is importable from the tree under test)."""
    if 'comp' in _T:
        return _T['comp']
    torch = _torch()
    import torch.nn as nn
    from neurodiffeq.conditions import BaseCondition, NoCondition

    class ToyNet(nn.Module):
        def __init__(self, w, kappa):
            super().__init__()
            self.w = nn.Parameter(torch.tensor(float(w)))
            self.kappa = float(kappa)

        def forward(self, x):
            coef = torch.arange(1, x.shape[1] + 1, dtype=x.dtype)
            return self.w * (self.kappa + (x * coef).sum(dim=1, keepdim=True))

    def _extra(tag, coords):
        v = tag
        for j, c in enumerate(coords):
            v = v + (10 + j) * c
        return v

    class TagVar(BaseCondition):          # variadic parameterize
        def __init__(self, tag):
            super().__init__(); self.tag = float(tag)

        def parameterize(self, out, *coords):
            return out + _extra(self.tag, coords)

    class TagFix1(BaseCondition):
        def __init__(self, tag):
            super().__init__(); self.tag = float(tag)

        def parameterize(self, out, r):
            return out + _extra(self.tag, (r,))

    class TagFix2(BaseCondition):
        def __init__(self, tag):
            super().__init__(); self.tag = float(tag)

        def parameterize(self, out, r, th):
            return out + _extra(self.tag, (r, th))

    class TagFix3(BaseCondition):
        def __init__(self, tag):
            super().__init__(); self.tag = float(tag)

        def parameterize(self, out, r, th, ph):
            return out + _extra(self.tag, (r, th, ph))

    class TagEnf2(BaseCondition):         # overrides enforce with a fixed arity
        def __init__(self, tag):
            super().__init__(); self.tag = float(tag)

        def enforce(self, net, r, th):
            return net(torch.cat([r, th], dim=1)) + _extra(self.tag, (r, th))

    class TagEnfVar(BaseCondition):       # overrides enforce, variadic
        def __init__(self, tag):
            super().__init__(); self.tag = float(tag)

        def enforce(self, net, *coords):
            return net(torch.cat(coords, dim=1)) + _extra(self.tag, coords)

    class _Sub:                          # a sub-object of a condition (like the members of an EnsembleCondition)
        def __init__(self, tag):
            self.tag = float(tag)

    class TagNestList(BaseCondition):    # the tag lives in a LIST attribute
        def __init__(self, tag):
            super().__init__(); self.parts = [float(tag)]
        tag = property(lambda self: self.parts[0])

        def set_tag(self, t):
            self.parts[0] = float(t)         # in-place mutation one level below the condition object

        def parameterize(self, out, *coords):
            return out + _extra(self.parts[0], coords)

    class TagNestDict(BaseCondition):    # ... in a DICT attribute (like bundle_param_lookup)
        def __init__(self, tag):
            super().__init__(); self.table = {'tag': float(tag)}
        tag = property(lambda self: self.table['tag'])

        def set_tag(self, t):
            self.table['tag'] = float(t)

        def parameterize(self, out, *coords):
            return out + _extra(self.table['tag'], coords)

    class TagNestSub(BaseCondition):     # ... in a sub-object
        def __init__(self, tag):
            super().__init__(); self.sub = _Sub(tag)
        tag = property(lambda self: self.sub.tag)

        def set_tag(self, t):
            self.sub.tag = float(t)

        def parameterize(self, out, *coords):
            return out + _extra(self.sub.tag, coords)

    class ScriptedClosureOpt(torch.optim.Optimizer):
        """requires a closure; evaluates it a scripted number of times, taking a plain gradient
        step of size lr after every evaluation"""

        def __init__(self, params, lr, counts, log=None):
            super().__init__(params, dict(lr=lr))
            self.counts = list(counts)
            self.log = log

        def step(self, closure):
            c = self.counts.pop(0) if self.counts else 1
            for _ in range(c):
                closure()
                with torch.no_grad():
                    for gr in self.param_groups:
                        for p in gr['params']:
                            if p.grad is not None:
                                p.add_(p.grad, alpha=-gr['lr'])

    comp = dict(ToyNet=ToyNet, TagVar=TagVar, TagFix1=TagFix1, TagFix2=TagFix2, TagFix3=TagFix3, TagEnf2=TagEnf2,
                TagEnfVar=TagEnfVar, NoCondition=NoCondition, TagNestList=TagNestList, TagNestDict=TagNestDict, TagNestSub=TagNestSub, ScriptedClosureOpt=ScriptedClosureOpt)
    _T['comp'] = comp
    return comp


COND_KINDS = {   # kind -> (class name, signature as the model sees it, coef)
    'var': ('TagVar', 'var', 1), 'fix1': ('TagFix1', 1, 1), 'fix2': ('TagFix2', 2, 1), 'fix3': ('TagFix3', 3, 1),
    'enf2': ('TagEnf2', 2, 1), 'enfvar': ('TagEnfVar', 'var', 1), 'none': ('NoCondition', 'var', 0),
    # variadic tagging conditions whose tag is NESTED mutable state (list / dict / sub-object), mutated in place by set_conds
    'nlist': ('TagNestList', 'var', 1), 'ndict': ('TagNestDict', 'var', 1), 'nsub': ('TagNestSub', 'var', 1),
}


def cond_model(c):
    """scenario condition {'kind','tag'} -> model record {'tag','coef','sig'}"""
    _, sig, coef = COND_KINDS[c['kind']]
    return {'tag': c['tag'] if coef else 0, 'coef': coef, 'sig': sig}


class SpyGenerator:
    """scripted integer batches that change on every draw; counts draws; logs ('draw', phase, k)"""

    def __init__(self, phase, script, log, ncoords, rec, kind=None):
        self.phase, self.script, self.log, self.rec = phase, script, log, rec
        self.size = len(script[0][0]) if script else 1
        self.k = 0
        self.ncoords = ncoords
        # kind: None = fresh leaf tensors; 'index' = the scripted values come out of an INDEXING operation, so they carry autograd
        # history (like ResampleGenerator / BatchGenerator / FilterGenerator outputs); 'resample' | 'batch' | 'filter' = the real
        # library generator over a Generator1D (random values: recorded, compared by trace and by the oracle)
        self.kind = kind
        self.inner = None
        if kind in ('resample', 'batch', 'filter'):
            import neurodiffeq.generators as GN
            base = GN.Generator1D(6, 0.0, 1.0, method='uniform')
            self.inner = {'resample': lambda: GN.ResampleGenerator(base), 'batch': lambda: GN.BatchGenerator(base, batch_size=4),
                          'filter': lambda: GN.FilterGenerator(base, filter_fn=lambda xs: xs[0] >= 0.25)}[kind]()

    def get_examples(self):
        torch = _torch()
        if self.inner is not None:
            out = self.inner.get_examples()
            outs = [out] if isinstance(out, torch.Tensor) else list(out)
            b = [[float(x) for x in o.detach().reshape(-1)] for o in outs]
            self.log.append(('draw', self.phase, self.k))
            self.rec['last_draw'] = (self.phase, self.k)
            self.rec['draws'][self.phase].append(b)
            self.k += 1
            return out
        b = self.script[self.k % len(self.script)]
        self.log.append(('draw', self.phase, self.k))
        self.rec['last_draw'] = (self.phase, self.k)
        self.rec['draws'][self.phase].append([list(c) for c in b])
        self.k += 1
        cols = [torch.tensor([float(x) for x in c], requires_grad=True) for c in b]
        if self.kind == 'index':
            cols = [c[torch.arange(len(c))] for c in cols]          # same values, but non-leaf tensors with a grad_fn
        return cols[0] if (len(cols) == 1 and self.k % 2 == 0) else cols     # a bare tensor is accepted too


def build_optimizer(spec, params, log, rec=None):
    torch = _torch()
    comp = make_components()
    kind = spec['kind']
    if kind == 'sgd':
        opt = torch.optim.SGD(params, lr=spec['lr'])
    elif kind == 'script':
        opt = comp['ScriptedClosureOpt'](params, lr=spec['lr'], counts=spec['counts'])
    elif kind == 'adam':
        opt = torch.optim.Adam(params, lr=spec.get('lr', 0.125))
    elif kind == 'lbfgs':
        opt = torch.optim.LBFGS(params, lr=spec.get('lr', 0.5), max_iter=spec.get('max_iter', 3))
    else:
        raise ValueError(kind)
    # spy on zero_grad / step through the instance (public attributes of a user-supplied object)
    zg, st = opt.zero_grad, opt.step

    def zero_grad(*a, **k):
        log.append(('zero',))
        return zg(*a, **k)

    def _w():
        return [float(p.detach()) for p in params]

    def _g():
        return [None if p.grad is None else float(p.grad) for p in params]

    def step(closure=None):
        log.append(('cstep',) if closure is not None else ('step',))
        before, grads = _w(), _g()
        out = st(closure) if closure is not None else st()
        if rec is not None:
            rec['steps'].append({'kind': kind, 'lr': spec.get('lr'), 'w_before': before, 'grad': grads, 'w_after': _w(),
                                 'n_log': len(log)})
        return out
    if kind in ('script', 'lbfgs'):
        def step(closure):          # keep `closure` a required parameter: _requires_closure inspects the signature
            log.append(('cstep',))
            before = _w()
            out = st(closure)
            if rec is not None:
                rec['steps'].append({'kind': kind, 'lr': spec.get('lr'), 'w_before': before, 'grad': _g(), 'w_after': _w(),
                                     'n_log': len(log)})
            return out
    opt.zero_grad, opt.step = zero_grad, step
    return opt


def make_loss(lid, spec_form, log, script=None):
    """lid 0,1,2: callables;  lid 3: None / 'l2' / MSELoss object (spec_form chooses);  lid 5: a callable returning SCRIPTED
    float64 values, one per call (to drive best-model tracking with improvements of any relative size, down to 1 ulp)"""
    torch = _torch()
    if lid == 5:
        state = {'k': 0}

        def scripted(r, f, x):
            v = script[state['k'] % len(script)]
            state['k'] += 1
            return r.sum() * 0 + torch.tensor(float(v), dtype=torch.float64)
        return scripted
    if lid == 3:
        return {'none': None, 'name': 'l2', 'obj': torch.nn.MSELoss()}[spec_form]
    if lid == 4:     # inexact family, event trace + tolerance only
        return {'none': 'l1', 'name': 'L1', 'obj': torch.nn.L1Loss()}[spec_form]

    def loss(r, f, x):
        log.append(('loss', lid, len(f), len(x), tuple(r.shape)))
        if lid == 0:
            return r.sum() + 3 * sum((i + 1) * fi.sum() for i, fi in enumerate(f)) + 5 * sum((j + 1) * c.sum() for j, c in enumerate(x))
        if lid == 1:
            return 2 * r.sum() + f[0].sum()
        return (r ** 2).sum()
    return loss


class Runner:
    """Runs one scenario on the real solver classes and records the observations."""

    def __init__(self, sc):
        self.sc = sc
        self.log = []           # spy event log
        self.rec = {'draws': {'train': [], 'valid': []}, 'last_draw': None, 'evals': [], 'metric_calls': [], 'epochs': [],
                    'fits': [], 'outs': [], 'errors': [], 'steps': [], 'loss_calls': [], 'acts': {}}
        self.solutions = []
        self.cur_lid = sc['lid']
        self.in_residuals = False
        self.real_cbs = {}
        self.monitors = []

    # ---- construction through the public constructor
    def build(self):
        torch = _torch()
        comp = make_components()
        import neurodiffeq.solvers as S
        sc = self.sc
        cfg = sc['cfg']
        self.nets_u = [comp['ToyNet'](w, k) for w, k in zip(sc['w0'], cfg['kappa'])]
        nets = [self.nets_u[k] for k in cfg['netof']]
        import torch.nn as _nn
        self.kparam = _nn.Parameter(torch.tensor(float(sc['extra_k']))) if cfg.get('extra_k') else None
        self.conds = []
        for c in sc['conds']:
            cname = COND_KINDS[c['kind']][0]
            self.conds.append(comp['NoCondition']() if cname == 'NoCondition' else comp[cname](c['tag']))
        ncoords = sc['ncoords']
        self.gen = {'train': SpyGenerator('train', sc['train_script'], self.log, ncoords, self.rec, sc.get('gen_kind')),
                    'valid': SpyGenerator('valid', sc['valid_script'], self.log, ncoords, self.rec, sc.get('gen_kind'))}
        runner = self

        def eqs(*args):
            if runner.in_residuals:          # called by get_residuals, not by an epoch
                n_eq = cfg['neq']
                return [sum(PRIMES[8 * e + pos] * a for pos, a in enumerate(args)) + (59 * runner.kparam if runner.kparam is not None else 0)
                        for e in range(n_eq)]
            ph, k = runner.rec['last_draw']
            runner.log.append(('eval', ph, k))
            runner.rec['evals'].append({'phase': ph, 'k': k, 'nargs': len(args), 'w': runner.weights(),
                                        'args': [[float(v) for v in a.detach().reshape(-1)] for a in args],
                                        'shapes': [tuple(a.shape) for a in args]})
            n_eq = cfg['neq']
            return [sum(PRIMES[8 * e + pos] * a for pos, a in enumerate(args)) + (59 * runner.kparam if runner.kparam is not None else 0)
                    for e in range(n_eq)]
        self.eqs = eqs

        def mk_metric(i):
            special = (sc.get('metric_special') or {}).get(str(i))
            count = [0]

            def metric(*args):
                v = sum((100 * (i + 1) + pos + 1) * a.sum() for pos, a in enumerate(args))
                if special:          # scripted undefined / degenerate values: nan, inf, zero, negative
                    tag = special[count[0] % len(special)]
                    count[0] += 1
                    if tag is not None:
                        v = torch.tensor({'nan': float('nan'), 'inf': float('inf'), 'zero': 0.0, 'neg': -3.5}[tag])
                runner.rec['metric_calls'].append({'i': i, 'draw': runner.rec['last_draw'], 'nargs': len(args), 'value': float(v)})
                return v
            return metric
        metrics = {f'm{i}': mk_metric(i) for i in range(sc['nmetrics'])}
        params = [n.w for n in self.nets_u] + ([self.kparam] if self.kparam is not None else [])
        self.params = params
        opt = build_optimizer(sc['opt'], params, self.log, self.rec)
        loss = make_loss(sc['lid'], sc.get('loss_form', 'none'), self.log, sc.get('loss_script'))
        base = {'Generic': S.GenericSolver, 'S1D': S.Solver1D, 'Bundle': S.BundleSolver1D, 'S2D': S.Solver2D,
                'Spherical': S.SolverSpherical}[cfg['cls']]
        if cfg['ext']:
            def additional_loss(self_, residual, funcs, coords):
                return 7 * funcs[0].sum() + 11 * coords[0].sum()
            base = type('Ext' + base.__name__, (base,), {'additional_loss': additional_loss})
        kw = dict(conditions=self.conds, nets=nets, train_generator=self.gen['train'], valid_generator=self.gen['valid'],
                  optimizer=opt, loss_fn=loss, n_batches_train=sc['nbt'], n_batches_valid=sc['nbv'],
                  metrics=metrics if metrics else None)
        with warnings.catch_warnings():
            warnings.simplefilter('ignore')
            if cfg['cls'] == 'Generic':
                self.solver = base(diff_eqs=eqs, n_input_units=ncoords, n_output_units=1, **kw)
            elif cfg['cls'] == 'S1D':
                self.solver = base(ode_system=eqs, **kw)
            elif cfg['cls'] == 'Bundle':
                self.solver = base(ode_system=eqs, t_min=None, t_max=None, eq_param_index=tuple(cfg['idx']), **kw)
            elif cfg['cls'] == 'S2D':
                self.solver = base(pde_system=eqs, **kw)
            else:
                self.solver = base(pde_system=eqs, **kw)
        return self.solver

    def weights(self):
        return [float(p.detach()) for p in self.params]

    def best_weights(self):
        bn = self.solver.best_nets
        if bn is None:
            return None
        # best_nets is a list parallel to nets (deep copy keeps sharing): report one weight per distinct net
        out = [None] * len(self.nets_u)
        for i, k in enumerate(self.sc['cfg']['netof']):
            out[k] = float(bn[i].w.detach())
        return out

    def best_kappas(self):
        bn = self.solver.best_nets
        if bn is None:
            return None
        out = [None] * len(self.nets_u)
        for i, k in enumerate(self.sc['cfg']['netof']):
            out[k] = float(bn[i].kappa)
        return out

    # ---- scripted callbacks
    def make_callback(self, fi, ci, script):
        """script: list of {'when': local_epoch or None (= every epoch), 'act': action dict}"""
        runner = self

        def cb(solver):
            runner.log.append(('cb', ci))
            for item in script:
                if item['when'] is None or item['when'] == solver.local_epoch:
                    runner.do_action(item['act'], in_callback=True, fi=fi)
        return cb

    def real_callback(self, act):
        """REAL neurodiffeq.callbacks objects under a real PeriodLocal / OnFirstLocal condition (one object per scripted item,
        so e.g. the `called` flag of SetLossFn lives as long as the fit call's callback).
        Modelled effect sets: SetLossFn -> loss function only; SetOptimizer -> optimiser only; StopCallback -> stop flag only;
        MonitorCallback (MetricsMonitor / Monitor1D), ReportCallback -> NOTHING."""
        key = id(act)
        if key not in self.real_cbs:
            import neurodiffeq.callbacks as CB
            kind = act['kind']
            c = act.get('cond') or {'type': 'period', 'period': 1, 'offset': 0}
            cond = CB.OnFirstLocal() if c['type'] == 'first' else CB.PeriodLocal(period=c['period'], offset=c['offset'])
            if kind == 'real_set_loss':
                inner = CB.SetLossFn(make_loss(act['lid'], 'none', self.log), reset=act['reset'])
            elif kind == 'real_set_opt':
                inner = CB.SetOptimizer(build_optimizer(act['opt'], self.params, self.log, self.rec), reset=act['reset'])
            elif kind == 'real_stop':
                inner = CB.StopCallback()
            elif kind == 'real_report':
                inner = CB.ReportCallback()
            elif kind == 'real_monitor':
                import matplotlib
                matplotlib.use('Agg')
                import neurodiffeq.monitors as M
                mon = M.Monitor1D(t_min=-1.0, t_max=1.0, check_every=act['check_every']) if act['which'] == '1d' \
                    else M.MetricsMonitor(check_every=act['check_every'])
                self.monitors.append(mon)
                if act['which'] == 'to_callback':
                    self.real_cbs[key] = (mon.to_callback(), None, None)        # PeriodLocal(check_every) | OnLastLocal()
                    return self.real_cbs[key]
                inner = CB.MonitorCallback(mon)
            else:
                raise ValueError(kind)
            self.real_cbs[key] = (inner.conditioned_on(cond), inner, cond)
        return self.real_cbs[key]

    def snapshot(self, fi):
        s = self.solver
        mh = s.metrics_history
        return {'fit': fi, 'w': self.weights(), 'best': self.best_weights(), 'lowest': s.lowest_loss,
                'local': s.local_epoch, 'global': s.global_epoch, 'nvalid': len(mh['valid_loss']),
                'stop': bool(s._stop_training), 'max_local': s._max_local_epoch,
                'nb': dict(s.n_batches), 'n_log': len(self.log), 'n_mcalls': len(self.rec['metric_calls']),
                'n_evals': len(self.rec['evals']), 'closure': bool(_requires_closure(s.optimizer)),
                'kappa': [float(n_.kappa) for n_ in self.nets_u], 'best_kappa': self.best_kappas(),
                'n_steps': len(self.rec['steps']), 'trainable': [bool(p.requires_grad) for p in self.params], 'lid': self.cur_lid, 'tags': [getattr(c, 'tag', 0.0) for c in self.solver.conditions],
                'lens': {k: len(v) for k, v in mh.items()},
                'ndraw': {'train': self.gen['train'].k, 'valid': self.gen['valid'].k}}

    def do_action(self, act, in_callback=False, fi=None):
        torch = _torch()
        s = self.solver
        kind = act['kind']
        if kind == 'set_nb':
            s.n_batches[act['phase']] = act['n']
        elif kind == 'set_loss':
            s._set_loss_fn(make_loss(act['lid'], act.get('loss_form', 'none'), self.log))
            self.cur_lid = act['lid']
        elif kind == 'set_opt':
            s.optimizer = build_optimizer(act['opt'], self.params, self.log, self.rec)
        elif kind == 'stop':
            s._stop_training = True
        elif kind == 'set_theta':
            with torch.no_grad():
                for p, v in zip(self.params, act['w']):
                    p.copy_(torch.tensor(float(v)))
        elif kind == 'set_conds':
            for c, t in zip(s.conditions, act['tags']):
                if hasattr(c, 'set_tag'):
                    c.set_tag(t)                 # nested state, mutated in place
                elif hasattr(c, 'tag'):
                    c.tag = float(t)
        elif kind in ('real_set_loss', 'real_set_opt'):
            cb, inner, cond = self.real_callback(act)
            fires = bool(cond.condition(s)) and (inner.reset or not inner.called)
            cb(s)
            if fires and kind == 'real_set_loss':
                self.cur_lid = act['lid']
        elif kind in ('real_stop', 'real_report', 'real_monitor'):
            cb = self.real_callback(act)[0]
            with warnings.catch_warnings():
                warnings.simplefilter('ignore')
                cb(s)
        elif kind == 'rebind_net':
            # solver.nets[i] = <a NEW network object> for every unknown that uses net k, and a fresh optimiser over the new parameters
            comp = make_components()
            k = act['net']
            new = comp['ToyNet'](act['w'], self.sc['cfg']['kappa'][k])
            self.nets_u[k] = new
            self.params[k] = new.w              # the list the spies and the optimiser builder read, updated in place
            for i, kk in enumerate(self.sc['cfg']['netof']):
                if kk == k:
                    s.nets[i] = new
            s.optimizer = build_optimizer(act['opt'], self.params, self.log, self.rec)
        elif kind == 'rebind_cond':
            comp = make_components()
            i = act['i']
            cname = COND_KINDS[self.sc['conds'][i]['kind']][0]
            if cname != 'NoCondition':
                s.conditions[i] = comp[cname](act['tag'])          # self.conds IS solver.conditions
        elif kind == 'get_internals':
            s.get_internals('all')
        elif kind == 'set_kappa':
            # state of a network OUTSIDE its state_dict: the plain Python attribute `kappa` used in forward, changed in place
            for n_, kv in zip(self.nets_u, act['kappa']):
                n_.kappa = float(kv)
        elif kind == 'record':
            self.rec['epochs'].append(self.snapshot(fi))
        else:
            raise ValueError(kind)

    # ---- ops
    def run(self):
        torch = _torch()
        import numpy as np
        self.build()
        self.rec['init'] = self.snapshot(None)
        for oi, op in enumerate(self.sc['ops']):
            k = op['op']
            if k == 'fit':
                objs = [self.make_callback(oi, ci, script) for ci, script in enumerate(op['cbs'])]
                # the SAME callback object may be listed several times; the list may also be handed over as a tuple
                cbs = [objs[i] for i in op.get('cb_order', range(len(objs)))]
                if op.get('cb_container') == 'tuple':
                    cbs = tuple(cbs)
                pre = self.snapshot(oi)
                with warnings.catch_warnings():
                    warnings.simplefilter('ignore')
                    self.solver.fit(op['max_epochs'], callbacks=cbs, tqdm_file=None)
                post = self.snapshot(oi)
                self.rec['fits'].append({'op': oi, 'max_epochs': op['max_epochs'], 'pre': pre, 'post': post,
                                         'ncbs': len(cbs), 'cb_ids': [int(i) for i in op.get('cb_order', range(len(objs)))]})
            elif k == 'act':
                self.do_action(op['act'])
                self.rec['acts'][oi] = {'w': self.weights(), 'tags': [getattr(c, 'tag', 0.0) for c in self.solver.conditions]}
            elif k == 'get_solution':
                state = {'w': self.weights(), 'best': self.best_weights(), 'tags': [getattr(c, 'tag', 0.0) for c in self.solver.conditions]}
                try:
                    with warnings.catch_warnings():
                        warnings.simplefilter('ignore')
                        if op.get('harmonics'):
                            sol = self.solver.get_solution(copy=op['copy'], best=op['best'], harmonics_fn=toy_harmonics)
                        else:
                            sol = self.solver.get_solution(copy=op['copy'], best=op['best'])
                    self.solutions.append(sol)
                    shared = []
                    if op['copy']:          # aliasing probe: a copy shares no mutable object with the solver
                        mine = mutable_reachable([sol.nets, sol.conditions])
                        theirs = mutable_reachable([self.solver.nets, self.solver.conditions, self.solver.best_nets])
                        shared = sorted({type(mine[i]).__name__ for i in mine if i in theirs})
                    self.rec['outs'].append(dict(state, op=oi, kind='get_solution', ok=True, cls=type(sol).__name__, shared=shared))
                except RuntimeError as e:
                    self.solutions.append(None)
                    self.rec['outs'].append(dict(state, op=oi, kind='get_solution', ok=False, error='RuntimeError'))
            elif k == 'get_solution_single':
                # BaseSolution's public constructor with a SINGLE nn.Module: replicated once per condition (live objects)
                state = {'w': self.weights(), 'best': self.best_weights(), 'tags': [getattr(c, 'tag', 0.0) for c in self.solver.conditions]}
                with warnings.catch_warnings():
                    warnings.simplefilter('ignore')
                    klass = type(self.solver.get_solution(copy=False, best=False))
                self.solutions.append(klass(self.nets_u[0], self.conds))
                self.rec['outs'].append(dict(state, op=oi, kind='get_solution', ok=True, cls=klass.__name__))
            elif k in ('eval', 'residuals'):
                shapes = [tuple(s) for s in op.get('shapes', [op['shape']] * len(op['coords']))]
                arrs = [np.array([float(x) for x in c], dtype=np.float64).reshape(sh) for c, sh in zip(op['coords'], shapes)]
                lay = op.get('layout', 'contig')

                def relayout(a):
                    """the same logical array in a non-contiguous memory layout (rank-2 only)"""
                    if a.ndim != 2 or lay == 'contig':
                        return a
                    if lay == 'transpose':
                        return np.ascontiguousarray(a.T).T                 # Fortran order
                    big = np.zeros((a.shape[0], 2 * a.shape[1]))
                    big[:, ::2] = a
                    return big[:, ::2]                                      # strided view
                if op['as'] == 'tensor':
                    if lay == 'contig':
                        args = [torch.tensor(a) for a in arrs]
                    elif lay == 'transpose':
                        args = [torch.tensor(np.ascontiguousarray(a.T)).T if a.ndim == 2 else torch.tensor(a) for a in arrs]
                    else:
                        args = [torch.from_numpy(np.ascontiguousarray(relayout(a).base))[:, ::2] if a.ndim == 2 else torch.tensor(a) for a in arrs]
                else:
                    args = [relayout(a) for a in arrs]
                rec = {'op': oi, 'kind': k}
                try:
                    with warnings.catch_warnings():
                        warnings.simplefilter('ignore')
                        if k == 'eval':
                            sol = self.solutions[op['sol']]
                            if sol is None:
                                rec.update(ok=False, error='NoSolution')
                                self.rec['outs'].append(rec)
                                continue
                            out = sol(*args, to_numpy=op['to_numpy'], no_reshape=op['no_reshape'])
                        else:
                            self.in_residuals = True
                            try:
                                out = self.solver.get_residuals(*args, to_numpy=op['to_numpy'], best=op['best'],
                                                                no_reshape=op['no_reshape'])
                            finally:
                                self.in_residuals = False
                    many = isinstance(out, (list, tuple))
                    outs = list(out) if many else [out]
                    rec.update(ok=True, many=many,
                               types=['ndarray' if isinstance(o, np.ndarray) else ('tensor' if isinstance(o, torch.Tensor) else type(o).__name__) for o in outs],
                               shapes=[tuple(o.shape) for o in outs],
                               values=[[float(v) for v in (o.detach().reshape(-1) if isinstance(o, torch.Tensor) else o.reshape(-1))] for o in outs],
                               w_now=self.weights(), best_now=self.best_weights(),
                               tags_now=[getattr(c, 'tag', 0.0) for c in self.solver.conditions])
                except Exception as e:      # canonicalised
                    rec.update(ok=False, error=type(e).__name__, detail=str(e)[:200])
                self.rec['outs'].append(rec)
            else:
                raise ValueError(k)
        s = self.solver
        if self.monitors:
            import matplotlib.pyplot as plt
            plt.close('all')
        self.rec['final'] = self.snapshot(None)
        self.rec['history'] = {k: list(v) for k, v in s.metrics_history.items()}
        self.rec['log'] = list(self.log)
        return self.rec


def run_scenario(sc):
    return Runner(copy.deepcopy(sc)).run()


# =====================================================================================================
# 3. Coq term writer: the same scenario computed by the executable model (coq/model/Solver.v, Toy)
# =====================================================================================================

PREAMBLE = ('From Coq Require Import List Arith Bool ZArith QArith.\n'
            'From ND.model Require Import Solver.\n'
            'Import ListNotations. Import Toy.\n'
            'Local Close Scope Q_scope.\n')


def cq(x):
    fr = F(x)
    return f'(Qmake ({fr.numerator}) {fr.denominator})'


def clist(items, ty=None):
    items = list(items)
    if not items:
        return f'(@nil {ty})' if ty else '[]'
    return '[' + '; '.join(items) + ']'


def cqs(xs):
    return clist([cq(x) for x in xs], 'Q')


def cqss(xss):
    return clist([cqs(xs) for xs in xss], '(list Q)')


def cnats(xs):
    return clist([str(int(x)) for x in xs], 'nat')


def cbool(b):
    return 'true' if b else 'false'


def coq(x):
    return 'None' if x is None else f'(Some {cq(x)})'


def coqs(xs):
    return 'None' if xs is None else f'(Some {cqs(xs)})'


def cphase(p):
    return 'Train' if p == 'train' else 'Valid'


def ccls(c):
    return c


def ccond(c):
    m = cond_model(c)
    sig = 'SigVariadic' if m['sig'] == 'var' else f'(SigFixed {m["sig"]})'
    return f'(mkCond ({int(m["tag"])})%Z ({int(m["coef"])})%Z {sig})'


def cconds(cs):
    return clist([ccond(c) for c in cs], 'cond')


def copt(o):
    if o['kind'] in ('sgd', 'adam'):
        return f'(TSgd {cq(o.get("lr", 0.125))})'
    return f'(TScript {cq(o.get("lr", 0.5))} {cnats(o.get("counts", []))})'


def ccfg(sc):
    cfg = sc['cfg']
    kap = '[' + '; '.join(f'({int(k)})' for k in cfg['kappa']) + ']%Z'
    return (f'(mkCfg {cfg["cls"]} {len(cfg["kappa"])} {kap} {cnats(cfg["netof"])} {cfg["neq"]} '
            f'{cnats(cfg["idx"])} {cbool(cfg["ext"])})')


def caction(a, sc):
    k = a['kind']
    if k == 'rebind_net':
        raise ValueError('rebind_net expands to two actions (see cactions)')
    if k == 'set_nb':
        return f'(ASetNb {cphase(a["phase"])} {a["n"]})'
    if k == 'set_loss':
        return f'(ASetLoss {a["lid"]})'
    if k == 'set_opt':
        return f'(ASetOpt {copt(a["opt"])})'
    if k == 'stop':
        return 'AStop'
    if k == 'set_theta':
        return f'(ASetTheta {cqs(a["w"])})'
    if k == 'set_conds':
        cs = [dict(c, tag=t) for c, t in zip(sc['conds'], a['tags'])]
        return f'(ASetConds {cconds(cs)})'
    if k == 'record':
        return 'ARecord'
    raise ValueError(k)


def cactions(a, sc, after=None):
    """the model actions of one user action (rebinding a network slot = new parameters for that net + a fresh optimiser;
    rebinding a condition slot = new condition parameters; calls that only read the solver = nothing)"""
    k = a['kind']
    if k == 'rebind_net':
        return [f'(ASetTheta {cqs(after["w"])})', f'(ASetOpt {copt(a["opt"])})']
    if k == 'rebind_cond':
        cs = [dict(c, tag=t) for c, t in zip(sc['conds'], after['tags'])]
        return [f'(ASetConds {cconds(cs)})']
    if k in ('get_internals', 'real_report', 'real_monitor'):
        return []
    return [caction(a, sc)]


def real_cond(act):
    """when the real conditioned callback performs its action, as a Coq boolean over the local epoch"""
    c = act['cond']
    if c['type'] == 'first':
        fire = 'Nat.eqb (local_epoch s) 1'
        first = 1
    else:
        k, o = c['period'], c['offset'] % c['period']
        fire = f'Nat.eqb (Nat.modulo (local_epoch s) {k}) {o}'
        first = o if o >= 1 else k
    if not act['reset']:            # SetLossFn / SetOptimizer act only the first time (their `called` flag)
        fire = f'Nat.eqb (local_epoch s) {first}'
    return fire


def ccallback(script, sc):
    parts = []
    for item in script:
        if item['act']['kind'] in ('real_set_loss', 'real_set_opt', 'real_stop'):
            a = item['act']
            inner = {'real_set_loss': lambda: f'(ASetLoss {a["lid"]})', 'real_set_opt': lambda: f'(ASetOpt {copt(a["opt"])})',
                     'real_stop': lambda: 'AStop'}[a['kind']]()
            parts.append(f'(if {real_cond(dict(a, reset=a.get("reset", True)))} then ([{inner}] : list t_action) else (@nil t_action))')
            continue
        if item['act']['kind'] in ('real_report', 'real_monitor', 'get_internals'):
            continue            # modelled effect: none
        act = f'([{caction(item["act"], sc)}] : list t_action)'
        if item['when'] is None:
            parts.append(act)
        else:
            parts.append(f'(if Nat.eqb (local_epoch s) {item["when"]} then {act} else (@nil t_action))')
    body = ' ++ '.join(parts) if parts else '(@nil t_action)'
    return f'((fun s : t_state => {body}) : t_callback)'


def cevent(e):
    k = e[0]
    if k == 'draw':
        return f'EvDraw {cphase(e[1])} {e[2]}'
    if k == 'eval':
        return f'EvEval {cphase(e[1])} {e[2]}'
    return {'zero': 'EvZero', 'step': 'EvStep', 'cstep': 'EvCStep'}.get(k) or f'EvCb {e[1]}'


def ctensor(shape, data):
    return f'(mkTensor {cnats(shape)} {cqs(data)})'


def csnap_args(sn):
    return (f'{cqs(sn["w"])} {coqs(sn["best"])} {coq(sn["lowest"])} {sn["local"]} {sn["global"]} {sn["nvalid"]} '
            f'{cbool(sn["stop"])}')


def csnap_disc(sn):
    return f'{sn["local"]} {sn["global"]} {sn["nvalid"]} {cbool(sn["stop"])}'


def model_opt_for_inexact(sc, rec):
    """Adam / LBFGS runs: the model is driven with an optimiser of the same KIND whose closure
    evaluation counts are the ones the spy saw (event traces only are compared)."""
    counts, cur = [], None
    for e in rec['log']:
        if e[0] == 'cstep':
            if cur is not None:
                counts.append(cur)
            cur = 0
        elif e[0] == 'eval' and e[1] == 'train' and cur is not None:
            cur += 1
        elif e[0] in ('draw',) and cur is not None:
            counts.append(cur); cur = None
    if cur is not None:
        counts.append(cur)
    return counts


def sig_bits(x):
    """number of significant binary digits of a float (0 for 0.0)"""
    fr = F(x)
    n = abs(fr.numerator)
    while n and n % 2 == 0:
        n //= 2
    return n.bit_length()


def too_big(rec):
    """True if the run left the range in which float64 arithmetic on the toy values is exact: a magnitude above
    2^40, or a WEIGHT that needs more than 44 significant bits (weights feed back into every later value; a weight
    with a full mantissa has been rounded).  Such runs are discarded from the exact comparison and counted."""
    def big(x):
        return x is not None and (not math.isfinite(x) or abs(x) >= BIG)
    for sn in rec['epochs'] + [rec['final']]:
        if any(sig_bits(x) > 44 for x in sn['w']) or (sn['best'] and any(sig_bits(x) > 44 for x in sn['best'])):
            return True
    for st in rec['steps']:
        if any(sig_bits(x) > 44 for x in st['w_after']):
            return True
    for k, v in rec['history'].items():
        if any(big(x) for x in v):
            return True
    for sn in rec['epochs'] + [rec['final']]:
        if any(big(x) for x in sn['w']) or big(sn['lowest']):
            return True
    for o in rec['outs']:
        for vs in o.get('values', []):
            if any(big(x) for x in vs):
                return True
    for ev in rec['evals']:
        if any(big(x) for a in ev['args'] for x in a):
            return True
    return False


def coq_case(sc, rec, exact=True):
    """-> (prefix, [(name, bool_expr)]): `prefix` binds cfg, streams and the state after every op."""
    nm = sc['nmetrics']
    sc1 = copy.deepcopy(sc)
    sc1['cfg']['netof'] = [0] * len(sc['conds'])
    sol_cfg = []
    lets = [f'let cfg := {ccfg(sc)} in', f'let cfg1 := {ccfg(sc1)} in', f'let nm := {nm} in',
            'let trs := ' + clist([cqss(b) for b in rec['draws']['train']], '(list (list Q))') + ' in',
            'let vas := ' + clist([cqss(b) for b in rec['draws']['valid']], '(list (list Q))') + ' in']
    opt0 = sc['opt']
    if not exact and opt0['kind'] == 'lbfgs':
        opt0 = {'kind': 'script', 'lr': 0.5, 'counts': model_opt_for_inexact(sc, rec)}
    lid0 = sc['lid'] if sc['lid'] <= 3 else 0
    lets.append(f'let s0 := t_init cfg nm {cqs(sc["w0"])} {copt(opt0)} {cconds(sc["conds"])} {lid0} {sc["nbt"]} {sc["nbv"]} in')
    checks = []
    cur = 's0'
    nsol = 0
    fit_i = 0
    outs = {o['op']: o for o in rec['outs']}
    for oi, op in enumerate(sc['ops']):
        k = op['op']
        if k == 'fit':
            nxt = f's{oi + 1}'
            cbl = [ccallback(script, sc) for script in op['cbs']]
            cbs = clist([cbl[i] for i in op.get('cb_order', range(len(cbl)))], 't_callback')
            lets.append(f'let {nxt} := t_fit cfg nm trs vas {op["max_epochs"]} {cbs} {cur} in')
            cur = nxt
            post = rec['fits'][fit_i]['post']
            fit_i += 1
            if exact:
                checks.append((f'post_fit{oi}', f'snap_close (snap {cur}) {csnap_args(post)}'))
            else:
                checks.append((f'post_fit{oi}', f'snap_discrete (snap {cur}) {csnap_disc(post)}'))
            checks.append((f'ctl_fit{oi}', f'Nat.eqb (max_local {cur}) {post["max_local"]} && Nat.eqb (cur_train {cur}) {post["ndraw"]["train"]} '
                                          f'&& Nat.eqb (cur_valid {cur}) {post["ndraw"]["valid"]} && Nat.eqb (nb_train {cur}) {post["nb"]["train"]} '
                                          f'&& Nat.eqb (nb_valid {cur}) {post["nb"]["valid"]}'))
        elif k == 'act':
            for j, ca in enumerate(cactions(op['act'], sc, rec['acts'].get(oi))):
                nxt = f's{oi + 1}_{j}'
                lets.append(f'let {nxt} := t_act {ca} {cur} in')
                cur = nxt
        elif k == 'get_solution':
            lets.append(f'let sol{nsol} := get_solution {cbool(op["copy"])} {cbool(op["best"])} {cur} in')
            ok = outs[oi]['ok']
            checks.append((f'get_solution{oi}', f'Bool.eqb (is_some sol{nsol}) {cbool(ok)}'))
            sol_cfg.append('cfg')
            nsol += 1
        elif k == 'get_solution_single':
            lets.append(f'let sol{nsol} := Some (@SolLive (list Q) (list cond)) in')
            sol_cfg.append('cfg1')
            nsol += 1
        elif k in ('eval', 'residuals'):
            o = outs[oi]
            shapes = [list(s) for s in op.get('shapes', [op['shape']] * len(op['coords']))]
            coords = clist([ctensor(sh, c) for sh, c in zip(shapes, op['coords'])], '(tensor Q)')
            if k == 'eval':
                call = f't_call_opt {sol_cfg[op["sol"]]} sol{op["sol"]} {cur} {coords} {cbool(op["no_reshape"])}'
            else:
                call = f't_get_residuals cfg {cbool(op["best"])} {cur} {coords} {cbool(op["no_reshape"])}'
            if not exact:
                continue
            if o['ok']:
                ts = [ctensor(sh, vs) for sh, vs in zip(o['shapes'], o['values'])]
                exp = f'(Some (Many {clist(ts, "(tensor Q)")}))' if o['many'] else f'(Some (One {ts[0]}))'
            else:
                exp = 'None'
            checks.append((f'{k}{oi}', f'out_close ({call}) {exp}'))
    fin = rec['final']
    H = rec['history']
    if exact:
        checks.append(('h_train', f'qs_close (h_train {cur}) {cqs(H["train_loss"])}'))
        checks.append(('h_valid', f'qs_close (h_valid {cur}) {cqs(H["valid_loss"])}'))
        if nm:
            checks.append(('m_train', f'qss_close (m_train {cur}) {cqss([H[f"train__m{i}"] for i in range(nm)])}'))
            checks.append(('m_valid', f'qss_close (m_valid {cur}) {cqss([H[f"valid__m{i}"] for i in range(nm)])}'))
        fs = clist([f'(fun a : snapshot (list Q) Q => snap_close a {csnap_args(sn)})' for sn in rec['epochs']],
                   '(snapshot (list Q) Q -> bool)')
    else:
        checks.append(('h_lengths', f'Nat.eqb (length (h_train {cur})) {len(H["train_loss"])} && Nat.eqb (length (h_valid {cur})) {len(H["valid_loss"])}'))
        if nm:
            checks.append(('m_lengths', f'nats_eqb (map (@length Q) (m_train {cur})) {cnats([len(H[f"train__m{i}"]) for i in range(nm)])} && '
                                        f'nats_eqb (map (@length Q) (m_valid {cur})) {cnats([len(H[f"valid__m{i}"]) for i in range(nm)])}'))
        fs = clist([f'(fun a : snapshot (list Q) Q => snap_discrete a {csnap_disc(sn)})' for sn in rec['epochs']],
                   '(snapshot (list Q) Q -> bool)')
    checks.append(('snaps', f'all2 (fun (a : snapshot (list Q) Q) (f : snapshot (list Q) Q -> bool) => f a) (snaps {cur}) {fs}'))
    # the spy logs WHICH callback object ran; the model logs the POSITION in the list handed to fit(): positions restart
    # after every epoch (the recorder is the last entry of every list, its snapshot marks the end of the epoch)
    ends = {sn['n_log'] for sn in rec['epochs']}
    evs, pos = [], 0
    for i, e in enumerate(rec['log']):
        if i in ends:
            pos = 0
        if e[0] == 'loss':
            continue
        if e[0] == 'cb':
            evs.append(f'EvCb {pos}')
            pos += 1
        else:
            evs.append(cevent(e))
    checks.append(('trace', f'events_eqb (spy_trace {cur}) {clist(evs, "event")}'))
    return '\n '.join(lets), checks


def case_expr(prefix, checks):
    return '(' + prefix + '\n ' + ' && '.join(f'({e})' for _, e in checks) + ')'


def diag_exprs(prefix, checks):
    """one expression per named check (for step_eval after a disagreement)"""
    return [f'({prefix}\n ({e}))' for _, e in checks]


# =====================================================================================================
# 4. scenario generator (every random choice from the rng handed in)
# =====================================================================================================

NCOORDS = {'S1D': 1, 'S2D': 2, 'Spherical': 3}


def _cond_kinds(cls, ncoords, r, variadic_spherical=True):
    if cls == 'Spherical':
        ks = ['fix1', 'fix2', 'fix3', 'enf2', 'fix3', 'fix3']
        if variadic_spherical:
            ks += ['var', 'none', 'enfvar', 'nlist', 'ndict', 'nsub']
        return ks
    ks = ['var', 'var', 'none', 'enfvar', 'nlist', 'ndict', 'nsub']
    if ncoords <= 3:
        ks.append(f'fix{ncoords}')
    if ncoords == 2:
        ks.append('enf2')
    return ks


def gen_batch(r, ncoords, npts, neutral=False, truncating=False):
    """neutral: sum over the rows of S(x) = 1 + sum_j (j+1) x_j is zero, so with kappa = 1 every linear toy loss
    has zero gradient on the batch (its value does not depend on the weights: ties while the weights move)"""
    if neutral and npts >= 2:
        cols = [[0] * npts for _ in range(ncoords)]
        for j in range(1, ncoords):
            a = r.randint(-2, 2)
            cols[j][0] = a
            cols[j][1] = -a if truncating else r.randint(-2, 2)     # truncating conditions see only leading columns
        rest = [r.randint(-2, 2) for _ in range(npts - 1)]
        other = sum((j + 1) * sum(cols[j]) for j in range(1, ncoords))
        cols[0] = rest + [-npts - other - sum(rest)]
        return cols
    return [[r.randint(-3, 3) for _ in range(npts)] for _ in range(ncoords)]


def gen_opt(r, kinds, exact=True):
    k = r.choice(kinds)
    if k == 'sgd':
        return {'kind': 'sgd', 'lr': r.choice([0.5, 0.25, 0.125, 0.0625])}
    if k == 'script':
        n = r.randint(3, 12)
        return {'kind': 'script', 'lr': r.choice([0.25, 0.125, 0.0625]),
                'counts': [r.choice([1, 1, 2, 2, 3, 0] if r.random() < 0.15 else [1, 2, 3, 1, 2]) for _ in range(n)]}
    if k == 'adam':
        return {'kind': 'adam', 'lr': 0.125}
    return {'kind': 'lbfgs', 'lr': 0.5, 'max_iter': r.randint(1, 4)}


def gen_action(r, sc, kinds):
    k = r.choice(kinds)
    if k == 'stop':
        return {'kind': 'stop'}
    if k == 'set_nb':
        ph = r.choice(['train', 'valid'])
        n = r.randint(0, 3) if (ph == 'valid' or r.random() < 0.15) else r.randint(1, 3)
        return {'kind': 'set_nb', 'phase': ph, 'n': n}
    if k == 'set_loss':
        return {'kind': 'set_loss', 'lid': r.choice([0, 1])}
    if k == 'set_opt':
        return {'kind': 'set_opt', 'opt': gen_opt(r, ['sgd', 'script'])}
    if k in ('real_set_loss', 'real_set_opt'):
        cond = {'type': 'first'} if r.random() < 0.3 else {'type': 'period', 'period': r.randint(1, 3), 'offset': r.randint(0, 2)}
        act = {'kind': k, 'reset': r.random() < 0.5, 'cond': cond}
        if k == 'real_set_loss':
            act['lid'] = r.choice([0, 1])
        else:
            act['opt'] = {'kind': 'sgd', 'lr': r.choice([0.5, 0.25, 0.125, 0.0625])}
        return act
    if k == 'real_stop':
        return {'kind': k, 'cond': {'type': 'period', 'period': r.randint(2, 4), 'offset': r.randint(0, 3)}}
    if k == 'real_report':
        return {'kind': k, 'cond': {'type': 'first'} if r.random() < 0.5 else {'type': 'period', 'period': r.randint(1, 2), 'offset': 0}}
    if k == 'real_monitor':
        which = r.choice(['metrics', 'to_callback'] + (['1d'] if sc['cfg']['cls'] == 'S1D' else []))
        return {'kind': k, 'which': which, 'check_every': r.randint(1, 3),
                'cond': {'type': 'period', 'period': r.randint(1, 3), 'offset': 0}}
    if k == 'rebind_net':
        return {'kind': k, 'net': r.randrange(len(sc['w0'])), 'w': r.randint(-8, 8) / 4, 'opt': gen_opt(r, ['sgd'])}
    if k == 'rebind_cond':
        return {'kind': k, 'i': r.randrange(len(sc['conds'])), 'tag': r.randint(-20, 20)}
    if k == 'get_internals':
        return {'kind': k}
    if k == 'set_kappa':
        return {'kind': k, 'kappa': [r.randint(-3, 3) for _ in sc['w0']]}
    if k == 'set_theta':
        return {'kind': 'set_theta', 'w': [r.randint(-8, 8) / 4 for _ in sc['w0']]}
    if k == 'set_conds':
        return {'kind': 'set_conds', 'tags': [r.randint(-20, 20) for _ in sc['conds']]}
    raise ValueError(k)


def gen_scenario(r, classes=CLASSES, opt_kinds=('sgd', 'script'), n_fits=(1, 4), max_epochs=(0, 6), nmetrics=(0, 2),
                 nbt=(1, 3), nbv=(0, 3), lids=(0, 1), cb_actions=('stop',), between_actions=(), sol_ops=False,
                 tie=False, variadic_spherical=True, max_total_epochs=None, recorder=True, dup_callbacks=False,
                 metric_special=False, ragged=False):
    cls = r.choice(list(classes))
    ntheta = r.randint(0, 3) if cls == 'Bundle' else 0
    ncoords = NCOORDS.get(cls) or (1 + ntheta if cls == 'Bundle' else r.randint(1, 3))
    nunk = r.randint(1, 3)
    if nunk > 1 and r.random() < 0.35:
        nw = r.randint(1, nunk - 1)
        netof = [r.randrange(nw) for _ in range(nunk)]
        for k in range(nw):                      # every net is used
            if k not in netof:
                netof[r.randrange(nunk)] = k
        nw = len(set(netof))
        remap = {k: i for i, k in enumerate(sorted(set(netof)))}
        netof = [remap[k] for k in netof]
    else:
        nw, netof = nunk, list(range(nunk))
    kappa = [1] * nw if tie else r.sample(range(-3, 4), nw)
    kinds = _cond_kinds(cls, ncoords, r, variadic_spherical)
    conds = [{'kind': r.choice(kinds), 'tag': 100 * (i + 1) + r.randint(0, 9)} for i in range(nunk)]
    idx = [r.randrange(ntheta) for _ in range(r.randint(0, 3))] if ntheta else []
    npts = r.randint(2, 3) if tie else r.randint(1, 3)
    lid = r.choice(list(lids))
    if lid == 3:
        npts = r.randint(1, 2)        # mean over n_points * n_eq entries: keep the divisor a power of two (exact in binary)
    if lid >= 2:
        max_total_epochs = 2 if max_total_epochs is None else min(2, max_total_epochs)
    if ragged:      # batches of DIFFERENT sizes inside one epoch (variable-size generators such as FilterGenerator)
        pool_t = [gen_batch(r, ncoords, r.randint(1, 4)) for _ in range(r.randint(3, 5))]
        pool_v = [gen_batch(r, ncoords, r.randint(1, 4)) for _ in range(r.randint(2, 4))]
    else:
        pool_t = [gen_batch(r, ncoords, npts) for _ in range(r.randint(2, 4))]
        pool_v = [gen_batch(r, ncoords, npts) for _ in range(r.randint(1, 3))]
    if tie:
        trunc = cls == 'Spherical'
        pool_v = [gen_batch(r, ncoords, npts, neutral=True, truncating=trunc) for _ in range(r.randint(1, 3))]
        if r.random() < 0.4:
            pool_v.append(gen_batch(r, ncoords, npts))
        pool_t += [gen_batch(r, ncoords, npts, neutral=True, truncating=trunc) for _ in range(r.randint(1, 2))]
    sc = {'cfg': {'cls': cls, 'kappa': kappa, 'netof': netof, 'neq': r.randint(1, 2), 'idx': idx, 'ext': r.random() < 0.3},
          'w0': [r.randint(-8, 8) / 4 for _ in range(nw)], 'conds': conds, 'ncoords': ncoords,
          'nmetrics': r.randint(*nmetrics), 'lid': lid, 'loss_form': r.choice(['none', 'name', 'obj']),
          'nbt': r.randint(*nbt), 'nbv': r.randint(*nbv), 'opt': gen_opt(r, list(opt_kinds)),
          'train_script': [r.choice(pool_t) for _ in range(r.randint(3, 9))],
          'valid_script': [r.choice(pool_v) for _ in range(r.randint(2, 7))], 'ops': []}
    if sc['opt']['kind'] == 'script' and lid >= 2:
        sc['opt']['lr'] = 0.0625
    if lid >= 2:
        sc['opt']['lr'] = 2.0 ** -10
        sc['w0'] = [r.randint(-2, 2) / 2 for _ in range(nw)]
    if metric_special and sc['nmetrics']:
        sc['metric_special'] = {str(i): [r.choice([None, None, 'nan', 'inf', 'zero', 'neg', 'nan']) for _ in range(r.randint(2, 7))]
                                for i in range(sc['nmetrics']) if r.random() < 0.8}
    ops = sc['ops']
    budget = max_total_epochs
    nf = r.randint(*n_fits)
    nsol = 0
    for fi in range(nf):
        m = r.randint(*max_epochs)
        if budget is not None:
            m = min(m, budget)
            budget -= m
        cbs = []
        for _ in range(r.randint(0, 2) if cb_actions else 0):
            script = []
            for _ in range(r.randint(1, 2)):
                when = r.randint(1, max(1, m)) if r.random() < 0.85 else None
                act = gen_action(r, sc, list(cb_actions))
                if when is None and act['kind'] in ('stop',):
                    when = r.randint(1, max(1, m))
                if act['kind'].startswith('real_'):
                    when = None          # the real conditioned callback decides itself when to act
                script.append({'when': when, 'act': act})
            cbs.append(script)
        if recorder:
            cbs.append([{'when': None, 'act': {'kind': 'record'}}])
        op = {'op': 'fit', 'max_epochs': m, 'cbs': cbs}
        if dup_callbacks and recorder and r.random() < 0.6:
            if len(cbs) == 1:
                cbs.insert(0, [])                      # a callback that does nothing (it is still called and logged)
            base = list(range(len(cbs) - 1))
            order = list(base)
            for _ in range(r.randint(1, 2)):           # the SAME object again, somewhere in the list
                order.insert(r.randint(0, len(order)), r.choice(base))
            op['cb_order'] = order + [len(cbs) - 1]    # the recorder stays last and unique
            if r.random() < 0.3:
                op['cb_container'] = 'tuple'
        ops.append(op)
        for _ in range(r.randint(0, 2) if between_actions else 0):
            ops.append({'op': 'act', 'act': gen_action(r, sc, list(between_actions))})
        if sol_ops:
            for _ in range(r.randint(0, 2)):
                if r.random() < 0.12 and 'rebind_net' not in between_actions:
                    ops.append({'op': 'get_solution_single'})
                else:
                    ops.append({'op': 'get_solution', 'copy': r.random() < 0.5, 'best': r.random() < 0.5})
                nsol += 1
            for _ in range(r.randint(0, 3)):
                ops.append(gen_eval_op(r, sc, nsol))
    if sol_ops:
        if nsol == 0:
            ops.append({'op': 'get_solution', 'copy': r.random() < 0.5, 'best': r.random() < 0.5}); nsol += 1
        for _ in range(r.randint(1, 3)):
            ops.append(gen_eval_op(r, sc, nsol))
    return sc


def gen_eval_op(r, sc, nsol):
    a, b = r.randint(1, 3), r.randint(1, 2)
    shape = r.choice([[a * b], [a * b, 1], [a, b]])
    n = a * b
    if r.random() < 0.12:
        shape, n = [], 1            # 0-dimensional coordinates (a torch scalar tensor / a numpy 0-d array)
    coords = [[r.randint(-3, 3) for _ in range(n)] for _ in range(sc['ncoords'])]
    base = {'shape': shape, 'coords': coords, 'as': r.choice(['tensor', 'ndarray']), 'to_numpy': r.random() < 0.4,
            'no_reshape': r.random() < 0.25}
    if len(shape) == 2 and r.random() < 0.5:
        base['layout'] = r.choice(['transpose', 'stride'])       # non-contiguous views (like meshgrid outputs, .T, [::2])
    if sc['ncoords'] > 1 and r.random() < 0.35:
        # same number of points, different shapes: the result must take the shape of the FIRST coordinate
        alts = [[], [1], [1, 1]] if shape == [] else [[n], [n, 1], [a, b]]
        base['shapes'] = [shape] + [r.choice(alts) for _ in range(sc['ncoords'] - 1)]
    if nsol and r.random() < 0.75:
        return dict(base, op='eval', sol=r.randrange(nsol))
    return dict(base, op='residuals', best=r.random() < 0.5)


def epoch_segments(rec):
    """[(snapshot, [spy events of that epoch])] using the recorder's log positions (the recorder is the LAST
    callback of every fit, so a segment ends with that epoch's callbacks)."""
    out, prev = [], None
    starts = {}
    pos = 0
    for sn in rec['epochs']:
        out.append((sn, rec['log'][pos:sn['n_log']]))
        pos = sn['n_log']
    return out


def epoch_contexts(rec):
    """[(snapshot after the epoch, spy events of the epoch, snapshot of the solver at the START of the epoch)]:
    the start is the `pre` snapshot of the fit call for its first epoch (user actions may happen between fits)."""
    pre = {f['op']: f['pre'] for f in rec['fits']}
    out, last_fit, before = [], None, None
    for sn, seg in epoch_segments(rec):
        if sn['fit'] != last_fit:
            before = pre[sn['fit']]
            last_fit = sn['fit']
        out.append((sn, seg, before))
        before = sn
    return out


def stop_epochs(op, m):
    """local epochs (<= m) at which a stop request is made by the callbacks of a fit op"""
    out = []
    for cb in op['cbs']:
        for it in cb:
            a = it['act']
            if a['kind'] == 'stop' and it['when'] is not None and it['when'] <= m:
                out.append(it['when'])
            elif a['kind'] == 'real_stop':
                c = a['cond']
                for e in range(1, m + 1):
                    if (c['type'] == 'first' and e == 1) or (c['type'] == 'period' and e % c['period'] == c['offset'] % c['period']):
                        out.append(e)
                        break
    return out


def frac_close(a, b):
    """observed float b is the (nearly) correctly rounded value of the exact a"""
    a, b = F(a), F(b)
    return abs(a - b) * (1 << 50) <= abs(a)


# =====================================================================================================
# 5. shared driver: run scenarios on the implementation, evaluate the property's oracle, let Coq compute
#    the same runs, diagnose disagreements, shrink failing scenarios
# =====================================================================================================

def shrink(sc, still_fails, budget=60):
    """greedy delta-debugging on the scenario: drop ops / callbacks, lower max_epochs and counts, while
    `still_fails(scenario)` holds.  Cheap (each probe is one toy run)."""
    cur = copy.deepcopy(sc)
    tries = 0

    def attempt(cand):
        nonlocal cur, tries
        if tries >= budget:
            return False
        tries += 1
        try:
            ok = still_fails(cand)
        except Exception:
            ok = False
        if ok:
            cur = cand
        return ok
    changed = True
    while changed and tries < budget:
        changed = False
        for i in range(len(cur['ops']) - 1, -1, -1):
            op = cur['ops'][i]
            if op['op'] in ('act',) or (op['op'] == 'fit' and sum(o['op'] == 'fit' for o in cur['ops']) > 1):
                cand = copy.deepcopy(cur)
                del cand['ops'][i]
                if any(o['op'] == 'eval' for o in cand['ops']):
                    nsol = sum(o['op'] in ('get_solution', 'get_solution_single') for o in cand['ops'])
                    if any(o['op'] == 'eval' and o['sol'] >= nsol for o in cand['ops']):
                        continue
                if attempt(cand):
                    changed = True
                    break
        for i, op in enumerate(cur['ops']):
            if op['op'] != 'fit':
                continue
            if op['max_epochs'] > 0:
                cand = copy.deepcopy(cur)
                cand['ops'][i]['max_epochs'] -= 1
                if attempt(cand):
                    changed = True
            for j in range(len(op['cbs']) - 1, -1, -1):
                if any(it['act']['kind'] == 'record' for it in op['cbs'][j]) or 'cb_order' in op:
                    continue
                cand = copy.deepcopy(cur)
                del cand['ops'][i]['cbs'][j]
                if attempt(cand):
                    changed = True
                    break
        for key, lo in (('nmetrics', 0), ('nbt', 1), ('nbv', 0)):
            if cur[key] > lo:
                cand = copy.deepcopy(cur)
                cand[key] -= 1
                if attempt(cand):
                    changed = True
    return cur


def summarize(sc):
    ops = []
    for o in sc['ops']:
        if o['op'] == 'fit':
            acts = [it['act']['kind'] + ('@' + str(it['when']) if it['when'] else '') for cb in o['cbs'] for it in cb if it['act']['kind'] != 'record']
            ops.append(f'fit({o["max_epochs"]}{"," + "+".join(acts) if acts else ""})')
        elif o['op'] == 'act':
            ops.append('act:' + o['act']['kind'])
        elif o['op'] == 'get_solution':
            ops.append(f'sol(copy={int(o["copy"])},best={int(o["best"])})')
        elif o['op'] == 'get_solution_single':
            ops.append('sol(single-module)')
        else:
            ops.append(o['op'] + str(tuple(o['shape'])))
    return {'cls': sc['cfg']['cls'], 'opt': sc['opt']['kind'], 'lid': sc['lid'], 'nbt': sc['nbt'], 'nbv': sc['nbv'],
            'nunk': len(sc['conds']), 'nets': len(sc['w0']), 'conds': [c['kind'] for c in sc['conds']],
            'idx': sc['cfg']['idx'], 'nmetrics': sc['nmetrics'], 'ext': sc['cfg']['ext'], 'ops': ops}


class Campaign:
    """runs scenarios, applies an oracle, accumulates Coq cases and input-distribution statistics"""

    def __init__(self, ck, tag, oracle):
        self.ck, self.tag, self.oracle = ck, tag, oracle
        self.items = []
        self.dist = {'classes': {}, 'optimisers': {}, 'loss_ids': {}, 'n_fits': {}, 'op_kinds': {}, 'cb_actions': {},
                     'n_unknowns': {}, 'shared_nets': 0, 'exact': 0, 'trace_only': 0, 'discarded_too_big': 0,
                     'epochs_total': 0, 'ties_forced': 0}

    def _count(self, key, val):
        d = self.dist[key]
        d[str(val)] = d.get(str(val), 0) + 1

    def add(self, label, sc, exact=True, coq=True):
        ck = self.ck
        try:
            rec = run_scenario(sc)
        except Exception as e:
            ck.fail(sc.get('raise_key') or f'{self.tag}/scenario-raises/{type(e).__name__}',
                    f'running an admissible scenario on the real solver raised {type(e).__name__}: {str(e)[:200]}',
                    {'scenario': sc})
            return None
        self._count('classes', sc['cfg']['cls'])
        self._count('optimisers', sc['opt']['kind'])
        self._count('loss_ids', sc['lid'])
        self._count('n_fits', sum(o['op'] == 'fit' for o in sc['ops']))
        self._count('n_unknowns', len(sc['conds']))
        self.dist['shared_nets'] += len(sc['w0']) < len(sc['conds'])
        self.dist['epochs_total'] += len(rec['epochs'])
        for o in sc['ops']:
            self._count('op_kinds', o['op'])
            if o['op'] == 'fit':
                for cb in o['cbs']:
                    for it in cb:
                        self._count('cb_actions', it['act']['kind'])
        n_before = len(ck.failures)
        self.oracle(ck, sc, rec, label)
        if len(ck.failures) > n_before:
            self._shrink_new(sc, n_before)
        key = json_key(summarize(sc))
        ck.add_case((label, key), nontrivial=len(rec['epochs']) > 0 or any(o['op'] in ('eval', 'residuals') for o in sc['ops']))
        ck.traces += len(rec['epochs']) + len(rec['outs'])
        if label.endswith('#0') or len(ck.samples) < 6:
            ck.sample({'scenario': summarize(sc), 'train_loss': rec['history']['train_loss'][:4],
                       'valid_loss': rec['history']['valid_loss'][:4], 'final_w': rec['final']['w'],
                       'lowest': rec['final']['lowest']})
        if not coq:
            return rec
        if exact and too_big(rec):
            self.dist['discarded_too_big'] += 1
            return rec
        self.dist['exact' if exact else 'trace_only'] += 1
        self.items.append((label, sc, rec, exact))
        return rec

    def _shrink_new(self, sc, n_before):
        """replace the input of freshly recorded failures by a shrunk scenario that fails with the same key"""
        ck = self.ck
        new = ck.failures[n_before:]
        for f in new[:2]:
            key = f['key']

            def still(cand, key=key):
                probe = _Probe()
                self.oracle(probe, cand, run_scenario(cand), 'shrink')
                return any(g['key'] == key for g in probe.failures)
            try:
                small = shrink(sc, still)
            except Exception:
                continue
            probe = _Probe()
            self.oracle(probe, small, run_scenario(small), 'shrunk')
            for g in probe.failures:
                if g['key'] == key:
                    f.update(input=g['input'], expected=g['expected'], actual=g['actual'], what=g['what'])
                    break

    def correspond(self, name=None):
        ck = self.ck
        cases, meta = [], {}
        for label, sc, rec, exact in self.items:
            pre, checks = coq_case(sc, rec, exact)
            cases.append((label, case_expr(pre, checks)))
            meta[label] = (sc, rec, pre, checks)
        bad = ck.step_cases(name or self.tag, PREAMBLE, cases, shard=60)
        for label in bad[:6]:
            sc, rec, pre, checks = meta[label]
            vals = ck.step_eval(f'diag_{abs(hash(label)) % 10 ** 6}', PREAMBLE, diag_exprs(pre, checks))
            wrong = [n for (n, _), v in zip(checks, vals) if v.strip() != 'true'] if len(vals) == len(checks) else ['?']
            ck.broke('correspondence-broken', f'cases:{self.tag}:{label}',
                     f'model and implementation differ on checks {wrong}; scenario {json.dumps(summarize(sc))}')
            self.last_bad = (label, sc, rec, wrong)
        self.items = []
        return bad

    def finish_dist(self):
        self.ck.extra['input_distribution'] = self.dist


class _Probe:
    """stand-in for Check while shrinking: only collects failures"""

    def __init__(self):
        self.failures = []

    def fail(self, key, what, inp, expected=None, actual=None):
        self.failures.append({'key': key, 'what': what, 'input': inp, 'expected': expected, 'actual': actual})


def json_key(o):
    import json as _j
    return _j.dumps(o, sort_keys=True)


import json  # noqa: E402
