"""Engine-A correspondence helpers: evaluate a generated IR term row by row against what the
real code returned, and build in-kernel `interval` goals for a sample of rows."""
import math
import os
import sys
import warnings

from pyfront import ir
from harness.probes import lit


def import_repo():
    """Import torch and the implementation from the tree under test."""
    from common import REPO
    if REPO not in sys.path:
        sys.path.insert(0, REPO)
    os.environ.setdefault('PYTHONHASHSEED', '0')
    warnings.filterwarnings('ignore')
    import torch
    import neurodiffeq  # noqa: F401  (sets default dtype float64)
    if os.path.realpath(os.path.dirname(os.path.dirname(neurodiffeq.__file__))) != os.path.realpath(REPO):
        raise RuntimeError(f'neurodiffeq imported from {neurodiffeq.__file__}, expected under {REPO}')
    torch.set_default_dtype(torch.float64)
    return torch


def col(torch, values, grad=True):
    return torch.tensor([[float(v)] for v in values], dtype=torch.float64, requires_grad=grad)


import contextlib


@contextlib.contextmanager
def default_dtype(torch, dt):
    """Run a block under another torch default dtype (the samples stay explicit float64): code that turns a Python
    number into a default-dtype tensor loses precision there and only there."""
    old = torch.get_default_dtype()
    torch.set_default_dtype(dt)
    try:
        yield
    finally:
        torch.set_default_dtype(old)


EXACT = 1e-12      # 'exact up to floating-point rounding': relative to the magnitudes involved (float64 eps = 2.2e-16)


def close(a, b, scale=1.0, rel=1e-9):
    if isinstance(a, float) and isinstance(b, float) and (math.isnan(a) or math.isnan(b)):
        return False
    return abs(a - b) <= rel * (1.0 + abs(a) + abs(b) + scale)


def row_envs(leaf_cols, nrows, fresh, penv):
    """leaf_cols: {leaf: [floats]}; fresh: {leaf: IR const/par term}.  Yields venv per row."""
    out = []
    for i in range(nrows):
        v = {k: vals[i] for k, vals in leaf_cols.items()}
        for k, t in fresh.items():
            v[k] = ir.feval(t, {}, penv, {})
        out.append(v)
    return out


def tol_str(scale, rel=1e-9):
    t = rel * (1.0 + scale)
    # decimal literal Coq can parse as a real: mantissa * 10^-k
    exp = math.floor(math.log10(t))
    mant = int(math.ceil(t / 10 ** exp))
    if exp >= 0:
        return f'{mant * 10 ** exp}'
    return f'({mant} / {10 ** (-exp)})'


def _collect_funs(e, acc):
    k = e[0]
    if k == 'fun':
        acc.add((e[1], tuple(e[2]), len(e[3])))
    elif k in ('var', 'par', 'cst', 'cstq'):
        pass
    elif k == 'pow' or k in ir.UN:
        _collect_funs(e[1], acc)
    elif k in ir.BIN:
        _collect_funs(e[1], acc); _collect_funs(e[2], acc)
    return acc


def eval_goal(label, gen, target, termname, names, term_ir, venv, penv, probes, impl_value, scale, dwrt=()):
    """Kernel-level tie of the GENERATED COQ TERM (not of a Python expansion of it):
         Rabs (eval venv penv fenv (D .. Gen.<target>.<termname>) - impl) <= tol
    with venv/penv literal matches and fenv an if-chain over the (symbol, multi-index) pairs that occur,
    each mapped to the probe's closed-form jet.  `dwrt` = leaves to differentiate by (outermost last)."""
    vidx = {n: i for i, n in enumerate(names['vars'])}
    pidx = {n: i for i, n in enumerate(names['pars'])}
    fidx = {n: i for i, n in enumerate(names['funs'])}
    venv_c = '(fun v : nat => match v with ' + ' | '.join(f'{vidx[n]}%nat => {lit(x)}' for n, x in venv.items() if n in vidx) + ' | _ => 0 end)'
    penv_c = '(fun p : nat => match p with ' + ' | '.join(f'{pidx[n]}%nat => {lit(x)}' for n, x in penv.items() if n in pidx) + ' | _ => 0 end)'
    t = term_ir
    for w in dwrt:
        t = ('D', w, t)
    occ = _collect_funs(ir.expand(t), set())
    chain = '0'
    for (fname, alpha, nargs) in sorted(occ, reverse=True):
        if fname not in probes or fname not in fidx:
            raise KeyError(f'no probe for symbol {fname}')
        args = [f'(nth {i} args 0)' for i in range(nargs)]
        al = '[' + '; '.join(f'{a}%nat' for a in alpha) + ']'
        chain = f'(if (Nat.eqb f {fidx[fname]}%nat && list_eqb Nat.eqb al {al})%bool then {probes[fname].coq(alpha, args)} else {chain})'
    fenv_c = f'(fun (f : nat) (al : list nat) (args : list R) => {chain})'
    term_c = f'{gen}.{target}.{termname}'
    for w in dwrt:
        term_c = f'(D {vidx[w]}%nat {term_c})'
    goal = f'Rabs (eval {venv_c} {penv_c} {fenv_c} {term_c} - ({_flit(impl_value)})) <= {tol_str(scale)}'
    return {'label': label, 'kind': 'eval', 'goal': goal, 'gen': gen, 'value': float(impl_value)}


def _flit(x):
    from fractions import Fraction
    fr = Fraction(float(x))
    return f'{fr.numerator}' if fr.denominator == 1 else f'{fr.numerator} / {fr.denominator}'


def interval_goal(label, term, venv, penv, probes, impl_value, scale, gen=None, names=None, dwrt=()):
    """(label, coq real expression of the model, implementation float, tolerance).
    With gen=(Gen module, target, term name) and names=<names of that target> the goal is instead stated on
    the generated Coq term itself (see eval_goal)."""
    if gen is not None and names is not None:
        base = term
        for _ in dwrt:
            assert base[0] == 'D'
            base = base[2]
        return eval_goal(label, gen[0], gen[1], gen[2], names, base, venv, penv, probes, impl_value, scale, dwrt=dwrt)
    vs = {k: lit(v) for k, v in venv.items()}
    ps = {k: lit(v) for k, v in penv.items()}
    fx = {name: (lambda alpha, args, p=p: p.coq(alpha, args)) for name, p in probes.items()}
    return (label, ir.coq_real(term, vs, ps, fx), float(impl_value), tol_str(scale))
