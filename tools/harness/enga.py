"""Engine-A correspondence helpers: evaluate a generated IR term row by row against what the
real code returned, and build in-kernel `interval` goals for a sample of rows."""
import math
import os
import sys
import warnings

from pyfront import ir
from harness.probes import lit


def import_repo():
    """Import torch and the implementation from the tree under test."""
    from common import REPO
    if REPO not in sys.path:
        sys.path.insert(0, REPO)
    os.environ.setdefault('PYTHONHASHSEED', '0')
    warnings.filterwarnings('ignore')
    import torch
    import neurodiffeq  # noqa: F401  (sets default dtype float64)
    if os.path.realpath(os.path.dirname(os.path.dirname(neurodiffeq.__file__))) != os.path.realpath(REPO):
        raise RuntimeError(f'neurodiffeq imported from {neurodiffeq.__file__}, expected under {REPO}')
    torch.set_default_dtype(torch.float64)
    return torch


def col(torch, values, grad=True):
    return torch.tensor([[float(v)] for v in values], dtype=torch.float64, requires_grad=grad)


def close(a, b, scale=1.0, rel=1e-9):
    if isinstance(a, float) and isinstance(b, float) and (math.isnan(a) or math.isnan(b)):
        return False
    return abs(a - b) <= rel * (1.0 + abs(a) + abs(b) + scale)


def row_envs(leaf_cols, nrows, fresh, penv):
    """leaf_cols: {leaf: [floats]}; fresh: {leaf: IR const/par term}.  Yields venv per row."""
    out = []
    for i in range(nrows):
        v = {k: vals[i] for k, vals in leaf_cols.items()}
        for k, t in fresh.items():
            v[k] = ir.feval(t, {}, penv, {})
        out.append(v)
    return out


def tol_str(scale, rel=1e-9):
    t = rel * (1.0 + scale)
    # decimal literal Coq can parse as a real: mantissa * 10^-k
    exp = math.floor(math.log10(t))
    mant = int(math.ceil(t / 10 ** exp))
    if exp >= 0:
        return f'{mant * 10 ** exp}'
    return f'({mant} / {10 ** (-exp)})'


def interval_goal(label, term, venv, penv, probes, impl_value, scale):
    """(label, coq real expression of the model, implementation float, tolerance)."""
    vs = {k: lit(v) for k, v in venv.items()}
    ps = {k: lit(v) for k, v in penv.items()}
    fx = {name: (lambda alpha, args, p=p: p.coq(alpha, args)) for name, p in probes.items()}
    return (label, ir.coq_real(term, vs, ps, fx), float(impl_value), tol_str(scale))
