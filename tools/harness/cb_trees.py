"""C16 harness, part 1: condition-callback expression trees.

A tree is a tuple:
  ('T',) ('F',) ('FL',) ('FG',) ('LL',)                      True / False / OnFirstLocal / OnFirstGlobal / OnLastLocal
  ('PL', period, offset) ('PG', period, offset)              PeriodLocal / PeriodGlobal (constructor arguments)
  ('IL', lo, hi) ('IG', lo, hi)                              ClosedIntervalLocal / Global (None = unbounded)
  ('And', [t..]) ('Or', [t..]) ('Xor', [t..]) ('Not', t)
  ('Rep', kind, arg, use_train, repetition[, metric])        RepeatedMetric<kind>(arg, use_train, metric or 'loss', repetition)

Three independent readings of a tree live here:
  build(CB, t)   the REAL callback object of the tree under test,
  to_coq(t)      the term of coq/model/Callbacks.v (smart constructors = the Python constructors),
  doc(t, ...)    the documented predicate, written directly from the docstrings (the oracle).
"""

LEAVES0 = ['T', 'F', 'FL', 'FG', 'LL']
REP_KINDS = ['Up', 'Down', 'Converge', 'Diverge', 'Below', 'Above']


# ----------------------------------------------------------------------------- generation
def gen_leaf(r, dist=None):
    k = r.choice(['T', 'F', 'FL', 'FG', 'LL', 'LL', 'PL', 'PL', 'PL', 'PG', 'PG', 'PG', 'IL', 'IL', 'IG', 'IG'])
    if dist is not None:
        dist[k] = dist.get(k, 0) + 1
    if k in LEAVES0:
        return (k,)
    if k in ('PL', 'PG'):
        p = r.randint(1, 5)
        o = r.choice([0, 0, r.randint(0, p - 1), r.randint(-9, -1), r.randint(p, p + 9)])
        return (k, p, o)
    top = 9 if k == 'IL' else 26
    lo = r.choice([None, r.randint(-2, top), r.randint(0, 6)])
    hi = r.choice([None, r.randint(-2, top), r.randint(0, top)])
    return (k, lo, hi)


def gen_tree(r, depth, dist=None, leaf=gen_leaf):
    """A tree of depth exactly `depth` (leaves have depth 0)."""
    if depth == 0:
        return leaf(r, dist)
    op = r.choice(['And', 'Or', 'Xor', 'Not', 'And', 'Or', 'Xor'])
    if dist is not None:
        dist[op] = dist.get(op, 0) + 1
    if op == 'Not':
        return ('Not', gen_tree(r, depth - 1, dist, leaf))
    n = r.choice([0, 1, 2, 2, 2, 3, 3, 4]) if depth == 1 else r.choice([1, 2, 2, 2, 3, 3, 4])
    if dist is not None:
        dist[f'arity{n}'] = dist.get(f'arity{n}', 0) + 1
    if n == 0:
        return (op, [])
    deep = r.randrange(n)
    kids = [gen_tree(r, depth - 1 if i == deep else r.randint(0, depth - 1), dist, leaf) for i in range(n)]
    return (op, kids)


def depth_of(t):
    if t[0] in ('And', 'Or', 'Xor'):
        return 1 + max([depth_of(k) for k in t[1]] + [-1]) if t[1] else 1
    if t[0] == 'Not':
        return 1 + depth_of(t[1])
    return 0


def subtrees(t):
    yield t
    if t[0] in ('And', 'Or', 'Xor'):
        for k in t[1]:
            yield from subtrees(k)
    elif t[0] == 'Not':
        yield from subtrees(t[1])


def is_stateless(t):
    return all(s[0] != 'Rep' for s in subtrees(t))


CLASS_OF = {'T': 'TrueCallback', 'F': 'FalseCallback', 'FL': 'OnFirstLocal', 'FG': 'OnFirstGlobal', 'LL': 'OnLastLocal',
            'PL': 'PeriodLocal', 'PG': 'PeriodGlobal', 'IL': 'ClosedIntervalLocal', 'IG': 'ClosedIntervalGlobal',
            'And': 'AndCallback', 'Or': 'OrCallback', 'Xor': 'XorCallback', 'Not': 'NotCallback'}


def class_name(t):
    if t[0] == 'Rep':
        return 'RepeatedMetric' + t[1]
    return CLASS_OF[t[0]]


def metric_of(t):
    return t[5] if len(t) > 5 else 'loss'


def show(t):
    k = t[0]
    if k in LEAVES0:
        return CLASS_OF[k] + '()'
    if k in ('PL', 'PG'):
        return f'{CLASS_OF[k]}({t[1]}, offset={t[2]})'
    if k in ('IL', 'IG'):
        return f'{CLASS_OF[k]}(min={t[1]}, max={t[2]})'
    if k == 'Not':
        return '~' + show(t[1])
    if k == 'Rep':
        return f'RepeatedMetric{t[1]}({t[2]}, use_train={t[3]}, metric={metric_of(t)!r}, repetition={t[4]})'
    return f'{CLASS_OF[k]}([' + ', '.join(show(c) for c in t[1]) + '])'


# ----------------------------------------------------------------------------- the real objects
def build(CB, t, use_ops=None):
    """Real callback object.  use_ops: a random.Random; binary And/Or/Xor nodes are then sometimes
    built with the overloaded operators & | ^ and Not always with ~ (same object structure)."""
    k = t[0]
    if k == 'T':
        return CB.TrueCallback()
    if k == 'F':
        return CB.FalseCallback()
    if k == 'FL':
        return CB.OnFirstLocal()
    if k == 'FG':
        return CB.OnFirstGlobal()
    if k == 'LL':
        return CB.OnLastLocal()
    if k == 'PL':
        return CB.PeriodLocal(t[1], offset=t[2]) if t[2] != 0 or use_ops is None else CB.PeriodLocal(period=t[1])
    if k == 'PG':
        return CB.PeriodGlobal(t[1], offset=t[2])
    if k == 'IL':
        return CB.ClosedIntervalLocal(min=t[1], max=t[2])
    if k == 'IG':
        return CB.ClosedIntervalGlobal(min=t[1], max=t[2])
    if k == 'Not':
        sub = build(CB, t[1], use_ops)
        return ~sub if use_ops is not None else CB.NotCallback(sub)
    if k == 'Rep':
        kind, arg, tr, n = t[1:5]
        mt = metric_of(t)
        if kind == 'Up':
            return CB.RepeatedMetricUp(at_least_by=arg, use_train=tr, metric=mt, repetition=n)
        if kind == 'Down':
            return CB.RepeatedMetricDown(at_least_by=arg, use_train=tr, metric=mt, repetition=n)
        if kind == 'Converge':
            return CB.RepeatedMetricConverge(epsilon=arg, use_train=tr, metric=mt, repetition=n)
        if kind == 'Diverge':
            return CB.RepeatedMetricDiverge(gap=arg, use_train=tr, metric=mt, repetition=n)
        if kind == 'Below':
            return CB.RepeatedMetricBelow(arg, tr, mt, n, None)
        return CB.RepeatedMetricAbove(arg, tr, mt, n, None)
    kids = [build(CB, c, use_ops) for c in t[1]]
    if use_ops is not None and len(kids) == 2 and use_ops.random() < 0.6:
        return {'And': lambda a, b: a & b, 'Or': lambda a, b: a | b, 'Xor': lambda a, b: a ^ b}[k](*kids)
    return {'And': CB.AndCallback, 'Or': CB.OrCallback, 'Xor': CB.XorCallback}[k](kids)


# ----------------------------------------------------------------------------- the Coq term
def z(n):
    return f'({int(n)})' if n < 0 else str(int(n))


def optz(n):
    return 'None' if n is None else f'(Some {z(n)})'


def coq_bool(b):
    return 'true' if b else 'false'


def coq_list(items):
    return '[' + '; '.join(items) + ']'


def to_coq(t):
    k = t[0]
    if k in LEAVES0:
        return {'T': 'PTrue', 'F': 'PFalse', 'FL': 'PFirstLocal', 'FG': 'PFirstGlobal', 'LL': 'PLastLocal'}[k]
    if k == 'PL':
        return f'(period_local {z(t[1])} {z(t[2])})'
    if k == 'PG':
        return f'(period_global {z(t[1])} {z(t[2])})'
    if k == 'IL':
        return f'(PIntLocal {optz(t[1])} {optz(t[2])})'
    if k == 'IG':
        return f'(PIntGlobal {optz(t[1])} {optz(t[2])})'
    if k == 'Not':
        return f'(PNot {to_coq(t[1])})'
    if k == 'Rep':
        kind, arg, tr, n = t[1:5]
        rk = {'Up': f'(RUp {z(arg)})', 'Down': f'(RDown {z(arg)})', 'Converge': f'(r_converge {z(arg)})',
              'Diverge': f'(r_diverge {z(arg)})', 'Below': f'(RBelow {z(arg)})', 'Above': f'(RAbove {z(arg)})'}[kind]
        return f'(repeated_m {rk} {coq_bool(tr)} "{metric_of(t)}"%string {z(n)})'
    return '(' + {'And': 'PAnd', 'Or': 'POr', 'Xor': 'PXor'}[k] + ' ' + coq_list([to_coq(c) for c in t[1]]) + ')'


# ----------------------------------------------------------------------------- the documented predicate
def rel_doc(kind, arg, last, prev):
    if kind == 'Up':          # "kept increasing by at least some margin"
        return last - prev >= arg
    if kind == 'Down':        # "kept decreasing by at least some margin"
        return prev - last >= arg
    if kind == 'Converge':    # "kept converging within some tolerance"
        return abs(last - prev) < abs(arg)
    if kind == 'Diverge':     # "kept diverging beyond some gap"
        return abs(last - prev) > abs(arg)
    raise ValueError(kind)


def doc_rep(kind, arg, n, h):
    """h chronological.  Change kinds: the latest n consecutive pairs satisfy the relation.
    Below / Above: the metric has been below / above the value for the latest n epochs."""
    if n <= 0:
        return True
    if kind in ('Below', 'Above'):
        if len(h) < n:
            return False
        return all((h[-1 - i] < arg) if kind == 'Below' else (h[-1 - i] > arg) for i in range(n))
    if len(h) < n + 1:
        return False
    return all(rel_doc(kind, arg, h[-1 - i], h[-2 - i]) for i in range(n))


def doc(t, l, g, m, ht=(), hv=(), custom=None):
    """custom: {metric name: (train series, valid series)} of the solver's custom metrics (chronological)."""
    k = t[0]
    if k == 'T':
        return True
    if k == 'F':
        return False
    if k == 'FL':
        return l == 1
    if k == 'FG':
        return g == 1
    if k == 'LL':
        return l == m
    if k in ('PL', 'PG'):      # "epoch count equals period x n + offset"
        e = l if k == 'PL' else g
        return (e - t[2]) % t[1] == 0
    if k in ('IL', 'IG'):      # l_0 <= l <= l_1
        e = l if k == 'IL' else g
        return (t[1] is None or t[1] <= e) and (t[2] is None or e <= t[2])
    if k == 'Not':
        return not doc(t[1], l, g, m, ht, hv, custom)
    if k == 'Rep':
        mt = metric_of(t)
        if mt == 'loss':
            h = ht if t[3] else hv
        else:                       # "present in solver.metrics_fn.keys()": the series recorded for that metric in that phase
            h = (custom or {})[mt][0 if t[3] else 1]
        return doc_rep(t[1], t[2], t[4], h)
    vals = [doc(c, l, g, m, ht, hv, custom) for c in t[1]]
    if k == 'And':
        return all(vals)
    if k == 'Or':
        return any(vals)
    return sum(1 for v in vals if v) % 2 == 1      # "False iff evenly many ... evaluate to True"


class Stub:
    """What a condition callback reads from a solver (used to localise a disagreement and for
    the stub grid; the main observations are made under a real fit())."""

    def __init__(self, l, g, m, ht=(), hv=()):
        self.local_epoch = l
        self._max_local_epoch = m
        self.metrics_history = {'train_loss': [float(x) for x in ht] + [0.0] * max(0, g - len(ht)), 'valid_loss': [float(x) for x in hv]}
        self._g = g

    @property
    def global_epoch(self):
        return self._g


def blame(CB, t, l, g, m):
    """Smallest stateless subtree whose real condition() differs from the documented predicate
    at the triple (class name), or None."""
    best = None
    for s in subtrees(t):
        if not is_stateless(s):
            continue
        try:
            got = bool(build(CB, s).condition(Stub(l, g, m)))
        except Exception:
            got = None
        if got != doc(s, l, g, m):
            if best is None or sum(1 for _ in subtrees(s)) < sum(1 for _ in subtrees(best)):
                best = s
    return best


# ----------------------------------------------------------------------------- expression DAGs (shared sub-expressions)
# dag = {'nodes': [['leaf', tree] | ['op', 'And'|'Or'|'Xor', i, j] | ['not', i]], 'roots': [[node index, 'early'|'late'], ...]}
# Nodes are built in order with the REAL overloaded operators on the SAME Python objects, so a node used by two later
# nodes is shared.  Root k carries the action of table entry k, attached right after the node was built ('early', i.e.
# before it is reused) or after the whole DAG was built ('late').
def dag_tree(dag, i):
    """The expression a node denotes (sharing has no meaning for the documented predicate)."""
    n = dag['nodes'][i]
    if n[0] == 'leaf':
        return n[1]
    if n[0] == 'not':
        return ('Not', dag_tree(dag, n[1]))
    return (n[1], [dag_tree(dag, n[2]), dag_tree(dag, n[3])])


def dag_build(CB, dag, acts):
    objs = []
    root_of = {node: k for k, (node, when) in enumerate(dag['roots'])}
    when_of = {node: when for node, when in dag['roots']}
    for i, n in enumerate(dag['nodes']):
        if n[0] == 'leaf':
            o = build(CB, n[1])
        elif n[0] == 'not':
            o = ~objs[n[1]]
        else:
            a, b = objs[n[2]], objs[n[3]]
            o = (a & b) if n[1] == 'And' else (a | b) if n[1] == 'Or' else (a ^ b)
        objs.append(o)
        if when_of.get(i) == 'early':
            o.set_action_callback(acts[root_of[i]])
    for i, when in when_of.items():
        if when == 'late':
            objs[i].set_action_callback(acts[root_of[i]])
    return [objs[node] for node, _ in dag['roots']]


def dag_show(dag):
    out = []
    for i, n in enumerate(dag['nodes']):
        if n[0] == 'leaf':
            out.append(f'n{i} = {show(n[1])}')
        elif n[0] == 'not':
            out.append(f'n{i} = ~n{n[1]}')
        else:
            out.append(f'n{i} = n{n[2]} {dict(And="&", Or="|", Xor="^")[n[1]]} n{n[3]}')
    out.append('actions: ' + ', '.join(f'n{node} ({when})' for node, when in dag['roots']))
    return out
