"""C13 harness: combinator expression trees (JSON-able specs), a builder that instantiates the REAL
classes from a spec (fresh objects, spying leaves, logged filter masks, scripted randperm /
randint), a list-based reference interpreter written from the property text (rows are atomic),
a Coq printer for the model of coq/model/GenComb.v, and a typed random / exhaustive tree
generator.

spec nodes:
  {'op':'leaf','id','size','dims','form': tensor|list|tuple}
  {'op':'concat'|'ensemble'|'mesh','kids':[..],'style':'ctor'|'op'}     ('op' = infix + * ^, two kids)
  {'op':'transL','kid','ts':[int|None,..]}   {'op':'transF','kid','t':0|1|2}   {'op':'transN','kid'}
  {'op':'filter','kid','m','size':None|int,'upd':bool,'salt':int}
  {'op':'resample','kid','r','size':None|int,'repl':bool}
  {'op':'static','kid'}   {'op':'predef','cols':[[int..]..]}
top: {'sampler':bool,'tree':spec,'calls':int,'rng_seed':int}
"""
import itertools
import random

from harness import gen_drivers as gd

NARY = ('concat', 'ensemble', 'mesh')


def kids_of(s):
    if s['op'] in NARY:
        return s['kids']
    if 'kid' in s:
        return [s['kid']]
    return []


def walk(s):
    yield s
    for k in kids_of(s):
        yield from walk(k)


def node_count(s):
    return sum(1 for _ in walk(s))


def depth(s):
    return 1 + max([depth(k) for k in kids_of(s)] or [0])


def keep_row(m, salt, v0):
    """the user's filter predicate, a function of the first coordinate of the row"""
    return ((v0 // 4) * 7 + m * 3 + salt) % 5 < 3


# ------------------------------------------------------------------ building the real objects
class Built:
    def __init__(self):
        self.leaves = {}       # id -> SpyLeaf
        self.masks = {}        # m -> [mask per local call]
        self.filters = {}      # m -> FilterGenerator
        self.rlog = {}         # r -> [(n_or_high, indices) per local call]
        self.stack = []        # resample ids currently executing
        self.root = None
        self.nodes = []        # (spec, object) of every node of the tree
        self.at_birth = {}     # id(object) -> (.size, ids of .generators) right after its own constructor returned
        self.tree_root = None  # the tree's root object (below the optional SamplerGenerator)


def build(torch, G, SpyLeaf, top):
    b = Built()
    rr = random.Random(top.get('rng_seed', 0))

    def pack(ts):
        ts = list(ts)
        return ts[0] if len(ts) == 1 else tuple(ts)

    TM = {0: lambda *xs: pack(xs),
          1: lambda *xs: pack(xs[::-1]),
          2: lambda *xs: tuple(xs) + (sum((x[:min(len(y) for y in xs)] for x in xs[1:]), xs[0][:min(len(y) for y in xs)]),)}
    # (T2 adds the coordinates over the common prefix, so that it is total on columns of unequal length, like sum_cols)

    def mk(s):
        o = mk1(s)
        b.nodes.append((s, o))
        # what this object looked like when its own constructor returned: constructing something ON TOP of it later
        # (it becomes an operand) must not change it -- operands may be shared and re-used (ab = a ^ b; abc = ab ^ c; ab again)
        gl = getattr(o, 'generators', None)
        b.at_birth[id(o)] = (int(o.size), tuple(id(g) for g in gl) if isinstance(gl, (list, tuple)) else None)
        return o

    def mk1(s):
        op = s['op']
        if op == 'leaf':
            g = SpyLeaf(s['id'], s['dims'], [s['size']], s['form'])
            b.leaves[s['id']] = g
            return g
        if op == 'predef':
            return G.PredefinedGenerator(*[[float(v) for v in c] for c in s['cols']])
        if op in NARY:
            ks = [mk(k) for k in s['kids']]
            if s.get('style') == 'op' and len(ks) == 2:
                return ks[0] + ks[1] if op == 'concat' else (ks[0] * ks[1] if op == 'ensemble' else ks[0] ^ ks[1])
            cls = {'concat': G.ConcatGenerator, 'ensemble': G.EnsembleGenerator, 'mesh': G.MeshGenerator}[op]
            return cls(*ks)
        kid = mk(s['kid'])
        if op == 'transL':
            return G.TransformGenerator(kid, transforms=[None if t is None else (lambda x, t=t: 2 * x + t) for t in s['ts']])
        if op == 'transF':
            return G.TransformGenerator(kid, transform=TM[s['t']])
        if op == 'transN':
            return G.TransformGenerator(kid)
        if op == 'static':
            return G.StaticGenerator(kid)
        if op == 'filter':
            m, salt = s['m'], s['salt']
            b.masks[m] = []

            def fn(xs, m=m, salt=salt):
                mask = [keep_row(m, salt, int(round(v))) for v in xs[0].detach().reshape(-1).tolist()]
                b.masks[m].append([int(x) for x in mask])
                return torch.tensor(mask, dtype=torch.bool)
            kw = {}
            if s['size'] is not None:
                kw['size'] = s['size']
            if not s['upd']:
                kw['update_size'] = False
            g = G.FilterGenerator(kid, fn, **kw)
            b.filters[m] = g
            return g
        if op == 'resample':
            r = s['r']
            b.rlog[r] = []
            kw = {}
            if s['size'] is not None:
                kw['size'] = s['size']
            if s['repl']:
                kw['replacement'] = True
            g = G.ResampleGenerator(kid, **kw)
            inner = g.get_examples

            def wrapped(r=r, inner=inner):
                b.stack.append(r)
                try:
                    return inner()
                finally:
                    b.stack.pop()
            g.get_examples = wrapped
            return g
        raise ValueError(op)

    class Script:
        def randperm(self, n):
            p = list(range(n))
            rr.shuffle(p)
            b.rlog[b.stack[-1]].append((n, p))
            return p

        def randint(self, high, size):
            v = [rr.randrange(high) for _ in range(size)]
            b.rlog[b.stack[-1]].append((high, v))
            return v
    b.script = Script()
    with gd.scripted_rng(torch, b.script):
        try:
            g = mk(top['tree'])
        except Exception as e:
            e._partial = b          # what was built and drawn before a constructor raised
            raise
        b.tree_root = g
        if top.get('sampler'):
            g = G.SamplerGenerator(g)
    b.root = g
    return b


def run_real(torch, G, SpyLeaf, top):
    """-> dict(outs=[(two_d, form, cols) | ('raises', Err)], sizes=[.size before each call ...], fsizes, built)"""
    res = {'outs': [], 'sizes': [], 'filter_sizes': [], 'ctor_error': None}
    try:
        b = build(torch, G, SpyLeaf, top)
    except Exception as e:
        res['ctor_error'] = type(e).__name__
        res['built'] = None
        res['partial'] = getattr(e, '_partial', None)
        return res
    res['built'] = b
    res['operand_reuse'] = operands_unchanged(torch, b, top)
    # construction is side-effect free: no generator is sampled while the composite is built, except the one documented
    # draw of a StaticGenerator (its child, once)
    under_static = set()

    def mark(sp, inside):
        if sp['op'] == 'leaf' and inside:
            under_static.add(sp['id'])
        for kd in kids_of(sp):
            mark(kd, inside or sp['op'] == 'static')
    mark(top['tree'], False)
    res['construction'] = []
    for lid, leaf in b.leaves.items():
        want = 1 if lid in under_static else 0
        if leaf.calls != want:
            res['construction'].append(f'leaf L{lid} was sampled {leaf.calls} time(s) while the composite was constructed, expected {want}')
    raws = []
    res['interference'] = []
    for _ in range(top['calls']):
        res['sizes'].append(int(b.root.size))
        try:
            with gd.scripted_rng(torch, b.script):
                x = b.root.get_examples()
            form, cols = gd.to_cols(x, torch, two_d=bool(top.get('sampler')))
            raws.append((x, list(x) if isinstance(x, (list, tuple)) else [x], gd.to_cols(x, torch, two_d=bool(top.get('sampler')))[1]))
            res['outs'].append((bool(top.get('sampler')), form, cols))
            res['filter_sizes'].append({m: (int(f.size), sum(b.masks[m][-1]) if b.masks[m] else None) for m, f in b.filters.items()})
        except gd.Malformed as e:
            res['outs'].append(('raises', f'Malformed: {e}'))
            break
        except Exception as e:
            res['outs'].append(('raises', type(e).__name__))
            break
    else:
        res['sizes'].append(int(b.root.size))
        res['interference'] = interference(torch, G, b, top, raws)
    return res


class _Guard(Exception):
    pass


def operands_unchanged(torch, b, top):
    """Right after the whole tree is constructed (before any root draw): every object that became an operand of a later
    constructor still has the .size and the operand list it had when its own constructor returned, and -- for the
    n-ary combinators over leaves that are not under a StaticGenerator -- sampled on its own it still returns one
    column per dimension of ITS OWN sub-tree.  (`ab = a ^ b; abc = ab ^ c` must leave `ab` a 2-D mesh.)
    -> [(key, description)]"""
    probs = []
    for s, o in b.nodes:
        if o is b.tree_root or id(o) not in b.at_birth:
            continue
        size0, gens0 = b.at_birth[id(o)]
        gl = getattr(o, 'generators', None)
        gens1 = tuple(id(g) for g in gl) if isinstance(gl, (list, tuple)) else None
        if gens0 is not None and gens1 != gens0:
            probs.append((f'operand-mutated/{s["op"]}',
                          f'a {s["op"]} generator over {len(gens0)} operand(s) was used as an operand of a later constructor and now '
                          f'holds {len(gens1) if gens1 is not None else "no"} operand(s) (its .size is still {int(o.size)}): '
                          f'constructing a combinator must not alter its operands'))
            continue
        if s['op'] not in ('filter',) and int(o.size) != size0:
            probs.append((f'operand-mutated/{s["op"]}', f'the .size of a {s["op"]} operand changed from {size0} to {int(o.size)} when a '
                          f'combinator was constructed on top of it'))
    return probs


def interference(torch, G, b, top, raws):
    """Non-interference: consumers put on top of the tree (a BatchGenerator streaming from it, a SamplerGenerator)
    must not change what the generators below return, nor modify objects that were already handed out.
    -> [(key, description)]"""
    probs = []
    consts = [(s, o) for s, o in b.nodes if s['op'] in ('predef', 'static')]
    before = {}
    for s, o in consts:
        try:
            x = o.get_examples()
            before[id(o)] = (gd.to_cols(x, torch), x, list(x) if isinstance(x, (list, tuple)) else [x])
        except Exception:
            pass
    bs = 1 + top.get('rng_seed', 0) % 4
    consumer = f'BatchGenerator(<tree>, {bs}) drawn twice, SamplerGenerator(<tree>) drawn once'
    root = b.tree_root
    inner = root.get_examples
    count = {'n': 0}

    def guarded():
        count['n'] += 1
        if count['n'] > 60:
            raise _Guard()
        return inner()
    root.get_examples = guarded
    try:
        with gd.scripted_rng(torch, b.script):
            try:
                bg = G.BatchGenerator(root, bs)
                bg.get_examples()
                bg.get_examples()
            except Exception:
                pass
            try:
                G.SamplerGenerator(root).get_examples()
            except Exception:
                pass
    finally:
        root.get_examples = inner
    for s, o in consts:
        if id(o) not in before:
            continue
        (form0, cols0), x0, members0 = before[id(o)]
        try:
            form1, cols1 = gd.to_cols(o.get_examples(), torch)
        except Exception as e:
            probs.append((f'interference/{s["op"]}', f'after {consumer}, {s["op"]} generator raises {type(e).__name__}'))
            continue
        if (form1, cols1) != (form0, cols0):
            probs.append((f'interference/{s["op"]}',
                          f'after {consumer}, the {s["op"]} generator returns {[len(c) for c in cols1]} values per dimension as {form1}; '
                          f'before it returned {[len(c) for c in cols0]} as {form0} (same points forever?)'))
        elif isinstance(x0, (list, tuple)) and (len(x0) != len(members0) or any(a is not m for a, m in zip(x0, members0))):
            probs.append((f'interference/{s["op"]}', f'after {consumer}, the {type(x0).__name__} the {s["op"]} generator returned earlier was modified in place'))
    m = gd.raw_mutated(raws, torch) if not top.get('sampler') else None
    if m:
        probs.append(('result-mutated/' + top['tree']['op'], f'after {consumer}: {m}'))
    for leaf in b.leaves.values():
        m = leaf.mutated()
        if m:
            probs.append(('leaf-draw-mutated', f'after {consumer}: {m}'))
            break
    return probs


# ------------------------------------------------------------------ reference interpreter (from the property text)
class Precondition(Exception):
    """the tree is outside what the property promises (e.g. ensemble of unequal sizes)"""


class Undrawn(Exception):
    """a leaf the expression contains was not sampled at this call (the implementation skipped a child)"""


class Impossible(Exception):
    """the scripted indices cannot be applied to this draw: the implementation asked the RNG for the wrong range"""


def flat_mesh(s):
    out = []
    for k in s['kids']:
        out += flat_mesh(k) if k['op'] == 'mesh' else [k]
    return out


def ref_rows(s, k, b, tags):
    """rows (tuples) the k-th call must return; b = Built (leaf logs, masks, rng logs)."""
    op = s['op']
    if op == 'leaf':
        if s['id'] not in b.leaves or k >= len(b.leaves[s['id']].log):
            raise Undrawn(f'leaf L{s["id"]} was sampled {len(b.leaves[s["id"]].log) if s["id"] in b.leaves else 0} time(s), call {k} needs draw {k}')
        return gd.rows_of(b.leaves[s['id']].log[k])
    if op == 'predef':
        return gd.rows_of(s['cols'])
    if op == 'static':
        return ref_rows(s['kid'], 0, b, tags)
    if op == 'concat':
        parts = [ref_rows(c, k, b, tags) for c in s['kids']]
        if len({len(p[0]) for p in parts if p}) > 1 or len({dims_of(c) for c in s['kids']}) > 1:
            raise Precondition('concat of different dimensions')
        return [r for p in parts for r in p]
    if op == 'ensemble':
        parts = [ref_rows(c, k, b, tags) for c in s['kids']]
        if len({len(p) for p in parts}) > 1:
            raise Precondition('ensemble of unequal sizes')
        return [tuple(v for p in parts for v in p[i]) for i in range(len(parts[0]))]
    if op == 'mesh':
        kids = flat_mesh(s)
        if any(dims_of(c) != 1 for c in kids):
            raise Precondition('mesh of a multi-dimensional generator')
        axes = [[r[0] for r in ref_rows(c, k, b, tags)] for c in kids]
        return [tuple(t) for t in itertools.product(*axes)]
    rows = ref_rows(s['kid'], k, b, tags)
    if op == 'transL':
        if len(s['ts']) != dims_of(s['kid']):
            raise Precondition('number of transforms differs from the number of dimensions')
        return [tuple(v if t is None else 2 * v + t for v, t in zip(r, s['ts'])) for r in rows]
    if op == 'transF':
        t = s['t']
        return [r if t == 0 else (r[::-1] if t == 1 else r + (sum(r),)) for r in rows]
    if op == 'transN':
        if dims_of(s['kid']) != 1:
            tags.add('transform-default-multidim')      # names the failure if the old TypeError returns
        return rows
    if op == 'filter':
        return [r for r in rows if keep_row(s['m'], s['salt'], r[0])]
    if op == 'resample':
        if s['repl'] and not rows and (s['size'] if s['size'] is not None else nominal_size(s['kid'])) > 0:
            raise Precondition('sampling with replacement from an empty draw')
        log = b.rlog[s['r']]
        if k >= len(log):
            raise Impossible('resample did not draw indices')
        n, idx = log[k]
        if not s['repl']:
            size = s['size'] if s['size'] is not None else nominal_size(s['kid'])
            idx = idx[:size]
        if n != len(rows):
            # the resampler asked the RNG for a range that is not the number of rows of this draw (the repaired defects)
            direct = s['kid']['op'] == 'filter' and s['kid']['upd']
            tags.add('resample-stale-size' if direct else 'resample-stale-size-indirect')
        if any(i >= len(rows) for i in idx):
            raise Impossible(f'indices {idx} drawn for n={n} but the draw has {len(rows)} rows')
        return [rows[i] for i in idx]
    raise ValueError(op)


def dims_of(s):
    op = s['op']
    if op == 'leaf':
        return s['dims']
    if op == 'predef':
        return len(s['cols'])
    if op == 'concat':
        return min(dims_of(c) for c in s['kids'])
    if op in ('ensemble', 'mesh'):
        return sum(dims_of(c) for c in (flat_mesh(s) if op == 'mesh' else s['kids']))
    d = dims_of(s['kid'])
    if op == 'transL':
        return min(d, len(s['ts'])) if d > 1 else 1
    if op == 'transF':
        return d + 1 if s['t'] == 2 else d
    return d


def nominal_size(s):
    """the .size the constructors compute"""
    op = s['op']
    if op == 'leaf':
        return s['size']
    if op == 'predef':
        return len(s['cols'][0])
    if op == 'concat':
        return sum(nominal_size(c) for c in s['kids'])
    if op == 'ensemble':
        return nominal_size(s['kids'][0])
    if op == 'mesh':
        p = 1
        for c in flat_mesh(s):
            p *= nominal_size(c)
        return p
    if op in ('filter', 'resample') and s['size'] is not None:
        return s['size']
    return nominal_size(s['kid'])


def size_claimed(s):
    """True if the property's size arithmetic applies: no filter in the tree (a filter's own size is checked
    separately), resample sizes realisable, ensembles nominally equal."""
    for n in walk(s):
        if n['op'] == 'filter':
            return False
        if n['op'] == 'resample' and not n['repl'] and n['size'] is not None and n['size'] > nominal_size(n['kid']):
            return False
    return True


# ------------------------------------------------------------------ Coq printer
FORM = {'tensor': 'FT', 'list': 'FL', 'tuple': 'FU'}


def leaf_form(s):
    if s['dims'] == 1 and s['form'] != 'list1':
        return 'FT'
    return 'FU' if s['form'] == 'tuple' else 'FL'


def opt_nat(v):
    return 'None' if v is None else f'(Some {v}%nat)'


def coq_gen(s):
    op = s['op']
    if op == 'leaf':
        return f'(Leaf {s["id"]}%nat {s["size"]}%nat {leaf_form(s)})'
    if op == 'predef':
        return f'(Predefined {gd.zcols(s["cols"])})'
    if op in NARY:
        return f'({op.capitalize()} [{"; ".join(coq_gen(k) for k in s["kids"])}])'
    kid = coq_gen(s['kid'])
    if op == 'transL':
        return f'(TransformL {kid} [{"; ".join(opt_nat(t) for t in s["ts"])}])'
    if op == 'transF':
        return f'(TransformF {kid} {s["t"]}%nat)'
    if op == 'transN':
        return f'(TransformN {kid})'
    if op == 'static':
        return f'(Static {kid})'
    if op == 'filter':
        return f'(Filter {kid} {s["m"]}%nat {opt_nat(s["size"])} {"true" if s["upd"] else "false"})'
    if op == 'resample':
        return f'(Resample {kid} {s["r"]}%nat {opt_nat(s["size"])} {"true" if s["repl"] else "false"})'
    raise ValueError(op)


def coq_tables(top, b):
    """the oracle tables of one run: draws, masks, randperm, randint (indexed by id, then call)"""
    nl = 1 + max([n['id'] for n in walk(top['tree']) if n['op'] == 'leaf'] or [-1])
    nm = 1 + max([n['m'] for n in walk(top['tree']) if n['op'] == 'filter'] or [-1])
    nr = 1 + max([n['r'] for n in walk(top['tree']) if n['op'] == 'resample'] or [-1])
    draws = '[' + ';'.join(gd.zcols_list(b.leaves[i].log) if i in b.leaves else '[]' for i in range(nl)) + ']'
    masks = '[' + ';'.join('[' + ';'.join('[' + ';'.join('true' if x else 'false' for x in mk) + ']' for mk in b.masks.get(i, [])) + ']'
                           for i in range(nm)) + ']'
    repl = {n['r']: n['repl'] for n in walk(top['tree']) if n['op'] == 'resample'}
    perm = '[' + ';'.join('[' + ';'.join(gd.natlist(v) for _, v in (b.rlog.get(i, []) if not repl.get(i) else [])) + ']' for i in range(nr)) + ']'
    rint = '[' + ';'.join('[' + ';'.join(gd.natlist(v) for _, v in (b.rlog.get(i, []) if repl.get(i) else [])) + ']' for i in range(nr)) + ']'
    return draws, masks, perm, rint


def coq_case(top, res):
    """bool expression: the model reproduces every observed call (value, container form, (n,1) flag, raise)
    and every observed .size"""
    b = res['built']
    t = f'({"Sampler" if top.get("sampler") else "Plain"} {coq_gen(top["tree"])})'
    if b is None and res.get('partial') is not None:
        # a constructor raised (ensemble size check, or a StaticGenerator whose first draw raises): the model,
        # fed what was drawn until then, must not produce a value either
        draws, masks, perm, rint = coq_tables(top, res['partial'])
        return (f'(ores_eqb (run (table {draws} []) (table {masks} []) (table {perm} []) (table {rint} []) h_tvec h_tmulti {t} 0%nat) None)')
    if b is None:
        return f'(ores_eqb (run (fun _ _ => []) (fun _ _ => []) (fun _ _ => []) (fun _ _ => []) h_tvec h_tmulti {t} 0%nat) None)'
    draws, masks, perm, rint = coq_tables(top, b)
    head = (f'(let dr := table {draws} [] in let mk := table {masks} [] in let rp := table {perm} [] in let ri := table {rint} [] in '
            f'let t := {t} in ')
    parts = []
    for k, o in enumerate(res['outs']):
        if o[0] == 'raises':
            exp = 'None'
        else:
            exp = f'(Some ({"true" if o[0] else "false"}, ({FORM[o[1]]}, {gd.zcols(o[2])})))'
        parts.append(f'ores_eqb (run dr mk rp ri h_tvec h_tmulti t {k}%nat) {exp}')
    for k, sz in enumerate(res['sizes']):
        if k < len(res['outs']) and res['outs'][k][0] == 'raises':
            continue
        parts.append(f'Nat.eqb (top_size dr mk rp ri h_tvec h_tmulti t {k}%nat) {sz}%nat')
    return head + ' && '.join(parts) + ')'


# ------------------------------------------------------------------ tree generation
class TreeGen:
    """typed random trees: gen(depth, d, n, exact) -> spec with static dimension count d and nominal size n;
    exact=True avoids filters (whose actual size differs from the nominal one) so that ensemble /
    size preconditions hold; off-precondition trees are produced on purpose with probability p_off."""

    def __init__(self, r, p_off=0.06, max_rows=400):
        self.r, self.p_off, self.max_rows = r, p_off, max_rows
        self.ids = {'leaf': 0, 'm': 0, 'r': 0}

    def fresh(self, k):
        self.ids[k] += 1
        return self.ids[k] - 1

    def leaf(self, d, n):
        form = self.r.choice(['list', 'tuple']) if d > 1 else 'tensor'
        return {'op': 'leaf', 'id': self.fresh('leaf'), 'size': n, 'dims': d, 'form': form}

    def gen(self, depth, d=None, n=None, exact=False):
        r = self.r
        d = d if d is not None else r.randint(1, 3)
        n = n if n is not None else r.randint(1, 8)
        if depth <= 1:
            if n > 8:
                return self.leaf(d, n) if n <= 15 else self.concat_leaves(d, n)
            if r.random() < 0.1:
                base = r.randrange(100000, 200000)
                cols = [[base + 10 * i + j for i in range(n)] for j in range(d)]
                if d > 1 and r.random() < max(self.p_off, 0.15):
                    # columns of different lengths (any position, the last one included): the constructor must refuse
                    j = r.randrange(d)
                    cols[j] = cols[j][:-1] if (n > 1 and r.random() < 0.5) else cols[j] + [base + 10 * n + j]
                return {'op': 'predef', 'cols': cols}
            return self.leaf(d, n)
        ops = ['concat', 'ensemble', 'mesh', 'transL', 'transF', 'static', 'resample', 'transN']
        if not exact:
            ops += ['filter', 'filter']
        r.shuffle(ops)
        for op in ops:
            s = self.try_op(op, depth, d, n, exact)
            if s is not None:
                return s
        return self.leaf(d, n) if n <= 15 else self.concat_leaves(d, n)

    def concat_leaves(self, d, n):
        parts, rest = [], n
        while rest > 0:
            p = min(rest, self.r.randint(1, 8)); parts.append(self.leaf(d, p)); rest -= p
        return {'op': 'concat', 'kids': parts, 'style': 'ctor'}

    def try_op(self, op, depth, d, n, exact):
        r = self.r
        off = r.random() < self.p_off
        if op == 'concat':
            if n < 2:
                return None
            nk = r.choice([2, 2, 3]) if n >= 3 else 2
            cuts = sorted(r.sample(range(1, n), nk - 1))
            sizes = [b - a for a, b in zip([0] + cuts, cuts + [n])]
            kids = [self.gen(depth - 1, d, s, exact) for s in sizes]
            return {'op': 'concat', 'kids': kids, 'style': 'op' if len(kids) == 2 and r.random() < 0.5 else 'ctor'}
        if op == 'ensemble':
            if d < 2 and r.random() < 0.8:
                return None
            if d == 1:
                kids = [self.gen(depth - 1, 1, n, True)]
            else:
                nk = r.choice([2, 3]) if d >= 3 else 2
                cuts = sorted(r.sample(range(1, d), nk - 1))
                ds = [b - a for a, b in zip([0] + cuts, cuts + [d])]
                kids = [self.gen(depth - 1, di, n, exact=(True if exact else not off)) for di in ds]
            return {'op': 'ensemble', 'kids': kids, 'style': 'op' if len(kids) == 2 and r.random() < 0.5 else 'ctor'}
        if op == 'mesh':
            if d == 1 and r.random() < 0.85:
                return None
            # factor n into d factors
            facs = self.factor(n, d)
            if facs is None:
                return None
            if off and d >= 2:
                # a multi-dimensional child (outside the property, the model still follows the code)
                kids = [self.gen(depth - 1, 2, r.randint(1, 3), exact), self.gen(depth - 1, 1, r.randint(1, 3), exact)]
                return {'op': 'mesh', 'kids': kids, 'style': 'ctor'}
            nest = len(facs) >= 3 and depth >= 3 and r.random() < 0.6
            kids = [self.gen(depth - 2 if (nest and i < 2) else depth - 1, 1, f, exact) for i, f in enumerate(facs)]
            if nest:
                # nested form: Mesh(Mesh(a, b), c) or a ^ b ^ c
                st = r.choice(['op', 'ctor'])
                inner = {'op': 'mesh', 'kids': kids[:2], 'style': st}
                return {'op': 'mesh', 'kids': [inner] + kids[2:], 'style': st if len(kids) == 3 else 'ctor'}
            return {'op': 'mesh', 'kids': kids, 'style': 'op' if len(kids) == 2 and r.random() < 0.5 else 'ctor'}
        if op == 'transL':
            kid = self.gen(depth - 1, d, n, exact)
            ts = [r.choice([None, r.randint(0, 9), r.randint(0, 9)]) for _ in range(d)]
            if off:
                ts = ts[:-1] if (len(ts) > 1 and r.random() < 0.5) else ts + [3]
            if not ts:
                ts = [1]
            return {'op': 'transL', 'kid': kid, 'ts': ts}
        if op == 'transF':
            t = r.choice([0, 1, 2])
            if t == 2:
                if d < 2:
                    return None
                kid = self.gen(depth - 1, d - 1, n, exact)
            else:
                kid = self.gen(depth - 1, d, n, exact)
            return {'op': 'transF', 'kid': kid, 't': t}
        if op == 'static':
            return {'op': 'static', 'kid': self.gen(depth - 1, d, n, exact)}
        if op == 'transN':
            if d != 1 or r.random() < 0.5:
                return None
            return {'op': 'transN', 'kid': self.gen(depth - 1, 1, n, exact)}
        if op == 'filter':
            kid = self.gen(depth - 1, d, n, exact)
            return {'op': 'filter', 'kid': kid, 'm': self.fresh('m'), 'size': r.choice([None, None, n]),
                    'upd': r.random() < 0.8, 'salt': r.randint(0, 4)}
        if op == 'resample':
            repl = r.random() < 0.35
            if not exact and r.random() < 0.4:
                # a child whose number of rows differs from its .size (a filter, or anything above one):
                # the resampler asks the RNG for the rows actually returned
                kid = self.gen(depth - 1, d, n, False)
                size = r.choice([None, max(1, n // 2)])
            elif r.random() < 0.5:
                kid = self.gen(depth - 1, d, n, True)
                size = None
            else:
                kn = r.randint(n, n + 4) if not repl else r.randint(1, 8)
                kid = self.gen(depth - 1, d, kn, True)
                size = n
            return {'op': 'resample', 'kid': kid, 'r': self.fresh('r'), 'size': size, 'repl': repl}
        return None

    def factor(self, n, d):
        r = self.r
        opts = [f for f in itertools.product(range(1, 9), repeat=d) if self._prod(f) == n]
        return list(r.choice(opts)) if opts else None

    @staticmethod
    def _prod(f):
        p = 1
        for x in f:
            p *= x
        return p


def random_top(r, max_depth=4, p_off=0.06):
    tg = TreeGen(r, p_off)
    depth = r.choice([1, 2, 2, 3, 3, 3, 4, 4])
    depth = min(depth, max_depth)
    d = r.randint(1, 3)
    n = r.randint(1, 8)
    tree = tg.gen(depth, d, n)
    return {'sampler': r.random() < 0.25, 'tree': tree, 'calls': r.choice([1, 2, 3, 3, 4]), 'rng_seed': r.randrange(1 << 30)}
