"""User-side components for the C18 harness.  They live in a real file so that
`inspect.getsource` can retrieve their text (what neurodiffeq.solvers_utils.get_source needs),
and at module level so that dill pickles them by reference."""
import torch

# ---- equations (diff is imported lazily from the tree under test)


def ode1(u, t):
    from neurodiffeq import diff
    return [diff(u, t) + u]


def ode_bundle_plain(u, t):
    from neurodiffeq import diff
    return [diff(u, t) + u]


def ode_bundle_param(u, t, lam):
    from neurodiffeq import diff
    return [diff(u, t) + lam * u]


def pde_laplace(u, x, y):
    from neurodiffeq import diff
    return [diff(u, x, order=2) + diff(u, y, order=2)]


# ---- boundary data with retrievable source: a def and lambdas
def edge_sin(y):
    return torch.sin(3.0 * y)


edge_zero = lambda x: 0.0 * x
edge_lin = lambda x: 0.5 * x

# ---- boundary data WITHOUT retrievable source (inspect fails, get_source returns "")
nosrc_a = eval('lambda y: 0.25 * y')
nosrc_b = eval('lambda y: 0.0 * y + 1.0')
nosrc_c = eval('lambda x: 0.0 * x')
nosrc_d = eval('lambda x: 0.125 * x')

# ---- a user loss whose scale the harness can change between fits (spying user component)
SCALE = [1.0]


def scaled_loss(r, f, x):
    return (r ** 2).mean() * SCALE[0]


# ---- a counting spy around any generator: how many batches the solver (or anything else) has drawn.
# Defined here (importable module) so that dill pickles the class by reference and the instance,
# its inner generator and the count, by value.
class CountingGenerator:
    def __init__(self, inner, **attrs):
        self.inner = inner
        self.size = inner.size
        self.count = 0
        for k, v in attrs.items():          # t_min / t_max / xy_min / xy_max: what PretrainedSolver.load reads
            setattr(self, k, v)

    def get_examples(self):
        self.count += 1
        return self.inner.get_examples()

    def __repr__(self):
        return f'CountingGenerator({self.inner!r}, count={self.count})'


# ---- a network with mode-dependent layers (the training flag of every module is observable state).
# It has the `.NN` attribute neurodiffeq.solvers_utils.get_networks expects.
class ModeNet(torch.nn.Module):
    def __init__(self, n_in, variant):
        super().__init__()
        mid = [torch.nn.BatchNorm1d(3)] if variant == 'batchnorm' else [torch.nn.Dropout(p=0.25)]
        self.NN = torch.nn.Sequential(torch.nn.Linear(n_in, 3), *mid, torch.nn.Tanh(), torch.nn.Linear(3, 1))

    def forward(self, x):
        return self.NN(x)


# ---- optimisers that are NOT rebuilt by class on load, or are closure-driven
class ClippedAdam(torch.optim.Adam):
    """a subclass of a stock optimiser (not a direct torch.optim.Optimizer subclass)"""

    def step(self, closure=None):
        for g in self.param_groups:
            torch.nn.utils.clip_grad_norm_(g['params'], 10.0)
        return super().step(closure)


class PlainGD(torch.optim.Optimizer):
    """a user-written optimiser (a direct torch.optim.Optimizer subclass, constructible from the parameters alone)"""

    def __init__(self, params, lr=0.01):
        super().__init__(params, dict(lr=lr))

    def step(self, closure=None):
        loss = closure() if closure is not None else None
        with torch.no_grad():
            for g in self.param_groups:
                for p in g['params']:
                    if p.grad is not None:
                        p.add_(p.grad, alpha=-g['lr'])
        return loss
