"""Drivers shared by the generator checks (C13, C14): spying leaf generators that return
identifiable integer-valued points, canonicalisation of get_examples() results, scripting of
torch.randperm / torch.randint, Coq literal writers."""
import contextlib


def point_value(leaf, call, row, dim):
    """Integer id of coordinate `dim` of row `row` of the `call`-th draw of leaf `leaf`:
    exactly representable, decodable, distinct per (leaf, call, row, dim)."""
    return ((leaf * 1024 + call) * 16 + row) * 4 + dim


def decode_value(v):
    dim = v % 4; v //= 4
    row = v % 16; v //= 16
    return {'leaf': v // 1024, 'call': v % 1024, 'row': row, 'dim': dim}


class Malformed(Exception):
    pass


def to_cols(x, torch, two_d=False):
    """get_examples() result -> (form, [[int,...] per dimension]).  form in 'tensor' | 'list' | 'tuple'.
    Every value must be an exactly integer float; every vector 1-D (or (n,1) when two_d)."""
    if isinstance(x, torch.Tensor):
        form, vs = 'tensor', [x]
    elif isinstance(x, list):
        form, vs = 'list', x
    elif isinstance(x, tuple):
        form, vs = 'tuple', list(x)
    else:
        raise Malformed(f'get_examples returned {type(x).__name__}')
    cols = []
    for v in vs:
        if not isinstance(v, torch.Tensor):
            raise Malformed(f'component of type {type(v).__name__}')
        if two_d:
            if v.dim() != 2 or v.shape[1] != 1:
                raise Malformed(f'shape {tuple(v.shape)} is not (n, 1)')
            v = v.reshape(-1)
        elif v.dim() != 1:
            raise Malformed(f'shape {tuple(v.shape)} is not 1-D')
        c = []
        for f in v.detach().tolist():
            i = int(round(f))
            if float(i) != float(f):
                raise Malformed(f'non-integer value {f!r}')
            c.append(i)
        cols.append(c)
    return form, cols


def rows_of(cols):
    """columns -> list of row tuples; columns of unequal length raise Malformed."""
    if not cols:
        return []
    n = len(cols[0])
    if any(len(c) != n for c in cols):
        raise Malformed(f'dimensions of unequal length {[len(c) for c in cols]}')
    return [tuple(c[i] for c in cols) for i in range(n)]


def make_leaf_class(torch, BaseGenerator):
    class SpyLeaf(BaseGenerator):
        """A leaf generator with identifiable points.  sizes: list cycled over the calls (a
        constant size is a one-element list); .size is the size of the next/first draw as a
        static attribute (the first size), like the library's own leaves."""

        def __init__(self, leaf_id, dims, sizes, form='list'):
            super().__init__()
            self.leaf_id, self.dims, self.sizes, self.form = leaf_id, dims, list(sizes), form
            self.size = self.sizes[0]
            self.calls = 0
            self.log = []           # columns of every draw
            self.returned = []      # (object handed out, its tensors): must never be mutated by a consumer

        def get_examples(self):
            k = self.calls
            n = self.sizes[k % len(self.sizes)]
            self.calls += 1
            cols = [[point_value(self.leaf_id, k, i, j) for i in range(n)] for j in range(self.dims)]
            self.log.append(cols)
            ts = [torch.tensor([float(v) for v in c], dtype=torch.float64, requires_grad=True) for c in cols]
            out = ts[0] if (self.dims == 1 and self.form != 'list1') else (tuple(ts) if self.form == 'tuple' else ts)
            self.returned.append((out, list(ts)))
            return out

        def mutated(self):
            """None, or a description of a handed-out object that no longer holds what was handed out"""
            for k, (out, ts) in enumerate(self.returned):
                now = [[int(round(v)) for v in t.detach().reshape(-1).tolist()] for t in ts]
                if now != self.log[k]:
                    return f'tensors of draw {k} of leaf L{self.leaf_id} now hold {[len(c) for c in now]} values per dimension, handed out {[len(c) for c in self.log[k]]}'
                if isinstance(out, (list, tuple)) and (len(out) != len(ts) or any(a is not b for a, b in zip(out, ts))):
                    return f'the {type(out).__name__} handed out as draw {k} of leaf L{self.leaf_id} was modified in place'
            return None

    return SpyLeaf


def spy_on(gen, torch):
    """Record everything `gen.get_examples()` returns (instance-level wrapping, process-local)."""
    inner = gen.get_examples
    gen._spy_log = []
    gen._spy_raw = []        # (object returned, members, snapshot) to detect later in-place modification

    def wrapped():
        out = inner()
        try:
            cols = to_cols(out, torch)[1]
            gen._spy_log.append(cols)
            gen._spy_raw.append((out, list(out) if isinstance(out, (list, tuple)) else [out], cols))
        except Malformed as e:
            gen._spy_log.append(('malformed', str(e)))
        return out
    gen.get_examples = wrapped
    return gen


@contextlib.contextmanager
def scripted_rng(torch, script):
    """Replace torch.randperm / torch.randint (process-local) by functions that pop the next
    scripted index vector.  script: object with .randperm(n) -> list and .randint(high, size) -> list;
    every call is recorded by the script itself."""
    old_p, old_i = torch.randperm, torch.randint

    def randperm(n, *a, **k):
        return torch.tensor(script.randperm(int(n)), dtype=torch.long)

    def randint(*args, **k):
        if len(args) == 2:
            high, size = args
        else:
            _, high, size = args
        return torch.tensor(script.randint(int(high), int(size[0])), dtype=torch.long)
    torch.randperm, torch.randint = randperm, randint
    try:
        yield
    finally:
        torch.randperm, torch.randint = old_p, old_i


# ---- Coq literals
def zlist(xs):
    return '[' + ';'.join(str(int(x)) for x in xs) + ']'


def zcols(cols):
    return '[' + ';'.join(zlist(c) for c in cols) + ']'


def zcols_list(draws):
    return '[' + ';'.join(zcols(c) for c in draws) + ']'


def natlist(xs):
    return '[' + ';'.join(f'{int(x)}%nat' for x in xs) + ']'


def raw_mutated(raws, torch):
    """raws: [(object, members, snapshot columns)] -> None or a description of the first object modified in place"""
    for k, (out, members, cols) in enumerate(raws):
        try:
            now = to_cols(out, torch)[1]
        except Malformed as e:
            return f'object returned by call {k} is now malformed: {e}'
        if now != cols:
            return (f'the {type(out).__name__} returned by call {k} now holds {[len(c) for c in now]} values per dimension, '
                    f'it held {[len(c) for c in cols]} when it was returned')
        if isinstance(out, (list, tuple)) and (len(out) != len(members) or any(a is not b for a, b in zip(out, members))):
            return f'the {type(out).__name__} returned by call {k} was modified in place'
    return None
