"""Harness pieces for C20 (legacy space-time API): scripted `torch.rand` / recorded
`torch.randperm` (process-local wrapping, restored on exit), a spying approximator, integer
point generators, Q literals for the in-Coq evaluation of the generated sampler steps."""
import contextlib
from fractions import Fraction


def qlit(x):
    """exact Coq Q literal of a float / Fraction / int"""
    fr = x if isinstance(x, Fraction) else Fraction(float(x))
    if fr.numerator < 0:
        return f'((-{-fr.numerator}) # {fr.denominator})'
    return f'({fr.numerator} # {fr.denominator})'


class Oracle:
    """rnd(c, j) = ((a*c + b*j + s) mod m) / m  -- the same closed form in Python and in Coq;
    m is a power of two, so every value is an exactly representable float in [0, 1)."""

    def __init__(self, a, b, s, m=1024):
        self.a, self.b, self.s, self.m = a, b, s, m

    def value(self, c, j):
        return ((self.a * c + self.b * j + self.s) % self.m) / self.m

    def coq(self):
        return (f'(fun (c j : nat) => Qred (Qmake (Z.modulo ({self.a} * Z.of_nat c + {self.b} * Z.of_nat j + {self.s}) {self.m}) '
                f'{self.m}%positive))')

    def describe(self):
        return {'a': self.a, 'b': self.b, 's': self.s, 'm': self.m}


@contextlib.contextmanager
def scripted_rand(torch, oracle):
    """replace torch.rand(n) by the oracle's c-th call (c counts calls inside the context)"""
    import numpy as np
    orig = torch.rand
    state = {'calls': 0}

    def fake(*size, **kw):
        if len(size) != 1 or not isinstance(size[0], int) or kw:
            raise RuntimeError(f'scripted torch.rand: unexpected call rand{size} {kw}')
        c = state['calls']
        state['calls'] += 1
        j = np.arange(size[0], dtype=np.int64)
        vals = ((oracle.a * c + oracle.b * j + oracle.s) % oracle.m) / oracle.m
        return torch.tensor(vals, dtype=torch.float64)
    torch.rand = fake
    try:
        yield state
    finally:
        torch.rand = orig


@contextlib.contextmanager
def recorded_randperm(torch, log):
    orig = torch.randperm

    def rec(n, *a, **kw):
        p = orig(n, *a, **kw)
        log.append([int(v) for v in p])
        return p
    torch.randperm = rec
    try:
        yield
    finally:
        torch.randperm = orig


def make_spy(torch, T, decode, value=float):
    """A custom temporal.Approximator whose calculate_loss / calculate_metrics record what they
    were called with.  `decode(args) -> list of training-point indices` identifies the points of
    a batch.  Every call returns its own call index as the value (so that the history entries can
    be traced to the call that produced them); `value(k)` may map the index to signed / zero / NaN values."""

    class Spy(T.Approximator):
        def __init__(self):
            self.w = torch.nn.Parameter(torch.zeros(1))
            self.calls = []          # ('loss'|'metrics', [indices])

        def __call__(self, *a):
            raise RuntimeError('not used')

        def parameters(self):
            return [self.w]

        def calculate_loss(self, *args):
            k = len(self.calls)
            self.calls.append(('loss', decode(args), value(k)))
            return (self.w * 0).sum() + value(k)

        def calculate_metrics(self, *args):
            metrics = args[-1]
            k = len(self.calls)
            self.calls.append(('metrics', decode(args[:-1]), value(k)))
            return {name: torch.tensor(value(k)) for name in metrics}
    return Spy()


def int_gen(torch, values):
    """generator yielding a fresh float tensor of the given integer values on every next()"""
    while True:
        yield torch.tensor([float(v) for v in values], dtype=torch.float64)


def int_gen2(torch, xs, ys):
    while True:
        yield (torch.tensor([float(v) for v in xs], dtype=torch.float64),
               torch.tensor([float(v) for v in ys], dtype=torch.float64))
