"""Driver for C18: runs save / load / fit scenarios on the real Solver1D, BundleSolver1D and
Solver2D, abstracts the observable solver state (fingerprint ids for networks / optimiser /
functions, Fractions for numbers), evaluates the property's own oracle and produces the traces
that coq/model/Persist.v is compared with inside Coq."""
import contextlib
import hashlib
import inspect
import io
import os
import types
from fractions import Fraction

from harness import persist_funcs as PF

GRID_N = 5


class Ids:
    """stable small integer ids for things that can only be compared for identity"""

    def __init__(self):
        self.tables = {}

    def get(self, table, key):
        t = self.tables.setdefault(table, {})
        if key not in t:
            t[key] = len(t) + 1
        return t[key]


def qlit(x):
    fr = Fraction(float(x))
    n = f'(-{-fr.numerator})' if fr.numerator < 0 else str(fr.numerator)
    return f'({n} # {fr.denominator})%Q'


def fp_net(net):
    """parameters, buffers (BatchNorm running statistics) and the training flag of every module"""
    h = hashlib.sha256()
    for k, v in net.state_dict().items():
        h.update(k.encode())
        h.update(v.detach().cpu().numpy().tobytes())
    h.update(bytes(int(m.training) for m in net.modules()))
    return h.hexdigest()


def modes(nets):
    return None if nets is None else [[bool(m.training) for m in n.modules()] for n in nets]


def fp_opt(opt):
    h = hashlib.sha256()
    sd = opt.state_dict()
    h.update(type(opt).__name__.encode())
    for g in sd['param_groups']:
        h.update(repr(sorted((k, repr(v)) for k, v in g.items())).encode())
    for k in sorted(sd['state']):
        for kk in sorted(sd['state'][k]):
            v = sd['state'][k][kk]
            h.update(str(kk).encode())
            h.update(v.detach().cpu().numpy().tobytes() if hasattr(v, 'detach') else repr(v).encode())
    return h.hexdigest()


def fun_key(fn):
    return (getattr(fn, '__module__', None), fn.__qualname__, hashlib.sha256(fn.__code__.co_code).hexdigest()[:12],
            repr(fn.__code__.co_consts))


def has_source(fn):
    try:
        inspect.getsourcelines(fn)
        return True
    except Exception:
        return False


DEFAULT_LOSS_QUALNAME = 'BaseSolver._set_loss_fn.<locals>.<lambda>'


def loss_id(ids, fn):
    if getattr(fn, '__qualname__', '') == DEFAULT_LOSS_QUALNAME:
        return 0
    return ids.get('loss', fun_key(fn) if isinstance(fn, types.FunctionType) else repr(fn))


def abstract_cond(ids, ci, cond, slots):
    """condition -> (type id, [(key, attr)]) ; attr is a tuple ('num', Fraction) | ('none',) | ('fun', id, has_src)
    | ('src', id) | ('str', id) | ('other', id)"""
    tname = type(cond).__name__
    out = []
    for k, v in cond.__dict__.items():
        if v is None:
            a = ('none',)
        elif isinstance(v, bool):
            a = ('other', ids.get('other', repr(v)))
        elif isinstance(v, (int, float)):
            a = ('num', Fraction(float(v)))
        elif isinstance(v, types.FunctionType):
            fid = ids.get('fun', fun_key(v))
            slots.setdefault((ci, k), fid)
            a = ('fun', fid, has_source(v))
        elif isinstance(v, str):
            if (ci, k) in slots and v != '':
                a = ('src', slots[(ci, k)])       # the slot held function slots[(ci,k)]; now it holds text
            else:
                a = ('str', ids.get('str', v))
        else:
            a = ('other', ids.get('other', repr(v)))
        out.append((k, a))
    return ids.get('str', tname), out


def abstract(solver, ids, slots):
    kind = type(solver).__name__
    st = {
        'kind': kind,
        'nets': [ids.get('net', fp_net(n)) for n in solver.nets],
        'opt': ids.get('opt', fp_opt(solver.optimizer)),
        'train': [float(v) for v in solver.metrics_history['train_loss']],
        'valid': [float(v) for v in solver.metrics_history['valid_loss']],
        'lowest': None if solver.lowest_loss is None else float(solver.lowest_loss),
        'best': None if solver.best_nets is None else [ids.get('net', fp_net(n)) for n in solver.best_nets],
        'conds': [abstract_cond(ids, ci, c, slots) for ci, c in enumerate(solver.conditions)],
        'loss': loss_id(ids, solver.loss_fn),
        'global_epoch': solver.global_epoch,
        'draws': gen_counts(solver),
        'stochastic': any(type(m).__name__.startswith('Dropout') and m.training for n in solver.nets for m in n.modules()),
    }
    if kind == 'BundleSolver1D':
        off = len(solver.conditions) + 1
        st['top'] = [i - off for i in solver.eq_param_index]
    else:
        st['top'] = None
    return st


def gen_counts(solver):
    out = []
    for key in ('train', 'valid'):
        g = getattr(solver.generator[key], 'generator', None)
        out.append(getattr(g, 'count', 0))
    return out


def rng_states(torch):
    import random
    import numpy as np
    return {'torch': torch.get_rng_state().clone(), 'python': random.getstate(), 'numpy': np.random.get_state()[1].copy()}


def rng_changes(torch, before, after):
    out = []
    if not torch.equal(before['torch'], after['torch']):
        out.append('torch')
    if before['python'] != after['python']:
        out.append('python')
    if not (before['numpy'] == after['numpy']).all():
        out.append('numpy')
    return out


# ------------------------------------------------------------------ Coq rendering
KIND = {'Solver1D': 'K1D', 'BundleSolver1D': 'KBundle', 'Solver2D': 'K2D'}


def coq_attr(a):
    if a[0] == 'num':
        return f'ANum ({a[1].numerator}) {a[1].denominator}'
    if a[0] == 'none':
        return 'ANone'
    if a[0] == 'fun':
        return f'AFun {a[1]} {"true" if a[2] else "false"}'
    return {'src': 'ASrc', 'str': 'AStr', 'other': 'AOther'}[a[0]] + f' {a[1]}'


def coq_conds(conds):
    return '[' + '; '.join('mkCond %d [%s]' % (t, '; '.join(f'("{k}"%string, {coq_attr(a)})' for k, a in attrs))
                           for t, attrs in conds) + ']'


def coq_zl(xs):
    return '[' + '; '.join(f'{x}%Z' for x in xs) + ']'


def coq_ql(xs):
    return '[' + '; '.join(qlit(x) for x in xs) + ']'


def coq_opt(x, f):
    return 'None' if x is None else f'(Some {f(x)})'


def coq_state(a, n_params, eqs):
    layers = '[' + '; '.join('[' + '; '.join(str(i) for i in l) + ']' for l in eqs) + ']'
    return (f'(mkState {KIND[a["kind"]]} {coq_zl(a["nets"])} {a["opt"]}%Z {coq_ql(a["train"])} {coq_ql(a["valid"])} '
            f'{coq_opt(a["lowest"], qlit)} {coq_opt(a["best"], coq_zl)} {coq_conds(a["conds"])} {a["loss"]} {n_params} {layers} '
            f'(mkEnv {a["draws"][0]} {a["draws"][1]} 0 0 0 {"true" if a.get("stochastic") else "false"}))')


def coq_obs(a, next_fit_ok, rng=(0, 0)):
    top = 'None' if a['top'] is None else '(Some [' + '; '.join(str(i) for i in a['top']) + '])'
    nf = 'None' if next_fit_ok is None else f'(Some {"true" if next_fit_ok else "false"})'
    return (f'(mkObs {KIND[a["kind"]]} {coq_zl(a["nets"])} {a["opt"]}%Z {coq_ql(a["train"])} {coq_ql(a["valid"])} '
            f'{coq_opt(a["lowest"], qlit)} {coq_opt(a["best"], coq_zl)} {coq_conds(a["conds"])} {a["loss"]} {top} {nf} '
            f'{a["draws"][0]} {a["draws"][1]} {rng[0]} {rng[1]})')


def coq_epochs(eps):
    return '[' + '; '.join(f'mkEpoch {qlit(e["train"])} {qlit(e["valid"])} {coq_zl(e["nets"])} {e["opt"]}%Z ({e["draws"][0]}, {e["draws"][1]})'
                           for e in eps) + ']'


PREAMBLE = """From Coq Require Import String.
From Coq Require Import List ZArith QArith Bool Arith.
From ND.model Require Import Persist.
From ND.gen Require Import Gen_C18.
Import ListNotations.
Close Scope Q_scope.
Local Open Scope nat_scope.
Record obs := mkObs { o_kind : skind; o_nets : list Z; o_opt : Z; o_train : list Q; o_valid : list Q; o_lowest : option Q;
  o_best : option (list Z); o_conds : list cond; o_loss : nat; o_top : option (list nat); o_next_fit_ok : option bool;
  o_drawn_train : nat; o_drawn_valid : nat; o_py : nat; o_torch : nat }.
(* o_drawn_*: the counting spies around the solver's generators; o_py / o_torch: how many save()
   calls so far changed the global `random` / torch RNG state *)
Definition is_src (a : attr) : bool := match a with ASrc _ => true | _ => false end.
(* the next fit() works: every wrapper layer finds its parameters and no function slot holds text *)
Definition usable (s : state) : bool :=
  trainable s && forallb (fun c => forallb (fun kv => negb (is_src (snd kv))) (c_attrs c)) (conds s).
Definition matches (s : state) (o : obs) : bool :=
  skind_eqb (kind s) (o_kind o) && leqb Z.eqb (nets s) (o_nets o) && Z.eqb (opt s) (o_opt o)
  && leqb Qsame (train_hist s) (o_train o) && leqb Qsame (valid_hist s) (o_valid o)
  && oeqb Qsame (lowest s) (o_lowest o) && oeqb (leqb Z.eqb) (best s) (o_best o)
  && leqb cond_eqb (conds s) (o_conds o) && Nat.eqb (loss_id s) (o_loss o)
  && match o_top o with Some t => match eqs s with l :: _ => leqb Nat.eqb l t | [] => false end | None => true end
  && match o_next_fit_ok o with Some b => Bool.eqb (usable s) b | None => true end
  && Nat.eqb (drawn_train (env s)) (o_drawn_train o) && Nat.eqb (drawn_valid (env s)) (o_drawn_valid o)
  && Nat.eqb (py_random (env s)) (o_py o) && Nat.eqb (torch_rng (env s)) (o_torch o) && Nat.eqb (unknown (env s)) 0.
(* the model runs on its own state; after every operation its observable projection must be what
   the real solver showed *)
Fixpoint check (s : state) (tr : list (op * obs)) : bool :=
  match tr with
  | [] => true
  | (o, ob) :: r => match run_op facts s o with Some s' => matches s' ob && check s' r | None => false end
  end.
"""


# ------------------------------------------------------------------ building the real solvers
def make_gen(torch, spec, dim, lo, hi, role):
    """the solver's generator for `role` (train / valid), wrapped in a counting spy"""
    from neurodiffeq.generators import Generator1D, Generator2D, BatchGenerator, ResampleGenerator
    variant = spec.get('gen', 'default') if role == 'train' else 'default'
    method = 'equally-spaced' if role == 'valid' else {'default': 'equally-spaced-noisy',
                                                        'noisy': 'uniform' if dim == 1 else 'equally-spaced-noisy'}.get(variant, 'equally-spaced')
    if dim == 1:
        base = Generator1D(6, lo, hi, method=method)
    elif dim == 2:
        base = Generator2D((3, 3), lo, hi, method=method)
    else:      # bundle: time x one bundle parameter
        base = Generator1D(4, lo, hi, method=method) ^ Generator1D(4, 0.5, 1.5, method=method)
    if variant == 'batch':
        base = BatchGenerator(base, batch_size=4 if dim != 2 else 3)
    elif variant == 'resample':
        base = ResampleGenerator(base, size=base.size, replacement=True)
    attrs = {'t_min': lo, 't_max': hi} if dim != 2 else {'xy_min': lo, 'xy_max': hi}
    return PF.CountingGenerator(base, **attrs)


def build_solver(torch, spec):
    from neurodiffeq.solvers import Solver1D, Solver2D, BundleSolver1D
    from neurodiffeq.conditions import IVP, DirichletBVP, DirichletBVP2D, BundleIVP
    from neurodiffeq.networks import FCNN
    torch.manual_seed(spec['seed'])
    kind, ck = spec['kind'], spec['cond']
    loss = PF.scaled_loss if spec['custom_loss'] else None
    n_in = {'1d': 1, '2d': 2, 'bundle': 2}[kind]
    net = FCNN(n_in, 1, hidden_units=(3,)) if spec.get('net', 'plain') == 'plain' else PF.ModeNet(n_in, spec['net'])
    lr = spec.get('lr', 0.01)
    opt = {'sgd': lambda: torch.optim.SGD(net.parameters(), lr=lr), 'adam': lambda: torch.optim.Adam(net.parameters(), lr=lr),
           'clipped': lambda: PF.ClippedAdam(net.parameters(), lr=lr),          # subclass of a stock optimiser: load reuses the pickled object
           'plaingd': lambda: PF.PlainGD(net.parameters(), lr=lr),              # user-written optimiser: rebuilt by class
           'lbfgs': lambda: torch.optim.LBFGS(net.parameters(), lr=0.1, max_iter=2)}[spec['opt']]()
    nums = spec['numbers']
    nv = {'n_batches_valid': 0} if spec.get('no_valid') else {}       # validation disabled: best model tracked by the training loss
    if kind == '1d':
        cond = IVP(nums[0], nums[1]) if ck == 'ivp' else DirichletBVP(nums[0], nums[1], nums[0] + 1.0, nums[2])
        bounds = {} if spec.get('no_bounds') else {'t_min': nums[0], 't_max': nums[0] + 1.0}
        return Solver1D(PF.ode1, [cond], nets=[net], optimizer=opt, loss_fn=loss,
                        train_generator=make_gen(torch, spec, 1, nums[0], nums[0] + 1.0, 'train'),
                        valid_generator=make_gen(torch, spec, 1, nums[0], nums[0] + 1.0, 'valid'), **bounds, **nv)
    if kind == '2d':
        fs = {'functions': (PF.edge_sin, PF.edge_zero, PF.edge_lin, PF.edge_zero),
              'nosource': (PF.nosrc_a, PF.nosrc_b, PF.nosrc_c, PF.nosrc_d),
              'mixed': (PF.edge_sin, PF.nosrc_b, PF.nosrc_c, PF.edge_lin)}[ck]
        cond = DirichletBVP2D(nums[0], fs[0], nums[0] + 1.0, fs[1], nums[1], fs[2], nums[1] + 1.0, fs[3])
        lo, hi = (nums[0], nums[1]), (nums[0] + 1.0, nums[1] + 1.0)
        return Solver2D(PF.pde_laplace, [cond], xy_min=lo, xy_max=hi, nets=[net], optimizer=opt, loss_fn=loss,
                        train_generator=make_gen(torch, spec, 2, lo, hi, 'train'),
                        valid_generator=make_gen(torch, spec, 2, lo, hi, 'valid'), **nv)
    cond = BundleIVP(nums[0], nums[1]) if ck == 'ivp' else BundleIVP(nums[0], None, bundle_param_lookup={'u_0': 0})
    epi = (0,) if spec['eq_param'] else ()
    ode = PF.ode_bundle_param if spec['eq_param'] else PF.ode_bundle_plain
    return BundleSolver1D(ode, [cond], t_min=nums[0], t_max=nums[0] + 1.0, theta_min=(0.5,), theta_max=(1.5,), eq_param_index=epi,
                          nets=[net], optimizer=opt, loss_fn=loss, train_generator=make_gen(torch, spec, 3, nums[0], nums[0] + 1.0, 'train'),
                          valid_generator=make_gen(torch, spec, 3, nums[0], nums[0] + 1.0, 'valid'), **nv)


def grid(torch, spec):
    nums = spec['numbers']
    a = torch.linspace(nums[0], nums[0] + 1.0, GRID_N).reshape(-1, 1)
    if spec['kind'] == '1d':
        return (a,)
    if spec['kind'] == '2d':
        return (a, torch.linspace(nums[1], nums[1] + 1.0, GRID_N).reshape(-1, 1))
    return (a, torch.linspace(0.5, 1.5, GRID_N).reshape(-1, 1))


def solutions(torch, solver, spec):
    """{'latest': values | ('raises', name), 'best': ...} on a fixed grid"""
    out = {}
    for name, best in (('latest', False), ('best', True)):
        if best and solver.best_nets is None:
            out[name] = None
            continue
        try:
            with torch.random.fork_rng(), torch.no_grad():
                torch.manual_seed(12345)            # Dropout in training mode: same mask before and after
                u = solver.get_solution(copy=True, best=best)(*grid(torch, spec))
            out[name] = [float(v) for v in u.reshape(-1)]
        except Exception as e:
            out[name] = ('raises', type(e).__name__, str(e)[:80])
    return out


def snapshot(solver):
    """what must not change under save(): shallow copies of the condition dictionaries (values by
    identity), fingerprints of nets / best nets / optimiser, histories, lowest loss"""
    return {
        'conds': [dict(c.__dict__) for c in solver.conditions],
        'nets': [fp_net(n) for n in solver.nets],
        'best': None if solver.best_nets is None else [fp_net(n) for n in solver.best_nets],
        'opt': fp_opt(solver.optimizer),
        'modes': modes(solver.nets), 'best_modes': modes(solver.best_nets),
        'hist': {k: list(v) for k, v in solver.metrics_history.items()},
        'lowest': solver.lowest_loss,
        'loss_fn': solver.loss_fn, 'diff_eqs': solver.diff_eqs,
        'n_batches': dict(solver.n_batches), 'global_epoch': solver.global_epoch,
    }


def diff_snapshots(before, after):
    """-> list of (key suffix, description)"""
    out = []
    for ci, (b, a) in enumerate(zip(before['conds'], after['conds'])):
        for k in a:
            if k not in b:
                out.append(('conditions-dict-mutated/condition_type-added' if k == 'condition_type' else 'conditions-dict-mutated/other',
                            f'condition {ci}: attribute {k!r} = {a[k]!r} was added to condition.__dict__'))
        for k in b:
            if k not in a:
                out.append(('conditions-dict-mutated/other', f'condition {ci}: attribute {k!r} was removed'))
            elif a[k] is not b[k] and not (type(a[k]) is type(b[k]) and not callable(b[k]) and a[k] == b[k]):
                if isinstance(b[k], types.FunctionType) and isinstance(a[k], str):
                    out.append(('conditions-dict-mutated/function-replaced-by-source',
                                f'condition {ci}: attribute {k!r} was a function and is now the string {a[k][:50]!r}'))
                else:
                    out.append(('conditions-dict-mutated/other', f'condition {ci}: attribute {k!r} changed from {b[k]!r} to {a[k]!r}'))
    if before['modes'] != after['modes'] or before['best_modes'] != after['best_modes']:
        which = 'nets' if before['modes'] != after['modes'] else 'best_nets'
        out.append(('module-training-mode-changed', f'the training flag of modules of solver.{which} changed (train <-> eval): '
                    f'mode-dependent layers (Dropout, BatchNorm) now evaluate differently'))
    if before['nets'] != after['nets']:
        out.append(('nets-changed', 'the network parameters / buffers / modes changed'))
    if before['best'] != after['best']:
        out.append(('best-changed', 'best_nets changed'))
    if before['opt'] != after['opt']:
        out.append(('optimizer-changed', 'the optimiser state changed'))
    if before['hist'] != after['hist'] or before['global_epoch'] != after['global_epoch']:
        out.append(('history-changed', 'metrics_history / global_epoch changed'))
    if before['lowest'] != after['lowest']:
        out.append(('lowest-loss-changed', 'lowest_loss changed'))
    if before['loss_fn'] is not after['loss_fn'] or before['diff_eqs'] is not after['diff_eqs'] or before['n_batches'] != after['n_batches']:
        out.append(('config-changed', 'loss_fn / diff_eqs / n_batches changed'))
    return out


@contextlib.contextmanager
def dill_byref_shim():
    """process-local: dill.dump(obj, file) -> dill.dump(obj, file, byref=True).  In this image plain
    dill.dump of any torch optimiser raises PicklingError; by-reference pickling of importable
    objects works, so load paths can be exercised with real files and the real dill.load."""
    import dill
    orig = dill.dump

    def dump(obj, file, *a, **kw):
        kw.setdefault('byref', True)
        return orig(obj, file, *a, **kw)
    dill.dump = dump
    try:
        yield
    finally:
        dill.dump = orig


def run_scenario(ck, torch, spec, workdir, label):
    """-> (coq case or None).  Oracle failures are recorded on ck."""
    ids, slots = Ids(), {}
    inp = dict(spec, kind_='scenario')
    quiet = io.StringIO()
    PF.SCALE[0] = 1.0
    try:
        solver = build_solver(torch, spec)
    except Exception as e:
        ck.fail('construct/raises', f'constructing the {spec["kind"]} solver raised {type(e).__name__}: {e}', inp)
        return None
    n_params = 1 if spec['kind'] == 'bundle' else 0
    eqs0 = [[0] if spec['eq_param'] else []] if spec['kind'] == 'bundle' else []
    s0 = coq_state(abstract(solver, ids, slots), n_params, eqs0)
    trace = []                    # [coq op, abstract state after, next_fit_ok, (py, torch) rng-change counters]
    rng_cnt = [0, 0]              # number of save() calls so far that changed the global `random` / torch RNG state
    fit_marks = []                # after every fit op: what a never-saved twin must reproduce
    kname = {'1d': 'Solver1D', '2d': 'Solver2D', 'bundle': 'BundleSolver1D'}[spec['kind']]
    log = []                      # every epoch of the lineage: (valid loss, nets fingerprint, after_load?)
    sourced = spec['kind'] == '2d' and spec['cond'] in ('functions', 'mixed')
    saved_on_this_object = False
    loads = 0
    at_load = None               # lowest loss / best nets fingerprints the last load had to restore
    path = os.path.join(workdir, f'{label}.sol')

    def rec_epochs(store, sol):
        last = list(gen_counts(sol))

        def cb(s):
            now = gen_counts(s)
            vh_ = s.metrics_history['valid_loss']
            store.append({'train': float(s.metrics_history['train_loss'][-1]),
                          'valid': float(vh_[-1]) if s.n_batches['valid'] > 0 and vh_ else float(s.metrics_history['train_loss'][-1]),
                          'tracked': float(vh_[-1]) if s.n_batches['valid'] > 0 and vh_ else float(s.metrics_history['train_loss'][-1]),
                          'nets': [ids.get('net', fp_net(n)) for n in s.nets], 'opt': ids.get('opt', fp_opt(s.optimizer)),
                          'fp': [fp_net(n) for n in s.nets], 'draws': [now[0] - last[0], now[1] - last[1]]})
            last[:] = now
        return cb

    for oi, op in enumerate(spec['ops']):
        what = op[0]
        if what == 'fit':
            PF.SCALE[0] = float(op[2])
            eps = []
            torch.manual_seed(spec['seed'] + 1000 + oi)         # every fit starts from a known RNG state (twin runs use the same)
            fp_before_fit = [fp_net(n) for n in solver.nets]
            try:
                solver.fit(op[1], callbacks=[rec_epochs(eps, solver)], tqdm_file=None)
                fit_ok = True
            except Exception as e:
                fit_ok = False
                err = f'{type(e).__name__}: {e}'
            if trace:
                trace[-1][2] = fit_ok if op[1] > 0 else None
            if not fit_ok:
                if saved_on_this_object and sourced:
                    ck.fail('save/solver-unusable-after-save',
                            f'after save() the same {type(solver).__name__} can no longer be trained: fit raises {err}', dict(inp, failing_op=oi))
                elif loads and spec['kind'] == 'bundle' and spec['eq_param'] and 'IndexError' in err:
                    ck.fail('load/bundle-eq_param_index-dropped',
                            f'the loaded BundleSolver1D cannot continue training (eq_param_index is not passed on, the equations are wrapped twice): {err}',
                            dict(inp, failing_op=oi))
                elif loads and sourced:
                    ck.fail('load/solutions-differ/function-valued-conditions',
                            f'the loaded {type(solver).__name__} cannot continue training: {err}', dict(inp, failing_op=oi))
                else:
                    ck.fail('fit/raises' if not loads else 'load/fit-raises', f'fit raised {err}', dict(inp, failing_op=oi))
                break
            for e in eps:
                log.append((e['valid'], e['fp'], loads))
            # ---- oracle: epochs after a load whose tracked loss stays above the restored lowest loss must not replace the best nets
            if at_load is not None and at_load['lowest'] is not None and eps and all(e['tracked'] > at_load['lowest'] for e in eps):
                got_best = None if solver.best_nets is None else [fp_net(n) for n in solver.best_nets]
                if got_best != at_load['best'] or solver.lowest_loss != at_load['lowest']:
                    ck.fail('load/best-tracking-forgets-history', f'after load, {len(eps)} epoch(s) with losses {[round(e["tracked"], 4) for e in eps][:3]} all above the '
                            f'saved lowest loss {at_load["lowest"]!r} replaced the best networks (lowest_loss is now {solver.lowest_loss!r}); n_batches_valid = '
                            f'{"0" if spec.get("no_valid") else "default"}', dict(inp, failing_op=oi), at_load['lowest'], solver.lowest_loss)
            if at_load is not None and eps and any(e['tracked'] <= (at_load['lowest'] if at_load['lowest'] is not None else float('inf')) for e in eps):
                at_load = None       # a genuinely better epoch: the reference no longer applies
            trace.append([f'OFit {coq_epochs(eps)}', abstract(solver, ids, slots), None, tuple(rng_cnt)])
            fit_marks.append((oi, list(solver.metrics_history['train_loss']), list(solver.metrics_history['valid_loss']),
                              [fp_net(n) for n in solver.nets], gen_counts(solver), loads, fp_before_fit))
            ck.traces += len(eps)
            # ---- oracle: best tracking refers to the lowest validation loss of the WHOLE history
            vh = [float(v) for v in solver.metrics_history['valid_loss']]
            if vh and len(vh) == len(log):
                m = min(vh)
                j = vh.index(m)
                exp_best = log[j][1]
                got_best = None if solver.best_nets is None else [fp_net(n) for n in solver.best_nets]
                if solver.lowest_loss != m or got_best != exp_best:
                    key = 'load/best-tracking-forgets-history' if log[j][2] < loads else 'fit/best-tracking-wrong'
                    ck.fail(key, f'after {len(vh)} epochs (loads so far: {loads}) lowest_loss = {solver.lowest_loss!r} but the lowest '
                            f'validation loss of the whole history is {m!r} (epoch {j}); best_nets '
                            f'{"are" if got_best == exp_best else "are NOT"} the networks of that epoch', dict(inp, failing_op=oi), m, solver.lowest_loss)
        elif what in ('save', 'saveload'):
            ref = solutions(torch, solver, spec)
            before = snapshot(solver)
            rng0, cnt0 = rng_states(torch), gen_counts(solver)
            try:
                with contextlib.redirect_stdout(quiet):
                    solver.save(path=path)
                ok, exc = True, None
            except Exception as e:
                ok, exc = False, type(e).__name__
            rng1, cnt1 = rng_states(torch), gen_counts(solver)
            after = snapshot(solver)
            saved_on_this_object = True
            how = 'succeeded' if ok else 'raised ' + exc
            # ---- oracle: the generators' next draws and the global RNG streams are part of "unchanged"
            for role, a0, a1 in (('train', cnt0[0], cnt1[0]), ('valid', cnt0[1], cnt1[1])):
                if a1 != a0:
                    ck.fail(f'save/consumes-{role}-generator/{kname}', f'save() ({how}) drew {a1 - a0} batch(es) from the solver\'s own {role} generator '
                            f'({spec.get("gen", "default")}): later training no longer sees the batches a never-saved solver sees',
                            dict(inp, failing_op=oi), a0, a1)
            changed = rng_changes(torch, rng0, rng1)
            for which in changed:
                ck.fail(f'save/advances-{which}-rng/{kname}' if which != 'python' else f'save/advances-python-random/{kname}',
                        f'save() ({how}) advanced the global {which} random state', dict(inp, failing_op=oi))
            rng_cnt[0] += 'python' in changed
            rng_cnt[1] += 'torch' in changed
            for suffix, desc in diff_snapshots(before, after):
                ck.fail(f'save/{suffix}', f'save() ({"succeeded" if ok else "raised " + exc}) altered the solver: {desc}',
                        dict(inp, failing_op=oi))
            now = solutions(torch, solver, spec)
            for name in ('latest', 'best'):
                if now[name] != ref[name] and not (sourced and isinstance(now[name], tuple)):
                    ck.fail(f'save/{name}-solution-changes', f'the {name} solution of the SAME solver evaluates differently after save() ({how}) '
                            f'under the same torch seed: {str(now[name])[:70]} vs {str(ref[name])[:70]}', dict(inp, failing_op=oi), ref[name], now[name])
            if ok and what == 'saveload':
                try:
                    with contextlib.redirect_stdout(quiet):
                        loaded = type(solver).load(path=path)
                except Exception as e:
                    ck.fail('load/raises', f'{type(solver).__name__}.load raised {type(e).__name__}: {e}', dict(inp, failing_op=oi))
                    trace.append([f'OSave true', abstract(solver, ids, slots), None, tuple(rng_cnt)])
                    break
                if type(loaded) is not type(solver):
                    ck.fail('load/kind-differs', f'load returned a {type(loaded).__name__} for a saved {type(solver).__name__}', dict(inp, failing_op=oi))
                got = solutions(torch, loaded, spec)
                for name in ('latest', 'best'):
                    if got[name] != ref[name]:
                        plain_key = f'load/{name}-solution-differs'
                        key = 'load/solutions-differ/function-valued-conditions' if sourced else plain_key
                        ck.fail(key, f'the {name} solution of the loaded solver differs from the original: {str(got[name])[:90]} vs {str(ref[name])[:60]}',
                                dict(inp, failing_op=oi), ref[name], got[name])
                for hk in ('train_loss', 'valid_loss'):
                    if list(loaded.metrics_history[hk]) != before['hist'][hk]:
                        ck.fail('load/history-differs', f'{hk} history of the loaded solver differs: {len(loaded.metrics_history[hk])} entries vs '
                                f'{len(before["hist"][hk])}', dict(inp, failing_op=oi), before['hist'][hk], list(loaded.metrics_history[hk]))
                if loaded.global_epoch != before['global_epoch']:
                    ck.fail('load/global-epoch-differs', f'global_epoch {loaded.global_epoch} vs {before["global_epoch"]}', dict(inp, failing_op=oi),
                            before['global_epoch'], loaded.global_epoch)
                if fp_opt(loaded.optimizer) != before['opt']:
                    ck.fail('load/optimizer-differs', 'optimiser class / hyper-parameters / state differ after load', dict(inp, failing_op=oi))
                net_ps = [p for n in loaded.nets for p in n.parameters()]
                opt_ps = [q for g in loaded.optimizer.param_groups for q in g['params']]
                if not (all(any(p is q for q in opt_ps) for p in net_ps) and all(any(q is p for p in net_ps) for q in opt_ps)):
                    ck.fail('load/optimizer-not-linked', f'the param_groups of the loaded {type(loaded.optimizer).__name__} do not reference (by identity) '
                            f'exactly the parameters of the loaded networks: training would not move them', dict(inp, failing_op=oi))
                if spec['custom_loss'] and loaded.loss_fn is not before['loss_fn']:
                    ck.fail('load/bundle-loss_fn-dropped' if spec['kind'] == 'bundle' else 'load/loss_fn-differs',
                            f'the loaded {type(loaded).__name__} does not use the saved loss function', dict(inp, failing_op=oi))
                if loaded.lowest_loss != before['lowest']:
                    ck.fail('load/lowest-loss-differs', f'lowest_loss of the loaded solver is {loaded.lowest_loss!r}, the saved solver\'s was {before["lowest"]!r} '
                            f'(n_batches_valid = {"0: best model tracked by the training loss" if spec.get("no_valid") else "default"})',
                            dict(inp, failing_op=oi), before['lowest'], loaded.lowest_loss)
                at_load = {'lowest': before['lowest'], 'best': before['best']}
                solver = loaded
                loads += 1
                saved_on_this_object = False
                if gen_counts(loaded) != cnt1:
                    ck.fail('load/generator-position-differs', f'the loaded solver\'s generators have been drawn from {gen_counts(loaded)} times, '
                            f'the saved solver\'s {cnt1} times', dict(inp, failing_op=oi), cnt1, gen_counts(loaded))
                trace.append(['OSaveLoad', abstract(solver, ids, slots), None, tuple(rng_cnt)])
            else:
                trace.append([f'OSave {"true" if ok else "false"}', abstract(solver, ids, slots), None, tuple(rng_cnt)])
            ck.traces += 1
        elif what == 'checkpoint':
            from neurodiffeq.callbacks import CheckpointCallback
            before = snapshot(solver)
            try:
                CheckpointCallback(os.path.join(workdir, f'{label}_ckpt'))(solver)
            except Exception:
                pass
            for suffix, desc in diff_snapshots(before, snapshot(solver)):
                ck.fail(f'checkpoint/{suffix}', f'CheckpointCallback altered the solver: {desc}', dict(inp, failing_op=oi))
            ck.traces += 1
    # ---- oracle: the never-saved twin.  Same construction, same fits from the same RNG states, no save /
    # checkpoint: histories, networks and the spies' draw counts must coincide after every fit
    if spec.get('twin') and fit_marks:
        PF.SCALE[0] = 1.0
        twin = build_solver(torch, spec)
        marks = {m[0]: m for m in fit_marks}
        for oi, op in enumerate(spec['ops']):
            if op[0] != 'fit' or oi not in marks:
                continue
            PF.SCALE[0] = float(op[2])
            torch.manual_seed(spec['seed'] + 1000 + oi)
            tw_before = [fp_net(n) for n in twin.nets]
            twin.fit(op[1], tqdm_file=None)
            _, th, vh, fps, cnts, n_loads, fp_before = marks[oi]
            if spec.get('no_valid') and n_loads:
                break
            got = (list(twin.metrics_history['train_loss']), list(twin.metrics_history['valid_loss']), [fp_net(n) for n in twin.nets], gen_counts(twin))
            if n_loads and fps == fp_before and got[2] != tw_before:
                ck.fail(f'load/networks-do-not-move/{kname}', f'fit({op[1]}) on the loaded solver ({spec["opt"]} optimiser) leaves its network parameters '
                        f'unchanged, while the same fit moves the never-saved twin: the loaded solver cannot continue training', dict(inp, failing_op=oi))
                break
            if got != (th, vh, fps, cnts):
                what_differs = [n for n, x, y in zip(('train_loss history', 'valid_loss history', 'network parameters', 'generator draw counts'),
                                                     got, (th, vh, fps, cnts)) if x != y]
                ck.fail(f'{"load" if n_loads else "save"}/twin-diverges/{kname}', f'after save(){" + load()" if n_loads else ""} and further training '
                        f'the solver differs from an identical solver that was never saved (generator variant {spec.get("gen", "default")}, '
                        f'{spec["opt"]} optimiser): {", ".join(what_differs)}', dict(inp, failing_op=oi),
                        {'train_loss': got[0][-3:], 'draws': got[3]}, {'train_loss': th[-3:], 'draws': cnts})
                break
        ck.traces += len(fit_marks)
    PF.SCALE[0] = 1.0
    if not trace or spec.get('no_valid'):
        return None              # Persist.v models best tracking by the validation loss (n_batches_valid > 0): oracle only here
    tr = '; '.join(f'({o}, {coq_obs(a, nf, rc)})' for o, a, nf, rc in trace)
    return f'check {s0} [{tr}]'
