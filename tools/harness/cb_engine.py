"""C16 harness, part 2: run a table of (condition tree, action) callbacks through a sequence of
REAL fit() calls of a tiny real Solver1D, observe what happened at the end of every epoch, and
produce (a) the Coq correspondence case for the fit model of coq/model/Callbacks.v and (b) the
expected observations from an independent simulation of the DOCUMENTED behaviour.

An entry of the table is {'tree': <cb_trees tree>, 'act': ('rec',) | ('stop',) | ('loss', id, reset)
| ('opti', id, reset) | ('optc', reset)}.  A call is (max_epochs, mask) with mask[j] = entry j is passed
to this fit().  The train / valid losses are scripted integers (script[g] = value of the epoch
that makes global_epoch g + 1), so histories are exact.
"""
from harness import cb_trees as T


class Ctx:
    def __init__(self, torch):
        import neurodiffeq.callbacks as CB
        from neurodiffeq.solvers import Solver1D
        from neurodiffeq.conditions import IVP
        from neurodiffeq.generators import Generator1D
        from neurodiffeq.neurodiffeq import safe_diff
        self.torch, self.CB, self.Solver1D, self.IVP, self.Generator1D, self.diff = torch, CB, Solver1D, IVP, Generator1D, safe_diff

        class CountingSGD(torch.optim.SGD):
            built = 0

            def __init__(self, params, *a, **k):
                type(self).built += 1
                self.serial = type(self).built
                super().__init__(params, *a, **k)
        self.CountingSGD = CountingSGD

    def solver(self, nets=None, valid_on=True, metrics=None, n_funcs=None):
        torch = self.torch
        if nets is None:
            nets = [torch.nn.Linear(1, 1)]
        params = []
        for n in nets:
            for p in n.parameters():
                if all(p is not q for q in params):
                    params.append(p)
        diff = self.diff
        return self.Solver1D(
            ode_system=lambda *a: [diff(u, a[-1]) + u for u in a[:-1]],
            conditions=[self.IVP(0.0, 1.0) for _ in nets], t_min=0.0, t_max=1.0, nets=nets,
            train_generator=self.Generator1D(3, 0.0, 1.0), valid_generator=self.Generator1D(3, 0.0, 1.0),
            optimizer=torch.optim.SGD(params, lr=0.015625), n_batches_train=1, n_batches_valid=1 if valid_on else 0,
            metrics=metrics)


def scripted_loss(holder, st, sv):
    def f(r, fs, x):
        s = holder['s']
        ph = s._phase
        idx = len(s.metrics_history[ph + '_loss'])
        seq = st if ph == 'train' else sv
        return 0.0 * (r ** 2).mean() + float(seq[idx])
    return f


def n_loss_ids(table):
    return 1 + max([e['act'][1] for e in table if e['act'][0] == 'loss'] + [0])


def n_opt_ids(table):
    return 1 + max([e['act'][1] for e in table if e['act'][0] == 'opti'] + [0])


def scripted_metric(holder, name, ct, cv, torch):
    def f(*args):
        s = holder['s']
        ph = s._phase
        idx = len(s.metrics_history[ph + '__' + name])
        return torch.tensor(float((ct if ph == 'train' else cv)[idx]))
    return f


def run_real(ctx, table, calls, st, sv, valid_on=True, ops_rng=None, cscripts=None, dag=None):
    """Returns (per-call list of epoch records, final global epoch, error string or None)."""
    CB, torch = ctx.CB, ctx.torch
    holder = {}
    metrics = {name: scripted_metric(holder, name, ct, cv, torch) for name, (ct, cv) in (cscripts or {}).items()}
    solver = ctx.solver(valid_on=valid_on, metrics=metrics or None)
    holder['s'] = solver
    losses = [scripted_loss(holder, st, sv) for _ in range(n_loss_ids(table))]
    solver._set_loss_fn(losses[0])
    opts = [solver.optimizer] + [torch.optim.SGD(solver.nets[0].parameters(), lr=0.015625) for _ in range(n_opt_ids(table) - 1)]
    ctx.CountingSGD.built = 0
    cur = []

    def spy(cls, idx, *a, **k):
        class Spy(cls):
            def __call__(self, s):
                cur.append(idx)
                return super().__call__(s)
        Spy.__name__ = 'Spy' + cls.__name__
        return Spy(*a, **k)

    class Rec(CB.ActionCallback):
        def __init__(self, idx):
            super().__init__()
            self.idx = idx

        def __call__(self, s):
            cur.append(self.idx)

    acts = []
    for j, e in enumerate(table):
        a = e['act']
        if a[0] == 'rec':
            act = Rec(j)
        elif a[0] == 'stop':
            act = spy(CB.StopCallback, j)
        elif a[0] == 'loss':
            act = spy(CB.SetLossFn, j, losses[a[1]], reset=a[2])
        elif a[0] == 'opti':
            act = spy(CB.SetOptimizer, j, opts[a[1]], reset=a[2])
        elif a[0] == 'optc':
            act = spy(CB.SetOptimizer, j, ctx.CountingSGD, optimizer_kwargs={'lr': 0.015625}, reset=a[1])
        else:
            raise ValueError(a)
        acts.append(act)
    cbs = []
    if dag is not None:
        # shared sub-expressions: the DAG is built with the real operators on shared objects, actions attached in its order
        cbs = T.dag_build(CB, dag, acts)
        for j, cb in enumerate(cbs):
            if cb.action_callback is not acts[j]:
                return None, None, 'an action attached to one condition callback ended up on another one'
    else:
        for j, e in enumerate(table):
            act = acts[j]
            cond = T.build(CB, e['tree'], ops_rng)
            if j % 2 == 0:
                cb = act.conditioned_on(cond)
            else:
                cb = cond.set_action_callback(act)
            if cb is not cond or cond.action_callback is not act:
                return None, None, 'conditioned_on/set_action_callback did not return the condition callback with the action attached'
            cbs.append(cb)

    recs = []

    def loss_id(f):
        for i, g in enumerate(losses):
            if f is g:
                return i
        return 99

    def opt_id(o):
        for i, g in enumerate(opts):
            if o is g:
                return i
        if isinstance(o, ctx.CountingSGD):
            return -o.serial
        return 99

    def observer(s):
        recs.append({'l': s.local_epoch, 'g': s.global_epoch, 'm': s._max_local_epoch, 'fired': list(cur),
                     'stop': bool(s._stop_training), 'loss': loss_id(s.loss_fn), 'opt': opt_id(s.optimizer)})
        del cur[:]

    out = []
    try:
        for (mx, mask) in calls:
            del recs[:]
            passed = [cbs[j] for j in range(len(cbs)) if j < len(mask) and mask[j]] + [observer]
            solver.fit(mx, callbacks=passed, tqdm_file=None)
            out.append([dict(r) for r in recs])
    except Exception as ex:   # a callback raised: canonicalise
        return out, solver.global_epoch, f'{type(ex).__name__}: {ex}'
    return out, solver.global_epoch, None


def doc_sim(table, calls, st, sv, valid_on=True, cscripts=None):
    """The documented behaviour: callbacks run in order after every epoch, each runs its action
    iff its documented predicate holds; stop ends the fit after the epoch in which it fired;
    set-once actions take effect at their first firing, or at every firing with reset."""
    g, l, stop, loss, opt, nopt = 0, 0, False, 0, 0, 0
    ht, hv = [], []
    custom = {name: ([], []) for name in (cscripts or {})}
    called = [False] * len(table)
    out = []
    for (mx, mask) in calls:
        stop = False
        recs = []
        for e in range(1, mx + 1):
            if stop:
                break
            l = e
            ht.append(st[g])
            if valid_on:
                hv.append(sv[g])
            for name, (ct, cv) in (cscripts or {}).items():
                custom[name][0].append(ct[g])
                if valid_on:
                    custom[name][1].append(cv[g])
            g += 1
            fired = []
            for j, ent in enumerate(table):
                if not (j < len(mask) and mask[j]):
                    continue
                if not T.doc(ent['tree'], l, g, mx, ht, hv, custom):
                    continue
                fired.append(j)
                a = ent['act']
                if a[0] == 'stop':
                    stop = True
                elif a[0] in ('loss', 'opti', 'optc'):
                    reset = a[-1]
                    if reset or not called[j]:
                        called[j] = True
                        if a[0] == 'loss':
                            loss = a[1]
                        elif a[0] == 'opti':
                            opt = a[1]
                        else:
                            nopt += 1
                            opt = -nopt
            recs.append({'l': l, 'g': g, 'm': mx, 'fired': fired, 'stop': stop, 'loss': loss, 'opt': opt})
        out.append(recs)
    return out, g


def coq_action(a):
    if a[0] == 'rec':
        return 'ARecord'
    if a[0] == 'stop':
        return 'AStop'
    if a[0] == 'loss':
        return f'(ASetLoss {T.z(a[1])} {T.coq_bool(a[2])})'
    if a[0] == 'opti':
        return f'(ASetOptInst {T.z(a[1])} {T.coq_bool(a[2])})'
    return f'(ASetOptClass {T.coq_bool(a[1])})'


def coq_erec(r):
    fired = T.coq_list([f'{j}%nat' for j in r['fired']])
    return f'mkE {T.z(r["l"])} {T.z(r["g"])} {T.z(r["m"])} {fired} {T.coq_bool(r["stop"])} {T.z(r["loss"])} {T.z(r["opt"])}'


def coq_case(table, calls, st, sv, valid_on, observed, cscripts=None):
    n = sum(max(0, mx) for mx, _ in calls)
    feed = T.coq_list([f'({T.z(st[i])}, {T.z(sv[i])})' for i in range(n)])
    cs = T.coq_list([f'({T.z(mx)}, {T.coq_list([T.coq_bool(b) for b in mask])})' for mx, mask in calls])
    cbs = T.coq_list([f'mkCb {T.to_coq(e["tree"])} {coq_action(e["act"])} false' for e in table])
    obs = T.coq_list([T.coq_list([coq_erec(r) for r in recs]) for recs in observed])
    if cscripts:
        cf = T.coq_list([f'("{name}"%string, ' + T.coq_list([f'({T.z(ct[i])}, {T.z(cv[i])})' for i in range(n)]) + ')' for name, (ct, cv) in cscripts.items()])
        return f'erecss_eqb (fit_seq_recs_c {feed} {cf} {T.coq_bool(valid_on)} {cs} 0 0 {cbs}) {obs}'
    return f'erecss_eqb (fit_seq_recs {feed} {T.coq_bool(valid_on)} {cs} 0 0 {cbs}) {obs}'


PREAMBLE = ('From Coq Require Import String ZArith List Bool.\nFrom ND.model Require Import Callbacks.\n'
            'Import ListNotations.\nOpen Scope Z_scope.\n')


def first_difference(real, exp):
    """(call index, epoch index, field, real record, expected record) of the first disagreement."""
    for ci in range(max(len(real), len(exp))):
        ra = real[ci] if ci < len(real) else None
        ea = exp[ci] if ci < len(exp) else None
        if ra is None or ea is None:
            return ci, 0, 'calls', ra, ea
        for ei in range(max(len(ra), len(ea))):
            r = ra[ei] if ei < len(ra) else None
            e = ea[ei] if ei < len(ea) else None
            if r is None or e is None:
                return ci, ei, 'epochs-run', r, e
            for f in ('l', 'g', 'm', 'fired', 'stop', 'loss', 'opt'):
                if r[f] != e[f]:
                    return ci, ei, f, r, e
    return None


def describe(table):
    return [{'condition': T.show(e['tree']), 'tree': e['tree'], 'act': list(e['act'])} for e in table]
