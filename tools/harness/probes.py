"""Probe functions with known jets: the same function as (a) a torch callable, (b) a float jet
evaluator fenv[name](alpha, args) for the IR evaluator, (c) a closed Coq real expression for
in-kernel `interval` goals.  All constants are dyadic rationals, so the three agree exactly up
to float rounding of the elementary functions.

A probe of n arguments is   sum_k  c_k * prod_i h_{k,i}(x_i)   with factors
  ('one',) | ('pow', k) | ('sin', w, p) | ('exp', a)
"""
import math


def dy(r, lo, hi, bits=3):
    q = 1 << bits
    return r.randint(int(lo * q), int(hi * q)) / q


def lit(x):
    """Exact Coq literal of a dyadic float."""
    from fractions import Fraction
    fr = Fraction(float(x))
    if fr.denominator == 1:
        return f'({fr.numerator})'
    return f'({fr.numerator} / {fr.denominator})'


class Probe:
    def __init__(self, nargs, r, nterms=3, scale=1.0, kinds=('one', 'pow', 'sin', 'exp')):
        self.nargs = nargs
        self.terms = []
        for _ in range(nterms):
            c = dy(r, -2, 2) * scale
            if c == 0:
                c = scale
            facs = []
            for _ in range(nargs):
                k = r.choice(kinds)
                if k == 'one':
                    facs.append(('one',))
                elif k == 'pow':
                    facs.append(('pow', r.randint(1, 3)))
                elif k == 'sin':
                    facs.append(('sin', dy(r, -2, 2, 2) or 1.0, dy(r, -1, 1, 2)))
                else:
                    facs.append(('exp', dy(r, -1, 1, 2) or 0.5))
            self.terms.append((c, facs))

    @staticmethod
    def affine(nargs, c0, slopes):
        """c0 + sum slopes[i]*x_i  (realises arbitrary value / slope pairs)."""
        p = Probe.__new__(Probe)
        p.nargs = nargs
        p.terms = [(c0, [('one',)] * nargs)]
        for i, s in enumerate(slopes):
            p.terms.append((s, [('pow', 1) if j == i else ('one',) for j in range(nargs)]))
        return p

    # ---- float jets
    @staticmethod
    def _fac(f, n, x):
        k = f[0]
        if k == 'one':
            return 1.0 if n == 0 else 0.0
        if k == 'pow':
            p = f[1]
            if n > p:
                return 0.0
            return math.factorial(p) / math.factorial(p - n) * x ** (p - n)
        if k == 'sin':
            w, ph = f[1], f[2]
            a = w * x + ph
            return w ** n * [math.sin(a), math.cos(a), -math.sin(a), -math.cos(a)][n % 4]
        if k == 'exp':
            return f[1] ** n * math.exp(f[1] * x)
        raise ValueError(k)

    def jet(self, alpha, args):
        tot = 0.0
        for c, facs in self.terms:
            v = c
            for f, n, x in zip(facs, alpha, args):
                v *= self._fac(f, n, x)
            tot += v
        return tot

    # ---- torch
    def torch(self, *xs):
        import torch
        tot = 0
        for c, facs in self.terms:
            v = c
            for f, x in zip(facs, xs):
                k = f[0]
                if k == 'one':
                    pass
                elif k == 'pow':
                    # exponent 1 as a plain product: its derivative is a constant that does not require grad
                    v = v * (x if f[1] == 1 else x ** f[1])
                elif k == 'sin':
                    v = v * torch.sin(f[1] * x + f[2])
                elif k == 'exp':
                    v = v * torch.exp(f[1] * x)
            tot = tot + v
        if not hasattr(tot, 'shape'):
            tot = tot + 0 * xs[0]
        return tot

    # ---- Coq
    @staticmethod
    def _cfac(f, n, x):
        k = f[0]
        if k == 'one':
            return '1' if n == 0 else '0'
        if k == 'pow':
            p = f[1]
            if n > p:
                return '0'
            co = math.factorial(p) // math.factorial(p - n)
            return f'({co} * {x} ^ {p - n})'
        if k == 'sin':
            w, ph = lit(f[1]), lit(f[2])
            a = f'({w} * {x} + {ph})'
            tr = [f'sin {a}', f'cos {a}', f'(- sin {a})', f'(- cos {a})'][n % 4]
            return f'({w} ^ {n} * {tr})'
        if k == 'exp':
            a = lit(f[1])
            return f'({a} ^ {n} * exp ({a} * {x}))'
        raise ValueError(k)

    def coq(self, alpha, args):
        parts = []
        for c, facs in self.terms:
            s = lit(c)
            for f, n, x in zip(facs, alpha, args):
                s += ' * ' + self._cfac(f, n, x)
            parts.append(f'({s})')
        return '(' + ' + '.join(parts) + ')'

    def describe(self):
        return [[c, [list(f) for f in facs]] for c, facs in self.terms]


def make_net(probes):
    """torch Module: input (n, k) -> output (n, len(probes)), column j = probes[j](columns)."""
    import torch

    class ProbeNet(torch.nn.Module):
        def __init__(self):
            super().__init__()
            self.dummy = torch.nn.Parameter(torch.zeros(1))

        def forward(self, x):
            cols = [x[:, i:i + 1] for i in range(x.shape[1])]
            return torch.cat([p.torch(*cols) for p in probes], dim=1) + 0 * self.dummy
    return ProbeNet()
