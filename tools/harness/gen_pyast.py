"""A small FAIL-CLOSED syntax-directed translator from the Python `ast` of selected generator
methods (neurodiffeq/generators.py; the module is never imported) to Gallina over the
operations of coq/model/PySem.v.  Used by tools/props/t_C14.py and t_C13.py.

Only the statement and expression shapes listed in the methods below are accepted; anything
else raises TranslationError(file, line, what) and nothing is written.

Static types of expressions:
  N nat | B bool | T tensor (list Z) | TS list of tensors (list (list Z)) | D value of unknown
  kind (pyv) | M boolean mask (list bool) | I index vector (list nat) | G generator object (gen) |
  GS list of generator objects (list gen)
A sub-expression that can raise in Python (e[0], x[mask], x[indices]) is bound in the option
monad (`x <- e ;; ...`) before the statement that uses it.
"""
import ast
import os

from pyfront.interp import TranslationError

COQTY = {'N': 'nat', 'B': 'bool', 'T': 'list Z', 'TS': 'list (list Z)', 'TU': 'list (list Z)', 'D': 'pyv', 'M': 'list bool',
         'I': 'list nat', 'G': 'gen', 'GS': 'list gen', 'DS': 'list pyv', 'SEGS': 'list (list (list Z))',
         'FS': 'list (list Z -> list Z)', 'F1': 'list Z -> list Z', 'ON': 'option nat'}
# ON = an Optional[int] parameter (`size=None`): only `x is None` / `x is not None` may look at it, and it may be used as an
# integer only in a branch where such a test has established that it is not None (anything else is a TranslationError)
# TS = a Python list of tensors, TU = a tuple of tensors, DS = a list of get_examples() values,
# SEGS = the tuples produced by zip(*values), FS = a list of user callables on one tensor


def par(code):
    """parenthesise a compound term used as an argument"""
    code = code.strip()
    if ' ' not in code or (code.startswith('(') and code.endswith(')') and code.count('(') == code.count(')') and _balanced_outer(code)):
        return code
    return f'({code})'


def _balanced_outer(code):
    depth = 0
    for i, ch in enumerate(code):
        depth += ch == '('
        depth -= ch == ')'
        if depth == 0 and i < len(code) - 1:
            return False
    return True


def load_class_methods(repo, relpath, cls):
    src = open(os.path.join(repo, relpath)).read()
    tree = ast.parse(src)
    for node in tree.body:
        if isinstance(node, ast.ClassDef) and node.name == cls:
            return {n.name: n for n in node.body if isinstance(n, ast.FunctionDef)}
    raise TranslationError(relpath, 0, f'class {cls} not found')


def load_module_functions(repo, relpath):
    """top-level `def`s of the module (candidates for inlining when called by their bare name)"""
    tree = ast.parse(open(os.path.join(repo, relpath)).read())
    return {n.name: n for n in tree.body if isinstance(n, ast.FunctionDef)}


class Fn:
    """Translation of one method.
    params : [(python name, coq name, type)]         positional parameters after self ('*name' for varargs)
    fields : {attr: type}                            self.<attr> that may be read / written
    reads  : [attr]                                  fields that are inputs (state before the call)
    writes : [attr]                                  fields returned as the new state, in this order
    draw   : None | 'stream' | 'single'              what self.generator.get_examples() / generator.get_examples() is
    oracles: {python call text: (coq name, coq type, result type, arg kinds)}
    gen_attr: name of the underlying generator attribute / parameter ('generator')
    """

    def __init__(self, relpath, cls, fdef, name, params, fields, reads, writes, draw=None, oracles=None,
                 gen_size=None, returns_value=True, extra_params=(), helpers=None, children=False, callables=None,
                 module_helpers=None, self_obj=False, ret_type='D', defaults=None, elem_is_tensor=None):
        self.relpath, self.cls, self.fdef, self.name = relpath, cls, fdef, name
        self.params, self.fields, self.reads, self.writes = params, fields, reads, writes
        self.draw, self.oracles, self.gen_size = draw, oracles or {}, gen_size
        self.returns_value = returns_value
        self.children = children        # g.get_examples() of child objects is the oracle function `get`
        self.callables = callables or {}  # {'self.trans': (is_callable flag, callable name, list-of-callables name)}
        self.self_obj = self_obj          # the method's `self` is itself a generator object (operator overloads of BaseGenerator)
        self.ret_type = ret_type
        self.defaults = defaults          # {python parameter: (expected default source text, coq term)}: emitted as <name>_default_<p>
        self.elem_is_tensor = elem_is_tensor   # name of the abstract predicate `isinstance(x, torch.Tensor)` on a user-supplied column
        self.module_helpers = module_helpers or {}   # {name: FunctionDef} module-level functions that may be inlined
        self.helpers = helpers or {}     # {name: FunctionDef} methods of the same class that may be inlined
        self.inline_depth = 0
        self.extra_params = list(extra_params)    # [(coq name, coq type)] e.g. the size of the underlying generator
        self.counter = {}
        self.fdef_ctx = None
        self.fresh_acc = set()    # lists / tuples created in this method by `x = []` / `x = tuple()`: the only ones that may grow in place
        self.aux = []           # auxiliary top-level definitions (loop functions)
        self.scope = []         # [(coq name, coq type)] in binding order
        self.used_oracles = []

    # ------------------------------------------------------------------ helpers
    def err(self, node, what):
        where = getattr(self, 'fdef_ctx', None) or f'{self.cls}.{self.fdef.name}'
        raise TranslationError(self.relpath, getattr(node, 'lineno', self.fdef.lineno),
                               f'{where}: {what}: `{ast.unparse(node)[:80] if isinstance(node, ast.AST) else node}`')

    def fresh(self, base):
        base = base.replace('.', '_').replace('#', '')
        self.counter[base] = self.counter.get(base, -1) + 1
        return f'{base}_{self.counter[base]}'

    def bind(self, env, key, ty, coqty=None):
        name = self.fresh(key.split('.')[-1])
        env[key] = (name, ty)
        self.scope.append((name, coqty or COQTY[ty]))
        return name

    @staticmethod
    def key_of(node):
        """'x' for a Name, 'self.a' for self.a, None otherwise"""
        if isinstance(node, ast.Name):
            return node.id
        if isinstance(node, ast.Attribute) and isinstance(node.value, ast.Name) and node.value.id == 'self':
            return 'self.' + node.attr
        return None

    def coerce(self, node, code, ty, want):
        if ty == want:
            return code
        if (ty, want) == ('TS', 'D'):
            return f'PL ({code})'
        if (ty, want) == ('T', 'D'):
            return f'PT ({code})'
        if (ty, want) == ('TU', 'D'):
            return f'PU ({code})'
        self.err(node, f'cannot use a value of type {ty} where {want} is needed')

    def as_seq(self, node, code, ty):
        if ty in ('TS', 'TU'):
            return code
        if ty == 'D':
            return f'as_seq {par(code)}'
        self.err(node, f'a sequence of tensors is needed, got {ty}')

    # ------------------------------------------------------------------ expressions
    def expr(self, node, env, binds, ref):
        """-> (coq term, type).  Partial sub-terms are appended to `binds` as (name, option term).
        ref: {key: 'tensor' | 'tuple' | 'seq'} refinements established by isinstance guards."""
        k = self.key_of(node)
        if k is not None:
            if k in env:
                if env[k][1] == 'ON':
                    if ref.get(k) == 'some':
                        return f'(match {env[k][0]} with Some n => n | None => 0 end)', 'N'    # the None arm is unreachable here
                    self.err(node, 'an Optional[int] value is used without an `is None` test guarding it')
                if env[k][1] == 'O':
                    self.err(node, 'an opaque user object may only be stored, never inspected')
                return env[k]
            if not (self.self_obj and isinstance(node, ast.Attribute)):
                self.err(node, 'unknown name')
        if isinstance(node, ast.Constant) and isinstance(node.value, int) and not isinstance(node.value, bool):
            if node.value < 0:
                self.err(node, 'negative literal')
            return str(node.value), 'N'
        if isinstance(node, ast.Attribute):
            # <obj>.size / <obj>.generators on a generator object
            oc, ot = self.expr(node.value, env, binds, ref)
            if ot == 'G' and node.attr == 'size':
                if oc == '#underlying':
                    if self.gen_size is None:
                        self.err(node, 'size of the underlying generator is not available here')
                    return self.gen_size, 'N'
                return f'obj_size {par(oc)}', 'N'
            if ot == 'G' and node.attr == 'generators' and oc != '#underlying':
                return f'obj_generators {par(oc)}', 'GS'
            self.err(node, 'attribute access not accepted')
        if isinstance(node, ast.Call):
            return self.call(node, env, binds, ref)
        if isinstance(node, ast.Compare) and len(node.ops) == 1 and isinstance(node.ops[0], (ast.Is, ast.IsNot)):
            kk = self.key_of(node.left)
            c0 = node.comparators[0]
            if kk is None or kk not in env or env[kk][1] != 'ON' or not (isinstance(c0, ast.Constant) and c0.value is None):
                self.err(node, '`is` / `is not` only between an Optional[int] parameter and None')
            t = f'(match {env[kk][0]} with None => true | Some _ => false end)'
            return (t if isinstance(node.ops[0], ast.Is) else f'negb {t}'), 'B'
        if isinstance(node, ast.Compare) and len(node.ops) == 1:
            a, ta = self.expr(node.left, env, binds, ref)
            b, tb = self.expr(node.comparators[0], env, binds, ref)
            if ta != 'N' or tb != 'N':
                self.err(node, 'comparison of non-integers')
            op = node.ops[0]
            # every order comparison is spelled with Nat.ltb, so that a < b, b > a, not a >= b, ... give one term
            if isinstance(op, ast.Lt):
                return f'Nat.ltb ({a}) ({b})', 'B'
            if isinstance(op, ast.LtE):
                return f'negb (Nat.ltb ({b}) ({a}))', 'B'
            if isinstance(op, ast.Gt):
                return f'Nat.ltb ({b}) ({a})', 'B'
            if isinstance(op, ast.GtE):
                return f'negb (Nat.ltb ({a}) ({b}))', 'B'
            if isinstance(op, ast.Eq):
                return f'Nat.eqb ({a}) ({b})', 'B'
            if isinstance(op, ast.NotEq):
                return f'negb (Nat.eqb ({a}) ({b}))', 'B'
            self.err(node, 'comparison operator not accepted')
        if isinstance(node, ast.UnaryOp) and isinstance(node.op, ast.Not):
            a, ta = self.expr(node.operand, env, binds, ref)
            if ta != 'B':
                self.err(node, '`not` of a non-boolean')
            a = a.strip()
            while a.startswith('(') and a.endswith(')') and _balanced_outer(a):
                a = a[1:-1].strip()
            if a.startswith('negb (') and a.endswith(')') and _balanced_outer(a[5:]):
                return a[6:-1], 'B'                     # not not c
            return f'negb ({a})', 'B'
        if isinstance(node, ast.BinOp) and isinstance(node.op, (ast.Add, ast.Mult)):
            a, ta = self.expr(node.left, env, binds, ref)
            b, tb = self.expr(node.right, env, binds, ref)
            if ta != 'N' or tb != 'N':
                self.err(node, 'arithmetic on non-integers')
            return f'({a} {"+" if isinstance(node.op, ast.Add) else "*"} {b})', 'N'
        if isinstance(node, ast.List):
            if len(node.elts) == 0:
                return '[]', 'EMPTY'
            if len(node.elts) == 1:
                ek = self.key_of(node.elts[0])
                e, te = self.expr(node.elts[0], env, binds, ref)
                if te == 'T':
                    return f'[{e}]', 'TS'
                if te == 'D' and ref.get(ek) == 'tensor':
                    return f'[as_tensor {par(e)}]', 'TS'
            self.err(node, 'list display not accepted (only [v] for a tensor v)')
        if isinstance(node, ast.Tuple) and len(node.elts) == 1:
            ek = self.key_of(node.elts[0])
            e, te = self.expr(node.elts[0], env, binds, ref)
            if te == 'T':
                return f'[{e}]', 'TU'
            if te == 'D' and ref.get(ek) == 'tensor':
                return f'[as_tensor {par(e)}]', 'TU'
            self.err(node, 'tuple display not accepted (only (v,) for a tensor v)')
        if isinstance(node, ast.Subscript):
            return self.subscript(node, env, binds, ref)
        if isinstance(node, ast.ListComp):
            return self.comprehension(node, env, binds, ref)
        if isinstance(node, ast.IfExp):
            c, tc = self.cond(node.test, env, binds, ref)
            r1, r2 = self.refine(node.test, ref)
            b1, b2 = [], []
            e1, t1 = self.expr(node.body, env, b1, r1)
            e2, t2 = self.expr(node.orelse, env, b2, r2)
            if t1 != t2:
                self.err(node, f'branches of different types {t1} / {t2}')
            if not self.has_partial(b1) and not self.has_partial(b2):
                c, x1, x2 = self.norm_cond(c, self.wrap_binds(b1, e1), self.wrap_binds(b2, e2))
                return f'(if {c} then {x1} else {x2})', t1
            v = self.fresh('v')
            c, x1, x2 = self.norm_cond(c, self.wrap_binds(b1, "Some (" + e1 + ")"), self.wrap_binds(b2, "Some (" + e2 + ")"))
            binds.append((v, f'(if {c} then {x1} else {x2})'))
            return v, t1
        self.err(node, 'expression not accepted')

    @staticmethod
    def wrap_binds(binds, body):
        out = body
        for b in reversed(binds):
            if len(b) == 3:
                out = f'(let {b[0]} := {b[1]} in {out})'
            else:
                out = f'({b[0]} <- {b[1]} ;; {out})'
        return out

    @staticmethod
    def bind_lines(binds):
        return [f'let {b[0]} := {b[1]} in' if len(b) == 3 else f'{b[0]} <- {b[1]} ;;' for b in binds]

    @staticmethod
    def has_partial(binds):
        return any(len(b) == 2 for b in binds)

    @staticmethod
    def norm_cond(c, a, b):
        """`if not c: A else: B` is `if c: B else: A` (so that both spellings give the same term)"""
        c = c.strip()
        while c.startswith('negb (') and c.endswith(')') and _balanced_outer(c[5:]):
            c, a, b = c[6:-1], b, a
        return c, a, b

    def cond(self, node, env, binds, ref):
        c, tc = self.expr(node, env, binds, ref)
        if tc != 'B':
            self.err(node, 'condition is not a boolean')
        return c, tc

    def refine(self, test, ref):
        """refinements for the (then, else) branches of an isinstance test"""
        if isinstance(test, ast.UnaryOp) and isinstance(test.op, ast.Not):
            r1, r2 = self.refine(test.operand, ref)
            return r2, r1
        r1, r2 = dict(ref), dict(ref)
        if isinstance(test, ast.Compare) and len(test.ops) == 1 and isinstance(test.ops[0], (ast.Is, ast.IsNot)) \
                and isinstance(test.comparators[0], ast.Constant) and test.comparators[0].value is None and self.key_of(test.left):
            k = self.key_of(test.left)
            if isinstance(test.ops[0], ast.Is):
                r1[k], r2[k] = 'none', 'some'
            else:
                r1[k], r2[k] = 'some', 'none'
            return r1, r2
        if (isinstance(test, ast.Call) and isinstance(test.func, ast.Name) and test.func.id == 'isinstance' and len(test.args) == 2):
            k = self.key_of(test.args[0])
            what = ast.unparse(test.args[1])
            if k is not None and what == 'torch.Tensor':
                r1[k], r2[k] = 'tensor', 'seq'
            elif k is not None and what == 'tuple':
                r1[k] = 'tuple'
            elif k is not None and what == 'list':
                r1[k] = 'list'
        return r1, r2

    def call(self, node, env, binds, ref):
        text = ast.unparse(node.func)
        # torch.meshgrid(ret, indexing='ij')
        if text == 'torch.meshgrid' and len(node.args) == 1 and len(node.keywords) == 1 and node.keywords[0].arg == 'indexing' \
                and isinstance(node.keywords[0].value, ast.Constant) and node.keywords[0].value.value == 'ij':
            v, tv = self.expr(node.args[0], env, binds, ref)
            return f'meshgrid_ij {par(self.as_seq(node.args[0], v, tv))}', 'TU'
        if node.keywords:
            self.err(node, 'keyword arguments not accepted')
        # value-preserving conversions of one column: torch.tensor(x) (same numbers), torch.flatten(x), x.requires_grad_(True)
        if text == 'torch.tensor' and len(node.args) == 1:
            v, tv = self.expr(node.args[0], env, binds, ref)
            if tv != 'T':
                self.err(node, 'torch.tensor(...) only of one column')
            return f'tensor_of {par(v)}', 'T'
        if text == 'torch.flatten' and len(node.args) == 1:
            v, tv = self.expr(node.args[0], env, binds, ref)
            if tv != 'T':
                self.err(node, 'torch.flatten(...) only of one column')
            return f'flatten_nd {par(v)}', 'T'
        if isinstance(node.func, ast.Attribute) and node.func.attr == 'requires_grad_' and [ast.unparse(a) for a in node.args] == ['True']:
            v, tv = self.expr(node.func.value, env, binds, ref)
            if tv != 'T':
                self.err(node, 'requires_grad_ only on one column')
            return f'requires_grad {par(v)}', 'T'
        # methods of a tensor: r.flatten(), u.reshape(-1, 1)
        if isinstance(node.func, ast.Attribute) and node.func.attr in ('flatten', 'reshape') and self.key_of(node.func.value) is not None \
                and self.key_of(node.func.value) in env and env[self.key_of(node.func.value)][1] == 'T':
            v, _ = env[self.key_of(node.func.value)]
            if node.func.attr == 'flatten' and not node.args:
                return f'flatten_nd {v}', 'T'
            if node.func.attr == 'reshape' and [ast.unparse(a) for a in node.args] == ['-1', '1']:
                return f'reshape_n1 {v}', 'T'
            self.err(node, 'tensor method call not accepted')
        # g.get_examples() of a child generator object (a loop / comprehension variable)
        if isinstance(node.func, ast.Attribute) and node.func.attr == 'get_examples' and not node.args \
                and isinstance(node.func.value, ast.Name) and env.get(node.func.value.id, (None, None))[1] == 'G' \
                and env[node.func.value.id][0] != '#underlying':
            if not self.children:
                self.err(node, 'sampling a child generator is not accepted here')
            if ('get', 'gen -> pyv') not in self.used_oracles:
                self.used_oracles.append(('get', 'gen -> pyv'))
            return f'get {env[node.func.value.id][0]}', 'D'
        # building a combinator from generator objects: ConcatGenerator(a, b) ...
        if text in ('ConcatGenerator', 'EnsembleGenerator', 'MeshGenerator') and node.args \
                and not any(isinstance(a, ast.Starred) for a in node.args):
            vals = []
            for a in node.args:
                v, tv = self.expr(a, env, binds, ref)
                if tv != 'G' or v == '#underlying':
                    self.err(node, 'a combinator is built from generator objects only')
                vals.append(v)
            return f'{text[:-len("Generator")]} [{"; ".join(vals)}]', 'G'
        # tuple() / tuple(e) / tuple(<generator expression over zip>)
        if text == 'tuple' and not node.args:
            return '[]', 'EMPTYTU'
        if text == 'tuple' and len(node.args) == 1:
            a = node.args[0]
            if isinstance(a, ast.GeneratorExp):
                fake = ast.ListComp(elt=a.elt, generators=a.generators)
                ast.copy_location(fake, a)
                c, tc = self.comprehension(fake, env, binds, ref)
                if tc != 'TS':
                    self.err(node, 'tuple(...) of this generator expression is not accepted')
                return c, 'TU'
            k = self.key_of(a)
            v, tv = self.expr(a, env, binds, ref)
            if tv == 'D' and ref.get(k) in ('list', 'tuple'):
                return f'as_seq {par(v)}', 'TU'
            if tv in ('TS', 'TU'):
                return v, 'TU'
            self.err(node, 'tuple() only of a value known to be a list / tuple')
        # user callables held in a field:  callable(self.trans), self.trans(xs), self.trans(*xs), self.trans[0](xs)
        if text == 'callable' and len(node.args) == 1 and self.key_of(node.args[0]) in self.callables:
            return self.callables[self.key_of(node.args[0])][0], 'B'
        if self.key_of(node.func) in self.callables and len(node.args) == 1:
            _, fn, _ = self.callables[self.key_of(node.func)]
            a = node.args[0]
            if isinstance(a, ast.Starred):
                v, tv = self.expr(a.value, env, binds, ref)
                arg = self.as_seq(a, v, tv)
            else:
                k = self.key_of(a)
                v, tv = self.expr(a, env, binds, ref)
                if not (tv == 'T' or (tv == 'D' and ref.get(k) == 'tensor')):
                    self.err(node, 'a user callable is applied to one tensor or to *sequence')
                arg = f'[{v}]' if tv == 'T' else f'[as_tensor {par(v)}]'
            if (fn, 'list (list Z) -> pyv') not in self.used_oracles:
                self.used_oracles.append((fn, 'list (list Z) -> pyv'))
            return f'{fn} {par(arg)}', 'D'
        if isinstance(node.func, ast.Subscript) and self.key_of(node.func.value) in self.callables and len(node.args) == 1 \
                and isinstance(node.func.slice, ast.Constant) and node.func.slice.value == 0:
            _, _, fl = self.callables[self.key_of(node.func.value)]
            k = self.key_of(node.args[0])
            v, tv = self.expr(node.args[0], env, binds, ref)
            if not (tv == 'T' or (tv == 'D' and ref.get(k) == 'tensor')):
                self.err(node, 'a user callable is applied to one tensor')
            if (fl, COQTY['FS']) not in self.used_oracles:
                self.used_oracles.append((fl, COQTY['FS']))
            f = self.fresh('f')
            binds.append((f, f'index0 {fl}'))
            return f'{f} {par(v if tv == "T" else "as_tensor " + par(v))}', 'T'
        # a loop variable bound to a user callable: t(x)
        if isinstance(node.func, ast.Name) and env.get(node.func.id, (None, None))[1] == 'F1' and len(node.args) == 1:
            v, tv = self.expr(node.args[0], env, binds, ref)
            if tv != 'T':
                self.err(node, 'a user callable is applied to one tensor')
            return f'{env[node.func.id][0]} {par(v)}', 'T'
        # torch.cat(<list of values>) and zip(*<list of values>)
        if text == 'torch.cat' and len(node.args) == 1 and not isinstance(node.args[0], ast.List):
            v, tv = self.expr(node.args[0], env, binds, ref)
            if tv == 'DS':
                name = self.fresh('e')
                binds.append((name, f'cat_all {par(v)}'))
                return name, 'T'
            if tv in ('TS', 'TU'):
                return f'concat {par(v)}', 'T'
            self.err(node, 'torch.cat of this is not accepted')
        if text == 'zip' and len(node.args) == 1 and isinstance(node.args[0], ast.Starred):
            v, tv = self.expr(node.args[0].value, env, binds, ref)
            if tv != 'DS':
                self.err(node, 'zip(*...) only of a list of get_examples() values')
            name = self.fresh('z')
            binds.append((name, f'zip_star {par(v)}'))
            return name, 'SEGS'
        if text == 'isinstance' and len(node.args) == 2:
            v, tv = self.expr(node.args[0], env, binds, ref)
            what = ast.unparse(node.args[1])
            if tv == 'D' and what == 'torch.Tensor':
                return f'is_tensor {par(v)}', 'B'
            if tv == 'D' and what == 'tuple':
                return f'is_tuple {par(v)}', 'B'
            if tv == 'D' and what == 'list':
                return f'is_list {par(v)}', 'B'
            if tv == 'G' and what == 'MeshGenerator' and v != '#underlying':
                return f'obj_is_mesh {par(v)}', 'B'
            if tv == 'G' and what == 'BaseGenerator' and v != '#underlying':
                return f'obj_is_generator {par(v)}', 'B'
            if tv == 'T' and what == 'torch.Tensor' and self.elem_is_tensor:
                # a user-supplied column: a torch.Tensor or a plain sequence; which one is an abstract predicate
                if (self.elem_is_tensor, 'list Z -> bool') not in self.used_oracles:
                    self.used_oracles.append((self.elem_is_tensor, 'list Z -> bool'))
                return f'{self.elem_is_tensor} {par(v)}', 'B'
            self.err(node, 'isinstance test not accepted')
        if text in ('self.generator.get_examples', 'generator.get_examples') and not node.args:
            g = env.get('self.generator' if text.startswith('self.') else 'generator')
            if g is None or g != ('#underlying', 'G'):
                self.err(node, 'get_examples() of something that is not the underlying generator')
            if self.draw == 'stream':
                taken, _ = env['#taken']
                new = self.bind(env, '#taken', 'N')
                self.pending_lets.append((new, f'S {taken}'))
                return f'draw {taken}', 'D'
            if self.draw == 'single':
                if env.get('#drawn'):
                    self.err(node, 'the underlying generator is sampled more than once')
                env['#drawn'] = True
                return 'child', 'D'
            self.err(node, 'sampling the underlying generator is not accepted here')
        if text == 'len' and len(node.args) == 1:
            k = self.key_of(node.args[0])
            v, tv = self.expr(node.args[0], env, binds, ref)
            if tv in ('T', 'TS', 'TU', 'GS', 'M', 'I', 'DS', 'SEGS', 'FS'):
                return f'length {par(v)}', 'N'
            if tv == 'D':
                r = ref.get(k)
                if r == 'tensor':
                    return f'length (as_tensor {par(v)})', 'N'
                if r in ('seq', 'tuple', 'list'):
                    return f'length (as_seq {par(v)})', 'N'
                return f'py_len {par(v)}', 'N'
            self.err(node, 'len() of this is not accepted')
        if text == 'list' and len(node.args) == 1:
            k = self.key_of(node.args[0])
            v, tv = self.expr(node.args[0], env, binds, ref)
            if tv == 'D' and ref.get(k) == 'tuple':
                return f'as_seq {par(v)}', 'TS'
            self.err(node, 'list() only of a value known to be a tuple')
        if text == 'torch.cat' and len(node.args) == 1 and isinstance(node.args[0], ast.List) and len(node.args[0].elts) == 2:
            a, ta = self.expr(node.args[0].elts[0], env, binds, ref)
            b, tb = self.expr(node.args[0].elts[1], env, binds, ref)
            if ta != 'T' or tb != 'T':
                self.err(node, 'torch.cat of non-tensors')
            return f'cat2 {par(a)} {par(b)}', 'T'
        if text in ('sum', 'np.prod') and len(node.args) == 1:
            g = node.args[0]
            if text == 'np.prod':
                if not (isinstance(g, ast.Call) and ast.unparse(g.func) == 'tuple' and len(g.args) == 1):
                    self.err(node, 'np.prod only of tuple(<generator expression>)')
                g = g.args[0]
            if not (isinstance(g, ast.GeneratorExp) and len(g.generators) == 1 and not g.generators[0].ifs
                    and isinstance(g.generators[0].target, ast.Name)):
                self.err(node, 'only a plain generator expression is accepted')
            seq, ts = self.expr(g.generators[0].iter, env, binds, ref)
            if ts != 'GS':
                self.err(node, 'iteration over something that is not a list of generators')
            var = g.generators[0].target.id
            env2 = dict(env)
            env2[var] = (var, 'G')
            b2 = []
            e, te = self.expr(g.elt, env2, b2, ref)
            if b2 or te != 'N':
                self.err(node, 'element expression not accepted')
            return f'{"py_sum" if text == "sum" else "py_prod"} (map (fun {var} => {e}) {seq})', 'N'
        if text not in self.oracles and '.' in text and text.split('.', 1)[0] in ('self', self.cls) \
                and text.split('.', 1)[1] in self.helpers:
            return self.inline(node, text, env, binds, ref)
        if isinstance(node.func, ast.Name) and node.func.id in self.module_helpers and node.func.id not in env:
            return self.inline(node, node.func.id, env, binds, ref)
        if text in self.oracles:
            cname, cty, rty, argk = self.oracles[text]
            if len(argk) != len(node.args):
                self.err(node, 'wrong number of arguments for this call')
            args = []
            for a, kind in zip(node.args, argk):
                if kind == 'size1':      # the shape tuple (n,)
                    if not (isinstance(a, ast.Tuple) and len(a.elts) == 1):
                        self.err(a, 'shape must be a 1-tuple')
                    a = a.elts[0]
                    kind = 'N'
                v, tv = self.expr(a, env, binds, ref)
                if kind == 'seq':
                    v = f'({self.as_seq(a, v, tv)})'
                elif tv != kind:
                    self.err(a, f'argument of type {tv}, expected {kind}')
                args.append(f'({v})' if ' ' in v else v)
            if (cname, cty) not in self.used_oracles:
                self.used_oracles.append((cname, cty))
            return f'{cname} {" ".join(args)}', rty
        self.err(node, 'call not accepted')

    def subscript(self, node, env, binds, ref):
        k = self.key_of(node.value)
        v, tv = self.expr(node.value, env, binds, ref)
        s = node.slice
        if isinstance(s, ast.Slice):
            if s.step is not None:
                self.err(node, 'slice step not accepted')
            if tv not in ('T', 'I'):
                self.err(node, 'slice of something that is not a vector')
            fn_to, fn_from = ('slice_to', 'slice_from') if tv == 'T' else ('slice_to_idx', None)
            if s.lower is None and s.upper is not None:
                u, tu = self.expr(s.upper, env, binds, ref)
                if tu != 'N':
                    self.err(node, 'slice bound is not an integer')
                return f'{fn_to} ({u}) {par(v)}', tv
            if s.upper is None and s.lower is not None and fn_from:
                lo, tl = self.expr(s.lower, env, binds, ref)
                if tl != 'N':
                    self.err(node, 'slice bound is not an integer')
                return f'{fn_from} ({lo}) {par(v)}', tv
            self.err(node, 'slice form not accepted (only x[:k] and x[k:])')
        if isinstance(s, ast.Constant) and s.value == 0:
            if tv in ('TS', 'TU', 'GS', 'DS'):
                name = self.fresh('e')
                binds.append((name, f'index0 {par(v)}'))
                return name, {'TS': 'T', 'TU': 'T', 'GS': 'G', 'DS': 'D'}[tv]
            if tv == 'D' and ref.get(k) != 'tensor':
                name = self.fresh('e')
                binds.append((name, f'index0 (as_seq {par(v)})'))
                return name, 'T'
            self.err(node, 'e[0] of this is not accepted')
        # vector indexing x[mask] / x[indices]
        i, ti = self.expr(s, env, binds, ref)
        if tv == 'D' and ref.get(k) == 'tensor':
            v, tv = f'(as_tensor {par(v)})', 'T'
        if tv == 'T' and ti in ('M', 'I'):
            name = self.fresh('e')
            binds.append((name, f'{"mask_index" if ti == "M" else "index_vec"} {par(i)} {par(v)}'))
            return name, 'T'
        self.err(node, 'subscript not accepted')

    def comprehension(self, node, env, binds, ref):
        if len(node.generators) != 1 or node.generators[0].ifs or node.generators[0].is_async:
            self.err(node, 'only a single plain `for` clause is accepted')
        g = node.generators[0]
        env2 = dict(env)
        if (isinstance(g.iter, ast.Call) and ast.unparse(g.iter.func) == 'zip' and len(g.iter.args) == 2 and not g.iter.keywords
                and not any(isinstance(x, ast.Starred) for x in g.iter.args)
                and isinstance(g.target, ast.Tuple) and len(g.target.elts) == 2 and all(isinstance(e, ast.Name) for e in g.target.elts)):
            x, n = g.target.elts[0].id, g.target.elts[1].id
            if self.key_of(g.iter.args[0]) in self.callables:
                # zip(self.trans, xs): a list of user callables against the tensors
                a = self.callables[self.key_of(g.iter.args[0])][2]
                if (a, COQTY['FS']) not in self.used_oracles:
                    self.used_oracles.append((a, COQTY['FS']))
                env2[x] = (x, 'F1')
            else:
                a, ta = self.expr(g.iter.args[0], env, binds, ref)
                a = self.as_seq(g.iter.args[0], a, ta)
                env2[x] = (x, 'T')
            b, tb = self.expr(g.iter.args[1], env, binds, ref)
            b = self.as_seq(g.iter.args[1], b, tb)
            env2[n] = (n, 'T')
            b2 = []
            e, te = self.expr(node.elt, env2, b2, ref)
            if self.has_partial(b2) or te != 'T':
                self.err(node, 'element of a zip comprehension must be a total tensor expression')
            return f'zipwith (fun {x} {n} => {self.wrap_binds(b2, e)}) ({a}) ({b})', 'TS'
        if isinstance(g.target, ast.Name):
            a, ta = self.expr(g.iter, env, binds, ref)
            if ta == 'GS':
                ety = 'G'
            elif ta == 'SEGS':
                ety = 'TS'
            else:
                a, ety = self.as_seq(g.iter, a, ta), 'T'
            x = g.target.id
            env2[x] = (x, ety)
            b2 = []
            e, te = self.expr(node.elt, env2, b2, ref)
            if te not in ('T', 'D'):
                self.err(node, 'element of the comprehension is not a tensor / a get_examples() value')
            lty = 'TS' if te == 'T' else 'DS'
            if not self.has_partial(b2):
                return f'map (fun {x} => {self.wrap_binds(b2, e)}) ({a})', lty
            if lty != 'TS':
                self.err(node, 'partial element not accepted here')
            name = self.fresh('l')
            binds.append((name, f"all_some' (map (fun {x} => {self.wrap_binds(b2, 'Some (' + e + ')')}) ({a}))"))
            return name, 'TS'
        self.err(node, 'comprehension not accepted')

    # ------------------------------------------------------------------ statements
    def assign(self, node, target, value_node, env, ref, conditional=None):
        """returns coq lines (list of 'let'/bind prefixes)"""
        k = self.key_of(target)
        if k is None:
            self.err(node, 'assignment target not accepted')
        if k.startswith('self.') and k[5:] not in self.fields:
            self.err(node, f'assignment to an unknown field')
        binds = []
        self.pending_lets = []
        # aliasing the underlying generator
        if isinstance(value_node, ast.Name) and env.get(value_node.id) == ('#underlying', 'G'):
            env[k] = ('#underlying', 'G')
            return []
        # storing an opaque user object (filter_fn): not part of the modelled state, but it must go to the field of the same kind
        if isinstance(value_node, ast.Name) and env.get(value_node.id) == ('#opaque', 'O'):
            if not k.startswith('self.') or self.fields.get(k[5:]) != 'O' or k[5:] != value_node.id:
                self.err(node, 'an opaque user object may only be stored in the field of its own name')
            env[k] = ('#opaque', 'O')
            return []
        e, te = self.expr(value_node, env, binds, ref)
        want = self.fields[k[5:]] if k.startswith('self.') else None
        if te in ('EMPTY', 'EMPTYTU'):
            self.fresh_acc.add(k)
        else:
            self.fresh_acc.discard(k)
        if te in ('EMPTY', 'EMPTYTU') and want is None:
            env[k] = ('[]', te)               # a local accumulator; its element type is fixed by the first append / +=
            return []
        if te == 'EMPTY':
            if want not in ('GS',):
                self.err(node, 'empty list only as an accumulator of generators')
            te = 'GS'
        if want is not None:
            e = self.coerce(node, e, te, want)
            te = want
        lines = self.bind_lines(binds)
        name = self.bind(env, k, te)
        lines.append(f'let {name} := {e} in')
        lines += [f'let {n} := {t} in' for n, t in self.pending_lets]
        self.pending_lets = []
        return lines

    def cond_value(self, node, env, ref, k=None):
        """(key, binds, term, type): the value of the ONE variable assigned by
        `if c: v = e1 [elif c2: v = e2 ...] [else: v = e3]` (a missing branch keeps the old value)"""
        binds = []
        c, _ = self.cond(node.test, env, binds, ref)
        r1, r2 = self.refine(node.test, ref)

        def branch(stmts, r, k):
            if not stmts:
                if k is None or k not in env or env[k][0] == '#underlying':
                    self.err(node, 'conditional assignment to a variable that is not defined before')
                return k, [], env[k][0], env[k][1]
            if len(stmts) == 1 and isinstance(stmts[0], ast.Assign) and len(stmts[0].targets) == 1:
                kk = self.key_of(stmts[0].targets[0])
                if kk is None:
                    self.err(stmts[0], 'assignment target not accepted')
                b = []
                e, t = self.expr(stmts[0].value, env, b, r)
                return kk, b, e, t
            if len(stmts) == 1 and isinstance(stmts[0], ast.If):
                kk, b, e, t = self.cond_value(stmts[0], env, r, k)
                return kk, b, e, t
            self.err(node, 'only a single assignment (or an elif chain of them) is accepted in this branch')
        k1, b1, e1, t1 = branch(node.body, r1, k)
        if k is not None and k1 != k:
            self.err(node, 'the branches assign different variables')
        k = k1
        k2, b2, e2, t2 = branch(node.orelse, r2, k)
        if k2 != k:
            self.err(node, 'the branches assign different variables')
        ty = t1
        if t1 != t2:
            ty = 'D'
            e1, e2 = self.coerce(node, e1, t1, 'D'), self.coerce(node, e2, t2, 'D')
        if self.has_partial(b1) or self.has_partial(b2):
            v = self.fresh('v')
            c, x1, x2 = self.norm_cond(c, self.wrap_binds(b1, "Some (" + e1 + ")"), self.wrap_binds(b2, "Some (" + e2 + ")"))
            binds.append((v, f'(if {c} then {x1} else {x2})'))
            return k, binds, v, ty
        c, x1, x2 = self.norm_cond(c, self.wrap_binds(b1, e1), self.wrap_binds(b2, e2))
        return k, binds, f'(if {c} then {x1} else {x2})', ty

    def cond_assign(self, node, env, ref):
        self.pending_lets = []
        k, binds, code, ty = self.cond_value(node, env, ref)
        if self.pending_lets:
            self.err(node, 'sampling the underlying generator inside a conditional is not accepted')
        if k.startswith('self.'):
            if k[5:] not in self.fields:
                self.err(node, 'assignment to an unknown field')
            code = self.coerce(node, code, ty, self.fields[k[5:]])
            ty = self.fields[k[5:]]
        lines = self.bind_lines(binds)
        name = self.bind(env, k, ty)
        if code.startswith('(if ') and code.endswith(')') and _balanced_outer(code):
            code = code[1:-1]
        lines.append(f'let {name} := {code} in')
        return lines

    def ret_value(self, node, env, ref, binds):
        e, te = self.expr(node.value, env, binds, ref)
        return self.coerce(node, e, te, self.ret_type)

    def state_tuple(self, env):
        vals = [env['self.' + f][0] for f in self.writes]
        if self.draw == 'stream':
            vals.append(env['#taken'][0])
        if not vals:
            return 'tt'
        return vals[0] if len(vals) == 1 else '(' + ', '.join(vals) + ')'

    def finish(self, env, retv):
        st = self.state_tuple(env)
        if self.returns_value:
            return f'Some ({retv}, {st})'
        return f'Some {st}' if ' ' not in st or st.startswith('(') else f'Some ({st})'

    def block(self, stmts, env, ref, tail):
        """-> coq text of the statements followed by `tail(env)` when control falls off the end"""
        if not stmts:
            return tail(env)
        s, rest = stmts[0], stmts[1:]
        go = lambda: self.block(rest, env, ref, tail)
        if isinstance(s, ast.Expr) and isinstance(s.value, ast.Constant) and isinstance(s.value.value, str):
            return go()                                   # docstring
        if isinstance(s, ast.Expr) and ast.unparse(s.value) == f'super({self.cls}, self).__init__()':
            return go()
        self.no_mutation(s)
        if isinstance(s, ast.Expr) and isinstance(s.value, ast.Call) and not s.value.keywords:
            text = ast.unparse(s.value.func)
            if '.' in text and text.split('.', 1)[0] in ('self', self.cls) and text.split('.', 1)[1] in self.helpers \
                    and text not in self.oracles:
                return self.inline_stmt(s, text, env, ref, go)
        if isinstance(s, ast.Assign) and len(s.targets) == 1:
            lines = self.assign(s, s.targets[0], s.value, env, ref)
            return '\n'.join(lines + [go()])
        if isinstance(s, ast.Return):
            if rest:
                self.err(s, 'statements after return')
            if s.value is None or not self.returns_value:
                self.err(s, 'return form not accepted')
            binds = []
            self.pending_lets = []
            v = self.ret_value(s, env, ref, binds)
            if self.pending_lets:
                self.err(s, 'sampling inside a return is not accepted')
            return self.wrap_binds(binds, self.finish(env, v))
        if isinstance(s, ast.If):
            def ends_ret(b):
                if not b:
                    return False
                if isinstance(b[-1], ast.Return):
                    return True
                return isinstance(b[-1], ast.If) and ends_ret(b[-1].body) and ends_ret(b[-1].orelse)
            if len(s.body) == 1 and isinstance(s.body[0], ast.Raise) and not s.orelse:
                binds = []
                self.pending_lets = []
                c, _ = self.cond(s.test, env, binds, ref)
                return self.wrap_binds(binds, f'if {c} then None (* raise {ast.unparse(s.body[0].exc)[:40]} *) else\n{go()}')
            if ends_ret(s.body) and (ends_ret(s.orelse) or not s.orelse):
                # `if c: ...return  else: ...return`   or the early return   `if c: ...return` followed by the rest
                if s.orelse and rest:
                    self.err(s, 'statements after an if that returns in both branches')
                binds = []
                self.pending_lets = []
                c, _ = self.cond(s.test, env, binds, ref)
                r1, r2 = self.refine(s.test, ref)
                e1, e2 = dict(env), dict(env)
                t1 = self.block(s.body, e1, r1, tail)
                t2 = self.block(s.orelse if s.orelse else rest, e2, r2, tail)
                c, t1, t2 = self.norm_cond(c, t1, t2)
                return self.wrap_binds(binds, f'if {c}\nthen {t1}\nelse {t2}')
            lines = self.cond_assign(s, env, ref)
            return '\n'.join(lines + [go()])
        if isinstance(s, ast.While):
            return self.while_loop(s, rest, env, ref, tail)
        if isinstance(s, ast.For):
            return self.for_loop(s, rest, env, ref, tail)
        self.err(s, 'statement not accepted')

    MUTATORS = ('append', 'extend', 'insert', 'pop', 'remove', 'clear', 'sort', 'reverse', '__setitem__', '__delitem__', '__iadd__')

    def no_mutation(self, s):
        """Rebinding `self.x = [...]` creates a new list; `self.x[i] = ..`, `self.x[:] = ..`, `self.x += ..`, `del self.x[i]`,
        `self.x.append(..)` modify a list that may be shared (e.g. with the underlying generator that returned it).  Only
        rebinding is in the accepted fragment; lists created in this very method ([] / tuple()) may be appended to in a loop."""
        def is_state(n):
            k = self.key_of(n)
            return k is not None and k not in self.fresh_acc
        if isinstance(s, (ast.Assign, ast.AugAssign, ast.AnnAssign, ast.Delete)):
            targets = s.targets if isinstance(s, (ast.Assign, ast.Delete)) else [s.target]
            for t in targets:
                if isinstance(t, ast.Subscript) and self.key_of(t.value) is not None:
                    self.err(s, f'in-place modification of {ast.unparse(t.value)} (item / slice assignment); only rebinding is accepted')
                if isinstance(s, ast.AugAssign) and is_state(t):
                    self.err(s, f'in-place modification of {ast.unparse(t)} (augmented assignment); only rebinding is accepted')
        if isinstance(s, ast.Expr) and isinstance(s.value, ast.Call) and isinstance(s.value.func, ast.Attribute) \
                and s.value.func.attr in self.MUTATORS and is_state(s.value.func.value):
            self.err(s, f'in-place modification of {ast.unparse(s.value.func.value)} (.{s.value.func.attr}); only rebinding is accepted')

    @staticmethod
    def assigned_keys(stmts):
        out = []
        for s in stmts:
            for n in ast.walk(s):
                if isinstance(n, ast.Assign):
                    for t in n.targets:
                        k = Fn.key_of(t)
                        if k and k not in out:
                            out.append(k)
        return out

    def while_loop(self, s, rest, env, ref, tail):
        if s.orelse:
            self.err(s, 'while-else not accepted')
        if self.draw != 'stream':
            self.err(s, 'a loop is only accepted around draws of the underlying generator')
        loop_keys = [k for k in self.assigned_keys(s.body) if k in env] + ['#taken']
        fname = f'{self.name}_loop'
        ctx = [(n, t) for n, t in self.scope if n not in {env[k][0] for k in loop_keys}]
        # ---- the loop function, over fresh copies of the loop variables
        saved_scope = self.scope
        self.scope = list(ctx)
        lenv = dict(env)
        lvars = []
        for k in loop_keys:
            ty = env[k][1]
            nm = self.bind(lenv, k, ty)
            lvars.append((nm, COQTY[ty]))
        binds = []
        self.pending_lets = []
        c, _ = self.cond(s.test, lenv, binds, ref)
        ctx_args = ' '.join(n for n, _ in ctx)
        body_env = dict(lenv)
        rec = lambda e: f"{fname} {ctx_args} fuel' {' '.join(e[k][0] for k in loop_keys)}"
        body = self.block(s.body, body_env, ref, rec)
        result = '(' + ', '.join(lenv[k][0] for k in loop_keys) + ')'
        rty = ' * '.join(COQTY[env[k][1]] for k in loop_keys)
        c, t_then, t_else = self.norm_cond(c, f"\n  match fuel with\n  | O => None     (* out of fuel *)\n  | S fuel' =>\n{body}\n  end\n",
                                           f' Some {result}')
        text = (f'Fixpoint {fname} {" ".join(f"({n} : {t})" for n, t in ctx)} (fuel : nat) '
                f'{" ".join(f"({n} : {t})" for n, t in lvars)} {{struct fuel}} : option ({rty}) :=\n'
                + self.wrap_binds(binds, f'if {c} then{t_then}else{t_else}') + '.')
        self.aux.append(text)
        self.scope = saved_scope
        # ---- the call
        p = self.fresh('r')
        call = f"{p} <- {fname} {ctx_args} fuel {' '.join(env[k][0] for k in loop_keys)} ;;"
        self.needs_fuel = True
        names = [self.bind(env, k, env[k][1]) for k in loop_keys]
        pat = names[0] if len(names) == 1 else "'(" + ', '.join(names) + ')'
        return '\n'.join([call, f'let {pat} := {p} in', self.block(rest, env, ref, tail)])

    # ------------------------------------------------------------------ helpers of the same class are inlined
    def inline(self, node, text, env, binds, ref):
        if '.' in text:
            owner, name = text.split('.', 1)
            fdef = self.helpers[name]
        else:
            owner, name, fdef = None, text, self.module_helpers[text]
        if self.inline_depth >= 3:
            self.err(node, 'helper calls nested too deeply')
        a = fdef.args
        if a.vararg or a.kwarg or a.kwonlyargs or a.defaults or a.kw_defaults or a.posonlyargs:
            self.err(node, 'helper with default / variadic parameters')
        decos = [ast.unparse(d) for d in fdef.decorator_list]
        if any(d != 'staticmethod' for d in decos) or (owner is None and decos):
            self.err(node, f'helper with decorator(s) {decos}')
        params = [x.arg for x in a.args]
        if owner is None:
            decos = ['module-level']           # no self: like a static method
        elif not decos:
            if params[:1] != ['self'] or owner != 'self':
                self.err(node, 'an instance method must be called on self')
            params = params[1:]
        if len(params) != len(node.args):
            self.err(node, 'wrong number of arguments for the helper')
        vals = []
        for p, an in zip(params, node.args):
            v, tv = self.expr(an, env, binds, ref)
            if tv in ('EMPTY',) or v.startswith('#'):
                self.err(an, 'argument not accepted for a helper')
            if not v.replace('_', '').isalnum():
                tmp = self.fresh(p)
                binds.append((tmp, v, 'let'))
                self.scope.append((tmp, COQTY[tv]))
                v = tmp
            vals.append((p, v, tv))
        env2 = {k: v for k, v in env.items() if k.startswith('self.') or k.startswith('#')} if not decos else {}
        for p, v, tv in vals:
            env2[p] = (v, tv)
        saved = self.fdef_ctx
        self.fdef_ctx = f'{self.cls + "." if owner else ""}{name} (inlined)'
        self.inline_depth += 1
        try:
            return self.ret_expr(fdef.body, env2, binds, {})
        finally:
            self.inline_depth -= 1
            self.fdef_ctx = saved

    def inline_stmt(self, s, text, env, ref, go):
        """`self.check(x)` as a statement: the helper's body may only raise (conditionally); then the caller continues"""
        name = text.split('.', 1)[1]
        fdef = self.helpers[name]
        a = fdef.args
        decos = [ast.unparse(d) for d in fdef.decorator_list]
        if a.vararg or a.kwarg or a.kwonlyargs or a.defaults or a.posonlyargs or any(d != 'staticmethod' for d in decos):
            self.err(s, 'helper signature not accepted')
        params = [x.arg for x in a.args]
        if not decos:
            params = params[1:]
        if len(params) != len(s.value.args) or self.inline_depth >= 3:
            self.err(s, 'helper call not accepted')
        binds = []
        env2 = {}
        for p, an in zip(params, s.value.args):
            v, tv = self.expr(an, env, binds, ref)
            if self.has_partial(binds) or v.startswith('#'):
                self.err(s, 'argument not accepted for a helper')
            env2[p] = (v, tv)
        for st in fdef.body:
            if any(isinstance(n, (ast.Return, ast.Assign, ast.AugAssign, ast.For, ast.While)) for n in ast.walk(st)):
                self.err(st, 'a helper called as a statement may only raise')
        saved = self.fdef_ctx
        self.fdef_ctx = f'{self.cls}.{name} (inlined)'
        self.inline_depth += 1
        def back(e):
            self.fdef_ctx = saved
            return go()
        try:
            return self.wrap_binds(binds, self.block(fdef.body, env2, {}, back))
        finally:
            self.inline_depth -= 1
            self.fdef_ctx = saved

    def ret_expr(self, stmts, env, binds, ref):
        """the value a helper body returns, as one expression (early returns become nested conditionals)"""
        if not stmts:
            self.err(None, 'helper can fall off its end without a return')
        s, rest = stmts[0], stmts[1:]
        if isinstance(s, ast.Expr) and isinstance(s.value, ast.Constant) and isinstance(s.value.value, str):
            return self.ret_expr(rest, env, binds, ref)
        if isinstance(s, ast.Return):
            if rest or s.value is None:
                self.err(s, 'return form not accepted in a helper')
            return self.expr(s.value, env, binds, ref)
        if isinstance(s, ast.Assign) and len(s.targets) == 1 and isinstance(s.targets[0], ast.Name):
            e, te = self.expr(s.value, env, binds, ref)
            nm = self.fresh(s.targets[0].id)
            binds.append((nm, e, 'let'))
            self.scope.append((nm, COQTY.get(te, te)))
            env[s.targets[0].id] = (nm, te)
            return self.ret_expr(rest, env, binds, ref)
        if isinstance(s, ast.If) and s.body and isinstance(s.body[-1], ast.Return):
            if s.orelse and rest:
                self.err(s, 'statements after an if that returns in both branches')
            c, _ = self.cond(s.test, env, binds, ref)
            r1, r2 = self.refine(s.test, ref)
            b1, b2 = [], []
            e1, t1 = self.ret_expr(s.body, dict(env), b1, r1)
            e2, t2 = self.ret_expr(s.orelse if s.orelse else rest, dict(env), b2, r2)
            if t1 != t2:
                e1, e2 = self.coerce(s, e1, t1, 'D'), self.coerce(s, e2, t2, 'D')
                t1 = 'D'
            if self.has_partial(b1) or self.has_partial(b2):
                v = self.fresh('v')
                c, x1, x2 = self.norm_cond(c, self.wrap_binds(b1, "Some (" + e1 + ")"), self.wrap_binds(b2, "Some (" + e2 + ")"))
                binds.append((v, f'(if {c} then {x1} else {x2})'))
                return v, t1
            c, x1, x2 = self.norm_cond(c, self.wrap_binds(b1, e1), self.wrap_binds(b2, e2))
            return f'(if {c} then {x1} else {x2})', t1
        self.err(s, 'statement not accepted in a helper')

    # ------------------------------------------------------------------ for loops
    def for_loop(self, s, rest, env, ref, tail):
        if s.orelse:
            self.err(s, 'for-else not accepted')
        for st in ast.walk(s):
            if isinstance(st, ast.stmt):
                self.no_mutation(st)
        it, var = s.iter, s.target
        if isinstance(it, ast.Call) and ast.unparse(it.func) == 'enumerate' and len(it.args) == 1 and isinstance(var, ast.Tuple) and len(var.elts) == 2:
            idx = var.elts[0].id
            it, var = it.args[0], var.elts[1]
            in_raise = {id(n) for st in s.body for p in ast.walk(st) if isinstance(p, ast.Raise) for n in ast.walk(p)}
            used = any(isinstance(n, ast.Name) and n.id == idx and id(n) not in in_raise for st in s.body for n in ast.walk(st))
            if used:
                self.err(s, 'the enumerate index is used outside the raise message')
        binds = []
        self.pending_lets = []
        env2 = dict(env)
        zipped = None
        if (isinstance(it, ast.Call) and ast.unparse(it.func) == 'zip' and len(it.args) == 2 and not it.keywords
                and isinstance(var, ast.Tuple) and len(var.elts) == 2 and all(isinstance(e, ast.Name) for e in var.elts)):
            a, ta = self.expr(it.args[0], env, binds, ref)
            b, tb = self.expr(it.args[1], env, binds, ref)
            zipped = (self.as_seq(it.args[0], a, ta), self.as_seq(it.args[1], b, tb), var.elts[0].id, var.elts[1].id)
            env2[zipped[2]], env2[zipped[3]] = (zipped[2], 'T'), (zipped[3], 'T')
            x = None
        elif isinstance(var, ast.Name):
            seq, ts = self.expr(it, env, binds, ref)
            if ts == 'GS':
                ety = 'G'
            elif ts in ('TS', 'TU', 'D'):
                seq, ety = self.as_seq(it, seq, ts), 'T'
            else:
                self.err(s, 'iteration over this is not accepted')
            x = var.id
            env2[x] = (x, ety)
        else:
            self.err(s, 'loop target not accepted')
        # (1) validation loop: for v in L: if cond: raise
        if x is not None and len(s.body) == 1 and isinstance(s.body[0], ast.If) and not s.body[0].orelse and len(s.body[0].body) == 1 \
                and isinstance(s.body[0].body[0], ast.Raise):
            b2 = []
            c, _ = self.cond(s.body[0].test, env2, b2, ref)
            if b2:
                self.err(s, 'partial condition inside a validation loop')
            return self.wrap_binds(binds, f'if existsb (fun {x} => {c}) ({seq}) then None (* raise {ast.unparse(s.body[0].body[0].exc)[:30]} *) else\n'
                                   + self.block(rest, env, ref, tail))
        # (2) accumulation loop: appends to one list
        single = None
        if len(s.body) == 1 and isinstance(s.body[0], ast.Expr) and isinstance(s.body[0].value, ast.Call) \
                and isinstance(s.body[0].value.func, ast.Attribute) and s.body[0].value.func.attr == 'append' \
                and len(s.body[0].value.args) == 1 and not s.body[0].value.keywords:
            single = s.body[0].value
        if single is not None:
            # exactly `acc.append(e)`: the loop is the comprehension [e for ...]  (same term as the comprehension)
            acc = self.key_of(single.func.value)
            b2 = []
            e, te = self.expr(single.args[0], env2, b2, ref)
            if acc is None or self.has_partial(b2) or te not in ('T', 'G', 'D'):
                self.err(s, 'append not accepted')
            e = self.wrap_binds(b2, e)
            lty = {'T': 'TS', 'G': 'GS', 'D': 'DS'}[te]
            if zipped:
                code = f'zipwith (fun {zipped[2]} {zipped[3]} => {e}) ({zipped[0]}) ({zipped[1]})'
            else:
                code = f'map (fun {x} => {e}) ({seq})'
        elif not zipped and isinstance(s.body[-1], ast.AugAssign) and isinstance(s.body[-1].op, ast.Add):
            # local statements, then `acc += <tuple>`: the tuples of all iterations, concatenated
            b2 = []
            for st in s.body[:-1]:
                if isinstance(st, ast.Assign) and len(st.targets) == 1 and isinstance(st.targets[0], ast.Name):
                    e, te = self.expr(st.value, env2, b2, ref)
                    kk = st.targets[0].id
                elif isinstance(st, ast.If):
                    kk, bb, e, te = self.cond_value(st, env2, ref)
                    b2 += bb
                    if kk.startswith('self.'):
                        self.err(st, 'assignment to a field inside a loop body')
                else:
                    self.err(st, 'statement not accepted in a loop body')
                if kk in env and kk not in (x,):
                    self.err(st, 'a loop body may only assign its own local variables')
                nm = self.fresh(kk)
                b2.append((nm, e, 'let'))
                env2[kk] = (nm, te)
            last = s.body[-1]
            acc = self.key_of(last.target)
            v, tv = self.expr(last.value, env2, b2, ref)
            if acc is None or self.has_partial(b2) or self.pending_lets:
                self.err(s, 'loop body not accepted')
            if isinstance(last.value, ast.Tuple) and len(last.value.elts) == 1 and v.startswith('[') and v.endswith(']'):
                # `acc += (e,)` : one member per iteration, the same term as tuple(e for ...)
                code, lty = f'map (fun {x} => {self.wrap_binds(b2, v[1:-1])}) ({seq})', 'TU'
            else:
                code, lty = f'flat_map (fun {x} => {self.wrap_binds(b2, self.as_seq(last.value, v, tv))}) ({seq})', 'TU'
        else:
            if zipped or ety != 'G':
                self.err(s, 'loop body not accepted (only a single append, `+=` of tuples, or appends of generators)')
            acc, lst = self.append_list(s.body, env2, ref)
            code, lty = f'flat_map (fun {x} => {lst}) ({seq})', 'GS'
        if acc not in env or not (env[acc][1] == lty or (env[acc][1] == 'EMPTY' and lty in ('TS', 'GS', 'DS')) or (env[acc][1] == 'EMPTYTU' and lty == 'TU')):
            self.err(s, 'accumulator is not a list of this kind defined before the loop')
        if acc not in self.fresh_acc:
            self.err(s, f'in-place growth of {acc}, which was not created in this method by [] / tuple()')
        old = env[acc][0]
        if acc.startswith('self.') and self.fields.get(acc[5:]) != lty:
            self.err(s, 'accumulator field of another type')
        name = self.bind(env, acc, lty)
        val = code if old == '[]' else f'{old} ++ {code}'
        return self.wrap_binds(binds, f'let {name} := {val} in\n' + self.block(rest, env, ref, tail))

    def append_list(self, stmts, env, ref):
        """statements that only append to one accumulator -> (accumulator key, coq list appended)"""
        accs, parts = set(), []
        for st in stmts:
            if isinstance(st, ast.Expr) and isinstance(st.value, ast.Call) and isinstance(st.value.func, ast.Attribute) \
                    and st.value.func.attr == 'append' and len(st.value.args) == 1 and not st.value.keywords:
                k = self.key_of(st.value.func.value)
                b = []
                e, te = self.expr(st.value.args[0], env, b, ref)
                if k is None or b or te != 'G':
                    self.err(st, 'append not accepted')
                accs.add(k)
                parts.append(f'[{e}]')
            elif isinstance(st, ast.If):
                b = []
                c, _ = self.cond(st.test, env, b, ref)
                if b:
                    self.err(st, 'partial condition in an accumulation loop')
                k1, l1 = self.append_list(st.body, env, ref)
                k2, l2 = self.append_list(st.orelse, env, ref) if st.orelse else (k1, '[]')
                accs |= {k1, k2}
                parts.append(f'(if {c} then {l1} else {l2})')
            elif isinstance(st, ast.For) and isinstance(st.target, ast.Name) and not st.orelse:
                b = []
                seq, ts = self.expr(st.iter, env, b, ref)
                if b or ts != 'GS':
                    self.err(st, 'inner loop not accepted')
                env2 = dict(env)
                env2[st.target.id] = (st.target.id, 'G')
                k1, l1 = self.append_list(st.body, env2, ref)
                accs.add(k1)
                parts.append(f'flat_map (fun {st.target.id} => {l1}) ({seq})')
            else:
                self.err(st, 'statement not accepted in an accumulation loop')
        if len(accs) != 1:
            self.err(stmts[0] if stmts else None, 'an accumulation loop must append to exactly one list')
        return accs.pop(), ' ++ '.join(parts) if parts else '[]'

    # ------------------------------------------------------------------ whole function
    def translate(self):
        f = self.fdef
        a = f.args
        if a.kwonlyargs or a.kwarg or a.kw_defaults or a.posonlyargs or (a.defaults and self.defaults is None):
            self.err(f, 'default / keyword-only / positional-only parameters are not accepted')
        self.default_defs = []
        if self.defaults is not None:
            have = {x.arg: ast.unparse(d) for x, d in zip(a.args[len(a.args) - len(a.defaults):], a.defaults)}
            if set(have) != set(self.defaults):
                self.err(f, f'parameters with defaults changed: {sorted(have)}')
            for pn, (src, coq) in self.defaults.items():
                if have[pn] != src:
                    # the default IS translated: a different literal gives a different generated constant
                    known = {'None': 'None', 'True': 'true', 'False': 'false'}
                    if have[pn] not in known and not have[pn].isdigit():
                        self.err(f, f'default of {pn} is not a literal this translator accepts: {have[pn]}')
                    coq = known.get(have[pn], f'(Some {have[pn]})' if src == 'None' else have[pn])
                pty = [COQTY[t] for py, _, t in self.params if py == pn]
                if len(pty) != 1:
                    self.err(f, f'default declared for a parameter that is not modelled: {pn}')
                self.default_defs.append(f'Definition {self.name}_default_{pn} : {pty[0]} := {coq}.')
        names = [x.arg for x in a.args][1:] + (['*' + a.vararg.arg] if a.vararg else [])
        if [x.arg for x in a.args][:1] != ['self'] or names != [p[0] for p in self.params]:
            self.err(f, f'signature changed: parameters {names}')
        env = {}
        self.needs_fuel = False
        self.pending_lets = []
        head = []
        if self.draw == 'stream':
            head.append(('draw', 'nat -> pyv'))
        if self.draw == 'single':
            head.append(('child', 'pyv'))
        self.scope = list(head) + self.extra_params
        if self.self_obj:
            env['self'] = ('self_', 'G')
            self.scope.append(('self_', 'gen'))
        for py, coq, ty in self.params:
            key = py.lstrip('*')
            if ty == 'UNDERLYING':
                env[key] = ('#underlying', 'G')
                continue
            if ty == 'O':
                env[key] = ('#opaque', 'O')
                continue
            env[key] = (coq, ty)
            self.scope.append((coq, COQTY[ty]))
        for fld in self.reads:
            ty = self.fields[fld]
            if ty == 'UNDERLYING':
                env['self.' + fld] = ('#underlying', 'G')
                continue
            nm = self.bind(env, 'self.' + fld, ty)
        if self.draw == 'stream':
            self.bind(env, '#taken', 'N')
        params = list(self.scope)
        body = self.block(f.body, env, {}, lambda e: self.finish(e, None) if not self.returns_value else self.err(f, 'control reaches the end without return'))
        for fld in self.writes:
            if 'self.' + fld not in env:
                self.err(f, f'field {fld} is never assigned')
        # oracles and fuel become leading parameters
        if self.aux and self.used_oracles:
            self.err(f, 'user callables / RNG calls inside a method with a loop are not accepted')
        lead = list(self.used_oracles) + ([('fuel', 'nat')] if self.needs_fuel else [])
        sig = ' '.join(f'({n} : {t})' for n, t in lead + params)
        text = '\n\n'.join(self.aux + [f'(* {self.cls}.{f.name}, {self.relpath}:{f.lineno} *)\nDefinition {self.name} {sig} :=\n{body}.']
                           + getattr(self, 'default_defs', []))
        return text
