#!/venv/bin/python
"""one line per harmless-refactoring evaluation log (development tool)"""
import glob, json, os
V = os.path.dirname(os.path.dirname(os.path.abspath(__file__)))
for p in sorted(glob.glob(os.path.join(V, 'build', 'harmlogs', '*.log'))):
    t = open(p).read(); i = t.find('{\n')
    try:
        d = json.loads(t[i:])
    except ValueError:
        print(os.path.basename(p)[:-4], 'UNPARSED/RUNNING'); continue
    cc = d.get('check_on_changed', {})
    print(os.path.basename(p)[:-4], d.get('outcome'), cc.get('exit'),
          [(r['key'], [(b[0], b[1][:140]) for b in r['broken'][:2]]) for r in cc.get('replays', [])][:2], 'repo', d.get('check_on_repo', {}).get('exit'), d.get('error') or '')
