#!/bin/bash
# evaluate both seeded variants of one property sequentially (development-time helper)
id=$1
cd /verif
mkdir -p build/seeded_logs
for v in a b; do
  if [ -d /tmp/seed/$id.out/$v ]; then /venv/bin/python tools/seeded_eval.py $id $v --tests > build/seeded_logs/${id}_$v.log 2>&1; fi
done
