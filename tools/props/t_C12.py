"""pyfront targets for C12 (condition composition: ensembles, NoCondition, output-unit selection)."""
import ast
from pyfront.gen import Target
from pyfront.interp import NetSym, FunSym, SymInt, Matrix, Obj, RaisedInSource

F = 'neurodiffeq/conditions.py'
P = lambda n: ('par', n)
V = lambda n: ('var', n)


def xs(m):
    return [f'x{j}' for j in range(m)]


def opaque_sub(I, i):
    """A sub-condition whose parameterize is an arbitrary row-wise function P_i(o, inputs...)."""
    c = I.instantiate('NoCondition')
    c.attrs['parameterize'] = FunSym(f'P{i}')
    return c


def ens_abstract(k, m, kcols=None):
    """EnsembleCondition of k opaque sub-conditions applied to a raw output of kcols columns
    (leaves o0..) and m input columns."""
    kcols = k if kcols is None else kcols

    def b(I):
        subs = [opaque_sub(I, i) for i in range(k)]
        e = I.instantiate('EnsembleCondition', *subs)
        out = Matrix([V(f'o{i}') for i in range(kcols)])
        return I.call_method(e, 'parameterize', out, *[V(x) for x in xs(m)])
    return b


def ens_concrete_1d(I):
    """(IVP value, DirichletBVP, NoCondition, IVP value+derivative) on a 4-output network of t."""
    subs = [I.instantiate('IVP', t_0=P('t_0'), u_0=P('u_0')),
            I.instantiate('DirichletBVP', t_0=P('t_0'), u_0=P('a'), t_1=P('t_1'), u_1=P('b')),
            I.instantiate('NoCondition'),
            I.instantiate('IVP', t_0=P('t_0'), u_0=P('u_0'), u_0_prime=P('u_0_prime'))]
    e = I.instantiate('EnsembleCondition', *subs)
    return I.call_method(e, 'enforce', NetSym('N', width=4), V('t'))


def sub_alone(which):
    """What sub-condition i yields when applied to the network's i-th output alone."""
    def b(I):
        col = lambda i: ('fun', f'N@{i}', (0,), (('avar', 't'),))
        if which == 0:
            c = I.instantiate('IVP', t_0=P('t_0'), u_0=P('u_0'))
        elif which == 1:
            c = I.instantiate('DirichletBVP', t_0=P('t_0'), u_0=P('a'), t_1=P('t_1'), u_1=P('b'))
        elif which == 2:
            c = I.instantiate('NoCondition')
        else:
            c = I.instantiate('IVP', t_0=P('t_0'), u_0=P('u_0'), u_0_prime=P('u_0_prime'))
        return I.call_method(c, 'parameterize', col(which), V('t'))
    return b


def ens_concrete_3d(I):
    """(one-sided spherical shell, NoCondition) on a 2-output network of (r, theta, phi)."""
    subs = [I.instantiate('DirichletBVPSpherical', r_0=P('r_0'), f=FunSym('f')), I.instantiate('NoCondition')]
    e = I.instantiate('EnsembleCondition', *subs)
    return I.call_method(e, 'enforce', NetSym('N', width=2), V('r'), V('theta'), V('phi'))


def nocond(k, m):
    def b(I):
        c = I.instantiate('NoCondition')
        return I.call_method(c, 'parameterize', Matrix([V(f'o{i}') for i in range(k)]), *[V(x) for x in xs(m)])
    return b


def nocond_enforce(m, unit):
    def b(I):
        c = I.instantiate('NoCondition')
        if unit:
            c.attrs['ith_unit'] = SymInt('k')
        return I.call_method(c, 'enforce', NetSym('N', width=3 if unit else 1), *[V(x) for x in xs(m)])
    return b


def condition_classes(I):
    out = []
    for name, cls in I.mod.classes.items():
        chain = [c.name for c in I.mro(cls)]
        if 'BaseCondition' in chain and name != 'BaseCondition':
            out.append(name)
    return out


def accepts(clsname, force):
    def b(I):
        sub = Obj(I.mod.classes[clsname])            # only sub.__class__ is inspected by the constructor
        I.instantiate('EnsembleCondition', sub, force=force)
        return ('cst', 0)
    return b


def overrides_enforce(repo, clsname):
    from pyfront.interp import Interp
    I = Interp(repo, F)
    fn, owner = I.find_method(I.mod.classes[clsname], 'enforce')
    return owner.name != 'BaseCondition'


def class_targets(repo):
    from pyfront.interp import Interp
    I = Interp(repo, F)
    ts = []
    for name in condition_classes(I):
        ov = 'true' if overrides_enforce(repo, name) else 'false'
        ts.append(Target(f'accept_{name}', F, accepts(name, False), meta=f'("{name}"%string, {ov})', group='accept', index_raises=True, doc='EnsembleCondition(<instance>) without force'))
        ts.append(Target(f'force_{name}', F, accepts(name, True), meta=f'("{name}"%string, {ov})', group='force', index_raises=True, doc='EnsembleCondition(<instance>, force=True)'))
    return ts


def make_targets(repo='/repo'):
    T = []
    for k in (1, 2, 3, 4):
        for m in (1, 2, 3, 4):
            T.append(Target(f'ens_{k}_{m}', F, ens_abstract(k, m), leaves=xs(m) + [f'o{i}' for i in range(k)], funs=[f'P{i}' for i in range(k)]))
    T += [Target('ens_mismatch_more_cols', F, ens_abstract(2, 1, kcols=3)), Target('ens_mismatch_fewer_cols', F, ens_abstract(3, 2, kcols=2))]
    T += [Target('ens_concrete_1d', F, ens_concrete_1d, leaves=['t'], pars=['t_0', 'u_0', 'a', 't_1', 'b', 'u_0_prime'], funs=['N@0', 'N@1', 'N@2', 'N@3'])]
    T += [Target(f'sub_alone_{i}', F, sub_alone(i), leaves=['t'], pars=['t_0', 'u_0', 'a', 't_1', 'b', 'u_0_prime'], funs=['N@0', 'N@1', 'N@2', 'N@3']) for i in range(4)]
    T += [Target('ens_concrete_3d', F, ens_concrete_3d, leaves=['r', 'theta', 'phi'], pars=['r_0'], funs=['N@0', 'N@1', 'f'])]
    for k in (1, 2, 3, 4):
        for m in (1, 2, 3, 4):
            T.append(Target(f'nocond_{k}_{m}', F, nocond(k, m), leaves=xs(m) + [f'o{i}' for i in range(k)]))
    for m in (1, 2, 3, 4):
        T.append(Target(f'nocond_enforce_{m}', F, nocond_enforce(m, False), leaves=xs(m), funs=['N']))
        T.append(Target(f'nocond_unit_{m}', F, nocond_enforce(m, True), leaves=xs(m), funs=['N@k']))
    T += class_targets(repo)
    return T


class _Lazy(list):
    """TARGETS depends on the tree under test (class table)."""
    def __init__(self):
        import os
        super().__init__(make_targets(os.environ.get('VERIF_REPO', '/repo')))


TARGETS = _Lazy()
