"""Generated fragments for C20 (legacy space-time API, neurodiffeq/temporal.py).

1. pyfront targets: the approximator `__call__` bodies as `expr` terms (network = NetSym,
   u0 / u0dot = FunSym).  `LegacyInterp` adds the three idioms the legacy file uses
   (`torch.unsqueeze(x, dim=1)`, `torch.squeeze(u)`: identities in the row-wise model;
   `hasattr(obj, 'name')` on an interpreted object).

2. A small fail-closed `ast` translator of the four sampler *generator functions*
   (`while True:` bodies with `yield`) into Gallina STEP functions

        <fn>_init  params            : <fn>_state
        <fn>_step  params cur st     : output * cur' * <fn>_state

   over the abstract field `FOps` of coq/model/Legacy.v, where `cur` counts `torch.rand` calls
   (the oracle is `rnd : nat -> nat -> F`: call index -> element index -> value) and the state
   holds exactly the variables that are assigned in the loop body AND live at the loop head
   (read in a later iteration before being assigned again).  That is what distinguishes
   `yield center + noise` (no state) from `center = center + noise` (state = center).

`generate(repo, outdir)` writes coq/gen/Gen_C20.v (+ .json) from the current source; nothing is
written on a refusal.
"""
import ast
import json
import os
from fractions import Fraction

from pyfront import ir
from pyfront.gen import Target, run_target, emit_module, HEADER
from pyfront.interp import Interp, NetSym, FunSym, Obj, TranslationError

F = 'neurodiffeq/temporal.py'
V = lambda n: ('var', n)


# --------------------------------------------------------------------------- 1. approximators

class LegacyInterp(Interp):
    def builtin(self, n, name, args, kwargs):
        if name == 'torch.unsqueeze':
            # (n,) -> (n,1): the row-wise model has one real per row already
            if len(args) != 1 or kwargs != {'dim': 1} or not (ir.is_term(args[0]) and args[0][0] == 'var'):
                self.err(n, 'torch.unsqueeze must be called as unsqueeze(<leaf>, dim=1)')
            return args[0]
        if name == 'torch.squeeze':
            if len(args) != 1 or kwargs:
                self.err(n, 'torch.squeeze must be called on one tensor')
            return self.tens(n, args[0])
        if name == 'hasattr':
            if len(args) == 2 and isinstance(args[0], Obj) and isinstance(args[1], str) and not kwargs:
                return args[1] in args[0].attrs
            self.err(n, 'hasattr on a non-object')
        return super().builtin(n, name, args, kwargs)


def approx1d(I):
    ic = I.instantiate('FirstOrderInitialCondition', FunSym('u0'))
    a = I.instantiate('SingleNetworkApproximator1DSpatialTemporal', NetSym('N'), FunSym('pde'), ic, [])
    return I.call_method(a, '__call__', V('xx'), V('tt'))


def approx2d(second):
    def b(I):
        if second:
            ic = I.instantiate('SecondOrderInitialCondition', FunSym('u0'), FunSym('u0dot'))
        else:
            ic = I.instantiate('FirstOrderInitialCondition', FunSym('u0'))
        a = I.instantiate('SingleNetworkApproximator2DSpatialTemporal', NetSym('N'), FunSym('pde'), ic, [])
        return I.call_method(a, '__call__', V('xx'), V('yy'), V('tt'))
    return b


def approx2d_steady(I):
    a = I.instantiate('SingleNetworkApproximator2DSpatial', NetSym('N'), FunSym('pde'), [])
    return I.call_method(a, '__call__', V('xx'), V('yy'))


TARGETS = [
    Target('Approx1D', F, approx1d, leaves=['xx', 'tt'], funs=['u0', 'N'], interp_cls=LegacyInterp,
           doc='SingleNetworkApproximator1DSpatialTemporal.__call__ with a FirstOrderInitialCondition'),
    Target('Approx2D_first', F, approx2d(False), leaves=['xx', 'yy', 'tt'], funs=['u0', 'N'], interp_cls=LegacyInterp,
           doc='SingleNetworkApproximator2DSpatialTemporal.__call__, FirstOrderInitialCondition (u0dot is None)'),
    Target('Approx2D_second', F, approx2d(True), leaves=['xx', 'yy', 'tt'], funs=['u0', 'u0dot', 'N'], interp_cls=LegacyInterp,
           doc='SingleNetworkApproximator2DSpatialTemporal.__call__, SecondOrderInitialCondition'),
    Target('Approx2D_steady', F, approx2d_steady, leaves=['xx', 'yy'], funs=['N'], interp_cls=LegacyInterp,
           doc='SingleNetworkApproximator2DSpatial.__call__ (no initial condition: the raw network)'),
]


# --------------------------------------------------------------------------- 2. sampler steps

SAMPLERS = ['generator_1dspatial', 'generator_temporal', 'generator_2dspatial_segment', 'generator_2dspatial_rectangle']

# parameter types are fixed in the tool (documented types of the public signatures)
T_F, T_NAT, T_BOOL = ('F',), ('nat',), ('bool',)
SIGS = {
    'generator_1dspatial': [('size', T_NAT), ('x_min', T_F), ('x_max', T_F), ('random', T_BOOL)],
    'generator_temporal': [('size', T_NAT), ('t_min', T_F), ('t_max', T_F), ('random', T_BOOL)],
    'generator_2dspatial_segment': [('size', T_NAT), ('start', ('pair', T_F, T_F)), ('end', ('pair', T_F, T_F)), ('random', T_BOOL)],
    'generator_2dspatial_rectangle': [('size', ('pair', T_NAT, T_NAT)), ('x_min', T_F), ('x_max', T_F), ('y_min', T_F),
                                      ('y_max', T_F), ('random', T_BOOL)],
}

RESERVED = {'end', 'at', 'as', 'in', 'fun', 'let', 'match', 'with', 'if', 'then', 'else', 'return', 'forall', 'exists',
            'fix', 'cofix', 'using', 'where', 'for', 'O', 'F', 'fadd', 'fsub', 'fmul', 'fdiv', 'fopp', 'fofZ', 'fofQ',
            'fofnat', 'rnd', 'cur', 'st', 'linspace', 'vmap1', 'vmap2', 'vmapl', 'vmapr', 'cart_fst', 'cart_snd', 'tt',
            'S', 'nat', 'bool', 'unit', 'true', 'false', 'Type', 'Set', 'Prop', 'Vec', 'fst', 'snd', 'pair'}


def cid(name):
    return name + '_' if name in RESERVED or name.endswith('_') and name[:-1] in RESERVED else name


def coq_type(t):
    k = t[0]
    if k == 'F':
        return 'F O'
    if k in ('nat', 'bool'):
        return k
    if k == 'vec':
        return 'Vec O'
    if k == 'pair':
        return f'({coq_type(t[1])} * {coq_type(t[2])})%type'
    if k == 'gen':
        return f'{t[1]}_state O'
    raise ValueError(t)


def same_type(a, b):
    if a[0] != b[0]:
        return False
    if a[0] == 'vec':
        return a[1] == b[1]
    if a[0] == 'pair':
        return same_type(a[1], b[1]) and same_type(a[2], b[2])
    if a[0] == 'gen':
        return a[1:] == b[1:]
    return True


class SamplerTranslator:
    def __init__(self, repo, relpath=F):
        self.relpath = relpath
        self.src = open(os.path.join(repo, relpath)).read()
        self.tree = ast.parse(self.src)
        self.funcs = {n.name: n for n in self.tree.body if isinstance(n, ast.FunctionDef)}
        self.done = {}          # fname -> info

    def err(self, node, what):
        raise TranslationError(self.relpath, getattr(node, 'lineno', 0), 'sampler translator: ' + what)

    # ------------------------------------------------------------------ liveness
    def reads(self, e):
        return {n.id for n in ast.walk(e) if isinstance(n, ast.Name) and isinstance(n.ctx, ast.Load)}

    def targets(self, t):
        if isinstance(t, ast.Name):
            return {t.id}
        if isinstance(t, (ast.Tuple, ast.List)):
            out = set()
            for x in t.elts:
                out |= self.targets(x)
            return out
        self.err(t, f'assignment target not accepted: {type(t).__name__}')

    def is_next(self, e):
        return isinstance(e, ast.Call) and isinstance(e.func, ast.Name) and e.func.id == 'next'

    def is_yield(self, s):
        return isinstance(s, ast.Expr) and isinstance(s.value, ast.Yield)

    def assigned(self, stmts):
        out = set()
        for s in stmts:
            if isinstance(s, ast.Assign):
                for t in s.targets:
                    out |= self.targets(t)
                if self.is_next(s.value):
                    out |= self.reads(s.value) - {'next'}
            elif isinstance(s, ast.If):
                out |= self.assigned(s.body) | self.assigned(s.orelse)
            elif self.is_yield(s) or (isinstance(s, ast.Expr) and isinstance(s.value, ast.Constant)):
                pass
            else:
                self.err(s, f'statement not accepted in a sampler loop: {type(s).__name__}')
        return out

    def live_in(self, stmts, live_out, head):
        """variables live on entry to `stmts`; after a yield control reaches the loop head"""
        live = set(live_out)
        for s in reversed(stmts):
            if isinstance(s, ast.Assign):
                tg = set()
                for t in s.targets:
                    tg |= self.targets(t)
                live = (live - tg) | (self.reads(s.value) - {'next', 'torch'})
            elif isinstance(s, ast.If):
                live = (self.reads(s.test) | self.live_in(s.body, live, head) | self.live_in(s.orelse, live, head))
            elif self.is_yield(s):
                live = set(head) | (self.reads(s.value.value) if s.value.value is not None else set())
            elif isinstance(s, ast.Expr) and isinstance(s.value, ast.Constant):
                pass
            else:
                self.err(s, f'statement not accepted in a sampler loop: {type(s).__name__}')
        return live - {'torch'}

    # ------------------------------------------------------------------ expressions
    def toF(self, node, v):
        t, c = v
        if t[0] == 'F':
            return c
        if t[0] == 'nat':
            return f'(fofnat O {c})'
        if t[0] == 'lit':
            fr = t[1]
            if fr.denominator == 1:
                return f'(fofZ O ({fr.numerator}))'
            return f'(fofQ O ({fr.numerator}) {fr.denominator})'
        self.err(node, f'{t[0]} used as a number')

    def ev(self, n, env, cur):
        """-> ((type, coq), cur')   evaluation order left to right (torch.rand calls are counted)"""
        if isinstance(n, ast.Constant):
            if isinstance(n.value, bool) or not isinstance(n.value, (int, float)):
                self.err(n, f'constant not accepted: {n.value!r}')
            fr = Fraction(repr(n.value)) if isinstance(n.value, float) else Fraction(n.value)
            return (('lit', fr, isinstance(n.value, float)), None), cur
        if isinstance(n, ast.Name):
            if n.id not in env:
                self.err(n, f'unknown name {n.id}')
            return (env[n.id], cid(n.id)), cur
        if isinstance(n, ast.UnaryOp) and isinstance(n.op, ast.USub):
            v, cur = self.ev(n.operand, env, cur)
            if v[0][0] == 'lit':
                return (('lit', -v[0][1], v[0][2]), None), cur
            if v[0][0] == 'vec':
                return (v[0], f'(vmap1 (fopp O) {v[1]})'), cur
            return (T_F, f'(fopp O {self.toF(n, v)})'), cur
        if isinstance(n, ast.BinOp):
            op = {ast.Add: 'fadd', ast.Sub: 'fsub', ast.Mult: 'fmul', ast.Div: 'fdiv'}.get(type(n.op))
            if op is None:
                self.err(n, f'operator not accepted: {type(n.op).__name__}')
            a, cur = self.ev(n.left, env, cur)
            b, cur = self.ev(n.right, env, cur)
            va, vb = a[0][0] == 'vec', b[0][0] == 'vec'
            if va and vb:
                if a[0][1] != b[0][1]:
                    self.err(n, f'element-wise operation on vectors of lengths {a[0][1]} and {b[0][1]}')
                return (a[0], f'(vmap2 ({op} O) {a[1]} {b[1]})'), cur
            if va:
                return (a[0], f'(vmapr ({op} O) {a[1]} {self.toF(n, b)})'), cur
            if vb:
                return (b[0], f'(vmapl ({op} O) {self.toF(n, a)} {b[1]})'), cur
            integral = lambda x: x[0][0] == 'nat' or x[0][0] == 'lit' and not x[0][2]
            if integral(a) and integral(b):
                self.err(n, 'integer arithmetic is not accepted')
            return (T_F, f'({op} O {self.toF(n, a)} {self.toF(n, b)})'), cur
        if isinstance(n, ast.Call):
            fn = ast.unparse(n.func)
            if n.keywords:
                self.err(n, f'keyword arguments in call of {fn}')
            if fn == 'torch.linspace':
                if len(n.args) != 3:
                    self.err(n, 'torch.linspace arity')
                lo, cur = self.ev(n.args[0], env, cur)
                hi, cur = self.ev(n.args[1], env, cur)
                k, cur = self.ev(n.args[2], env, cur)
                if k[0][0] != 'nat':
                    self.err(n, 'torch.linspace: number of points must be an integer parameter')
                return (('vec', k[1]), f'(linspace O {self.toF(n, lo)} {self.toF(n, hi)} {k[1]})'), cur
            if fn == 'torch.rand':
                if len(n.args) != 1:
                    self.err(n, 'torch.rand arity')
                k, cur = self.ev(n.args[0], env, cur)
                if k[0][0] != 'nat':
                    self.err(n, 'torch.rand: size must be an integer parameter')
                return (('vec', k[1]), f'(rnd {cur})'), f'(S {cur})'
            if fn == 'torch.cartesian_prod':
                if len(n.args) != 2:
                    self.err(n, 'torch.cartesian_prod arity')
                x, cur = self.ev(n.args[0], env, cur)
                y, cur = self.ev(n.args[1], env, cur)
                if x[0][0] != 'vec' or y[0][0] != 'vec':
                    self.err(n, 'torch.cartesian_prod of non-vectors')
                return (('cart', x[1], x[0][1], y[1], y[0][1]), None), cur
            if fn == 'torch.squeeze':
                if len(n.args) != 1:
                    self.err(n, 'torch.squeeze arity')
                v, cur = self.ev(n.args[0], env, cur)
                if v[0][0] != 'vec':
                    self.err(n, 'torch.squeeze of a non-vector')
                return v, cur
            if fn in self.funcs and fn in SIGS:
                info = self.translate(fn)
                if len(n.args) != len(info['params']):
                    self.err(n, f'{fn} must be called with all {len(info["params"])} positional arguments')
                args, free = [], set()
                for a, (pn, pt) in zip(n.args, info['params']):
                    v, cur2 = self.ev(a, env, cur)
                    if cur2 != cur:
                        self.err(n, 'torch.rand inside generator arguments')
                    if not same_type(v[0], pt):
                        self.err(n, f'argument {pn} of {fn}: expected {pt[0]}, got {v[0][0]}')
                    args.append(v[1])
                    free |= self.reads(a)
                return (('gen', fn, tuple(args), tuple(sorted(free))), f'({fn}_init O {" ".join(args)})'), cur
            self.err(n, f'call of {fn} not accepted')
        if isinstance(n, ast.Subscript):
            base, cur = self.ev(n.value, env, cur)
            sl = n.slice
            if base[0][0] == 'cart' and isinstance(sl, ast.Tuple) and len(sl.elts) == 2 \
                    and isinstance(sl.elts[0], ast.Slice) and sl.elts[0].lower is None and sl.elts[0].upper is None \
                    and sl.elts[0].step is None and isinstance(sl.elts[1], ast.Constant) and sl.elts[1].value in (0, 1) \
                    and not isinstance(sl.elts[1].value, bool):
                _, xc, xl, yc, yl = base[0]
                ln = f'({xl} * {yl})'
                if sl.elts[1].value == 0:
                    return (('vec', ln), f'(cart_fst {xc} {yl})'), cur
                return (('vec', ln), f'(cart_snd {yc} {yl})'), cur
            self.err(n, f'subscript not accepted: {ast.unparse(n)}')
        if isinstance(n, ast.Tuple) and len(n.elts) == 2:
            a, cur = self.ev(n.elts[0], env, cur)
            b, cur = self.ev(n.elts[1], env, cur)
            for x in (a, b):
                if x[1] is None:
                    self.err(n, 'tuple component is not a value')
            return (('pair', a[0], b[0]), f'({a[1]}, {b[1]})'), cur
        self.err(n, f'expression not accepted: {type(n).__name__} ({ast.unparse(n)[:60]})')

    # ------------------------------------------------------------------ statements
    def bind(self, node, target, v, env):
        """-> (coq pattern, new env)"""
        t, c = v
        env = dict(env)
        if isinstance(target, ast.Name):
            if t[0] == 'lit':
                t, c = T_F, self.toF(node, v)
            env[target.id] = t
            return cid(target.id), c, env
        if isinstance(target, (ast.Tuple, ast.List)) and len(target.elts) == 2 and t[0] == 'pair' \
                and all(isinstance(x, ast.Name) for x in target.elts):
            env[target.elts[0].id] = t[1]
            env[target.elts[1].id] = t[2]
            return f"'({cid(target.elts[0].id)}, {cid(target.elts[1].id)})", c, env
        self.err(node, f'cannot bind {ast.unparse(target)} to a value of kind {t[0]}')

    def prelude(self, stmts, env, loop_assigned=()):
        """pure straight-line code before the loop -> (list of `let` strings, env)"""
        lets = []
        for s in stmts:
            if isinstance(s, ast.Expr) and isinstance(s.value, ast.Constant) and isinstance(s.value.value, str):
                continue
            if not isinstance(s, ast.Assign) or len(s.targets) != 1:
                self.err(s, f'statement not accepted before the sampler loop: {type(s).__name__}')
            v, cur = self.ev(s.value, env, 'cur')
            if cur != 'cur':
                self.err(s, 'torch.rand before the sampler loop')
            if v[0][0] == 'cart':
                self.err(s, 'cartesian product before the loop')
            pat, c, env = self.bind(s, s.targets[0], v, env)
            lets.append(f'let {pat} := {c} in')
        return lets, env

    def block(self, stmts, env, cur, ctx, ind):
        """CPS translation of the remaining statements of one loop iteration -> coq text"""
        pad = '  ' * ind
        if not stmts:
            self.err(ctx['loop'], 'a path through the loop body ends without `yield`')
        s, rest = stmts[0], stmts[1:]
        if isinstance(s, ast.Expr) and isinstance(s.value, ast.Constant):
            return self.block(rest, env, cur, ctx, ind)
        if self.is_yield(s):
            if rest:
                self.err(rest[0], 'statements after `yield` in the same iteration are not accepted')
            if s.value.value is None:
                self.err(s, 'bare yield')
            v, cur = self.ev(s.value.value, env, cur)
            if v[1] is None:
                self.err(s, 'yielded value is not a tensor or a pair of tensors')
            if ctx['out'] is None:
                ctx['out'] = v[0]
            elif not same_type(ctx['out'], v[0]):
                self.err(s, 'the yields of one generator have different shapes')
            for name, t0 in ctx['state']:
                if not same_type(env[name], t0):
                    self.err(s, f'loop-carried variable {name} changes its shape')
            return f'{pad}({v[1]}, {cur}, {ctx["state_tuple"]})'
        if isinstance(s, ast.Assign):
            if len(s.targets) != 1:
                self.err(s, 'chained assignment')
            tgt = s.targets[0]
            if self.is_next(s.value):
                if len(s.value.args) != 1 or not isinstance(s.value.args[0], ast.Name):
                    self.err(s, 'next() must be applied to a generator variable')
                g = s.value.args[0].id
                gt = env.get(g)
                if gt is None or gt[0] != 'gen':
                    self.err(s, f'next() of a non-generator {g}')
                for fv in gt[3]:
                    if fv in ctx['assigned']:
                        self.err(s, f'generator argument {fv} is reassigned inside the loop')
                info = self.done[gt[1]]
                out_t = self.subst_len(info['out'], {cid(pn): a for (pn, _), a in zip(info['params'], gt[2])})
                env2 = dict(env)
                if not isinstance(tgt, ast.Name):
                    if not (isinstance(tgt, ast.Tuple) and len(tgt.elts) == 2 and out_t[0] == 'pair'
                            and all(isinstance(x, ast.Name) for x in tgt.elts)):
                        self.err(s, 'cannot unpack the yielded value')
                    env2[tgt.elts[0].id], env2[tgt.elts[1].id] = out_t[1], out_t[2]
                    pat = f'({cid(tgt.elts[0].id)}, {cid(tgt.elts[1].id)})'
                else:
                    env2[tgt.id] = out_t
                    pat = cid(tgt.id)
                line = f"{pad}let '({pat}, cur, {cid(g)}) := {gt[1]}_step O rnd {' '.join(gt[2])} {cur} {cid(g)} in"
                return line + '\n' + self.block(rest, env2, 'cur', ctx, ind)
            v, cur = self.ev(s.value, env, cur)
            if v[0][0] == 'cart':
                if not isinstance(tgt, ast.Name):
                    self.err(s, 'cartesian product must be bound to a name')
                env2 = dict(env)
                env2[tgt.id] = v[0]
                return self.block(rest, env2, cur, ctx, ind)      # no Coq value: only its columns are
            if v[0][0] == 'gen':
                self.err(s, 'generator created inside the loop')
            pat, c, env2 = self.bind(s, tgt, v, env)
            return f'{pad}let {pat} := {c} in\n' + self.block(rest, env2, cur, ctx, ind)
        if isinstance(s, ast.If):
            test, body, orelse = s.test, list(s.body), list(s.orelse)
            while isinstance(test, ast.UnaryOp) and isinstance(test.op, ast.Not):      # `if not c: A else: B` = `if c: B else: A`
                test, body, orelse = test.operand, orelse, body
            if isinstance(test, ast.Compare) and len(test.ops) == 1 and isinstance(test.ops[0], (ast.Eq, ast.Is, ast.NotEq, ast.IsNot)):
                sides = [test.left, test.comparators[0]]                                # `c == True`, `False is c`, ... (either order)
                lit = [x for x in sides if isinstance(x, ast.Constant) and isinstance(x.value, bool)]
                nam = [x for x in sides if isinstance(x, ast.Name)]
                if len(lit) == 1 and len(nam) == 1:
                    flip = (lit[0].value is False) != isinstance(test.ops[0], (ast.NotEq, ast.IsNot))
                    test = nam[0]
                    if flip:
                        body, orelse = orelse, body
            if not (isinstance(test, ast.Name) and env.get(test.id) == T_BOOL):
                self.err(s, f'loop test must be a boolean parameter: {ast.unparse(s.test)}')
            a = self.block(body + rest, env, cur, ctx, ind + 1)
            b = self.block(orelse + rest, env, cur, ctx, ind + 1)
            return f'{pad}if {cid(test.id)} then\n{a}\n{pad}else\n{b}'
        self.err(s, f'statement not accepted in a sampler loop: {type(s).__name__}')

    def subst_len(self, t, mapping):
        """vector lengths of a callee's output, expressed in the caller's terms"""
        import re
        if t[0] == 'vec':
            return ('vec', re.sub(r'[A-Za-z_][A-Za-z_0-9]*', lambda m: mapping.get(m.group(0), m.group(0)), t[1]))
        if t[0] == 'pair':
            return ('pair', self.subst_len(t[1], mapping), self.subst_len(t[2], mapping))
        return t

    # ------------------------------------------------------------------ one generator function
    def translate(self, fname):
        if fname in self.done:
            return self.done[fname]
        if fname not in self.funcs:
            raise TranslationError(self.relpath, 0, f'sampler translator: function {fname} not found')
        fn = self.funcs[fname]
        if fname in getattr(self, '_active', set()):
            self.err(fn, 'recursive generator')
        self._active = getattr(self, '_active', set()) | {fname}
        a = fn.args
        names = [p.arg for p in a.args]
        if a.vararg or a.kwarg or a.kwonlyargs or a.posonlyargs or names != [n for n, _ in SIGS[fname]]:
            self.err(fn, f'signature of {fname} changed: {names}')
        if fn.decorator_list:
            self.err(fn, 'decorated generator')
        body = [s for s in fn.body if not (isinstance(s, ast.Expr) and isinstance(s.value, ast.Constant))]
        body = self.inline_delegation(fn, body, names, depth=0)
        if not body or not isinstance(body[-1], ast.While):
            self.err(fn, 'the function must end with its `while True:` loop')
        loop = body[-1]
        if not (isinstance(loop.test, ast.Constant) and loop.test.value is True) or loop.orelse:
            self.err(loop, 'loop must be `while True:` without else')
        for s in body[:-1]:
            for sub in ast.walk(s):
                if isinstance(sub, (ast.Yield, ast.YieldFrom, ast.While, ast.For)):
                    self.err(s, 'yield/loop before the sampler loop')
        env = {n: t for n, t in SIGS[fname]}
        pre_lets, env = self.prelude(body[:-1], env)
        # loop-carried variables: assigned in the loop and live at its head (fixpoint)
        assigned = self.assigned(loop.body)
        head = set()
        while True:
            new = self.live_in(loop.body, set(), head)
            if new == head:
                break
            head = new
        carried = sorted(assigned & head, key=lambda v: self.first_assignment(fn, v))
        for v in carried:
            if v not in env:
                self.err(loop, f'loop-carried variable {v} has no value before the loop')
        for v in head:
            if v not in env:
                self.err(loop, f'variable {v} may be read before it is assigned')
        state = [(v, env[v]) for v in carried]
        if not state:
            st_type, st_tuple, st_pat = 'unit', 'tt', None
        else:
            st_type = ' * '.join(coq_type(t) for _, t in state)
            st_tuple = '(' + ', '.join(cid(v) for v, _ in state) + ')' if len(state) > 1 else cid(state[0][0])
            st_pat = "'" + st_tuple if len(state) > 1 else st_tuple
        ctx = {'state': state, 'state_tuple': st_tuple, 'out': None, 'assigned': assigned, 'loop': loop}
        body_txt = self.block(list(loop.body), env, 'cur', ctx, 2)
        params = ' '.join(f'({cid(n)} : {coq_type(t)})' for n, t in SIGS[fname])
        pre = ''.join(f'  {l}\n' for l in pre_lets)
        out_t = coq_type(ctx['out'])
        lines = [f'(* {fname}: lines {fn.lineno}-{fn.end_lineno}; loop-carried: {[v for v, _ in state] or "none"} *)',
                 f'Definition {fname}_state (O : FOps) : Type := ({st_type})%type.',
                 f'Definition {fname}_carried : list string := [{"; ".join(chr(34) + v + chr(34) for v, _ in state)}]%string.',
                 f'Definition {fname}_init (O : FOps) {params} : {fname}_state O :=\n{pre}  {st_tuple}.',
                 f'Definition {fname}_step (O : FOps) (rnd : nat -> Vec O) {params} (cur : nat) (st : {fname}_state O)'
                 f'\n    : ({out_t} * nat * {fname}_state O)%type :=\n{pre}'
                 + (f'  let {st_pat} := st in\n' if st_pat else '') + body_txt + '.']
        info = {'name': fname, 'params': SIGS[fname], 'carried': [v for v, _ in state], 'out': ctx['out'],
                'coq': '\n'.join(lines), 'lines': [fn.lineno, fn.end_lineno]}
        self.done[fname] = info
        self._active = self._active - {fname}
        return info

    def inline_delegation(self, fn, body, params, depth):
        """`<prelude>; yield from g(a1, .., an)` as the last statement, g another accepted generator
        function: replace it by `p1 = a1; ..; pn = an; <body of g>` (g's parameters bound to the
        argument expressions, evaluated once, in order -- exactly what the call does).  Refused when
        a name of g would capture or shadow a name the caller still needs."""
        if not body:
            return body
        last = body[-1]
        if not (isinstance(last, ast.Expr) and isinstance(last.value, ast.YieldFrom)):
            return body
        call = last.value.value
        if depth > 3:
            self.err(last, 'delegation chain too deep')
        if not (isinstance(call, ast.Call) and isinstance(call.func, ast.Name) and call.func.id in self.funcs and call.func.id in SIGS):
            self.err(last, f'`yield from` of something that is not an accepted generator function: {ast.unparse(call)[:60]}')
        g = self.funcs[call.func.id]
        if g is fn or call.func.id in getattr(self, '_active', set()) - {fn.name}:
            self.err(last, 'recursive delegation')
        ga = g.args
        gparams = [p.arg for p in ga.args]
        if ga.vararg or ga.kwarg or ga.kwonlyargs or ga.posonlyargs or g.decorator_list or gparams != [n for n, _ in SIGS[g.name]]:
            self.err(g, f'signature of {g.name} changed: {gparams}')
        # bind arguments (positional, keywords, defaults)
        bound = {}
        if len(call.args) > len(gparams) or any(isinstance(a, ast.Starred) for a in call.args):
            self.err(last, 'too many / starred arguments in delegation')
        for p, a in zip(gparams, call.args):
            bound[p] = a
        for kw in call.keywords:
            if kw.arg is None or kw.arg not in gparams or kw.arg in bound:
                self.err(last, f'keyword argument {kw.arg} in delegation')
            bound[kw.arg] = kw.value
        defaults = dict(zip(gparams[len(gparams) - len(ga.defaults):], ga.defaults))
        for p in gparams:
            if p not in bound:
                if p not in defaults:
                    self.err(last, f'missing argument {p} in delegation')
                bound[p] = defaults[p]
        gbody = [s for s in g.body if not (isinstance(s, ast.Expr) and isinstance(s.value, ast.Constant))]
        g_names = {n.id for s in gbody for n in ast.walk(s) if isinstance(n, ast.Name)} | set(gparams)
        caller_names = set(params) | {n.id for s in body[:-1] for n in ast.walk(s) if isinstance(n, ast.Name) and isinstance(n.ctx, ast.Store)}
        binds = []
        for p in gparams:
            a = bound[p]
            if isinstance(a, ast.Name) and a.id == p:
                continue                                   # same name, same value: nothing to bind
            if p in caller_names:
                self.err(last, f'parameter {p} of {g.name} would shadow a name of {fn.name}')
            binds.append(ast.copy_location(ast.Assign(targets=[ast.Name(id=p, ctx=ast.Store())], value=a, lineno=last.lineno), last))
        # a later binding must not read a name bound by an earlier one (sequential lets vs simultaneous call)
        seen = set()
        for b in binds:
            if self.reads(b.value) & seen:
                self.err(last, 'argument expression reads a parameter name bound earlier')
            seen.add(b.targets[0].id)
        # locals of g must not capture names the argument expressions / caller prelude still mean
        g_locals = {n.id for s in gbody for n in ast.walk(s) if isinstance(n, ast.Name) and isinstance(n.ctx, ast.Store)}
        if g_locals & (caller_names - {p for p in gparams if isinstance(bound[p], ast.Name) and bound[p].id == p}):
            self.err(last, f'a local of {g.name} would rebind a name of {fn.name}')
        for b in binds:
            ast.fix_missing_locations(b)
        new_body = body[:-1] + binds + gbody
        return self.inline_delegation(g, new_body, list(caller_names | set(gparams)), depth + 1) if gbody and isinstance(gbody[-1], ast.Expr) \
            and isinstance(gbody[-1].value, ast.YieldFrom) else new_body

    def first_assignment(self, fn, v):
        best = 10 ** 9
        for n in ast.walk(fn):
            if isinstance(n, ast.Name) and isinstance(n.ctx, ast.Store) and n.id == v:
                best = min(best, n.lineno * 1000 + n.col_offset)
        return best


# --------------------------------------------------------------------------- 3. training-loop fragments

TRAIN_FUNCS = ['_train_1dspatial_temporal', '_train_2dspatial', '_train_2dspatial_temporal']
CMP = {ast.Lt: lambda a, b: f'(Nat.ltb {a} {b})', ast.Gt: lambda a, b: f'(Nat.ltb {b} {a})',
       ast.LtE: lambda a, b: f'(Nat.leb {a} {b})', ast.GtE: lambda a, b: f'(Nat.leb {b} {a})'}


class LoopTranslator:
    """Fail-closed extraction of (a) the index arithmetic of the mini-batch `while` loop of the
    _train_* functions as Gallina `init / cond / body` over nat (state = the index variables the
    loop assigns; one slice `idx[a:b]` emitted per iteration), (b) the history operations of
    _solve_spatial_temporal as data."""

    def __init__(self, repo, relpath=F):
        self.relpath = relpath
        self.tree = ast.parse(open(os.path.join(repo, relpath)).read())
        self.funcs = {n.name: n for n in self.tree.body if isinstance(n, ast.FunctionDef)}

    def err(self, node, what):
        raise TranslationError(self.relpath, getattr(node, 'lineno', 0), 'loop translator: ' + what)

    def names(self, e):
        return {n.id for n in ast.walk(e) if isinstance(n, ast.Name)}

    def iexpr(self, e, ok_names):
        """non-negative integer expression over the index variables -> Coq nat expression"""
        if isinstance(e, ast.Constant) and isinstance(e.value, int) and not isinstance(e.value, bool) and e.value >= 0:
            return str(e.value)
        if isinstance(e, ast.Name) and e.id in ok_names:
            return cid(e.id)
        if isinstance(e, ast.BinOp) and isinstance(e.op, (ast.Add, ast.Mult)):
            op = '+' if isinstance(e.op, ast.Add) else '*'
            return f'({self.iexpr(e.left, ok_names)} {op} {self.iexpr(e.right, ok_names)})'
        self.err(e, f'index expression not accepted: {ast.unparse(e)}')

    def bexpr(self, t, ok_names):
        while isinstance(t, ast.UnaryOp) and isinstance(t.op, ast.Not):
            return f'(negb {self.bexpr(t.operand, ok_names)})'
        if isinstance(t, ast.Compare) and len(t.ops) == 1 and type(t.ops[0]) in CMP:
            return CMP[type(t.ops[0])](self.iexpr(t.left, ok_names), self.iexpr(t.comparators[0], ok_names))
        self.err(t, f'loop test not accepted: {ast.unparse(t)}')

    def train_loop(self, fname):
        if fname not in self.funcs:
            raise TranslationError(self.relpath, 0, f'loop translator: {fname} not found')
        fn = self.funcs[fname]
        whiles = [s for s in fn.body if isinstance(s, ast.While)]
        if len(whiles) != 1 or any(isinstance(n, (ast.While, ast.For)) and n is not whiles[0] for s in fn.body for n in ast.walk(s)
                                   if isinstance(s, (ast.While, ast.For)) and n is not s and n is not whiles[0]):
            self.err(fn, 'expected exactly one top-level while loop')
        loop = whiles[0]
        if loop.orelse:
            self.err(loop, 'while-else')
        for n in ast.walk(loop):
            if isinstance(n, (ast.Break, ast.Continue, ast.Return, ast.Yield, ast.YieldFrom, ast.Try, ast.With)) or \
                    (isinstance(n, (ast.While, ast.For)) and n is not loop):
                self.err(n, f'{type(n).__name__} inside the mini-batch loop')
        # the slices of the index permutation taken in the loop
        slices = [n for n in ast.walk(loop) if isinstance(n, ast.Subscript) and isinstance(n.slice, ast.Slice)]
        if len(slices) != 1 or not isinstance(slices[0].value, ast.Name) or slices[0].slice.step is not None \
                or slices[0].slice.lower is None or slices[0].slice.upper is None:
            self.err(loop, 'expected exactly one slice `idx[a:b]` in the loop')
        sl = slices[0]
        perm = sl.value.id
        # index variables: those of the loop test and of the slice bounds, closed under the assignments of the loop
        control = self.names(loop.test) | self.names(sl.slice.lower) | self.names(sl.slice.upper)
        changed = True
        while changed:
            changed = False
            for n in ast.walk(loop):
                tg, val = None, None
                if isinstance(n, ast.Assign) and len(n.targets) == 1 and isinstance(n.targets[0], ast.Name):
                    tg, val = n.targets[0].id, n.value
                elif isinstance(n, ast.AugAssign) and isinstance(n.target, ast.Name):
                    tg, val = n.target.id, n.value
                if tg in control and not self.names(val) <= control:
                    control |= self.names(val)
                    changed = True
        assigned = set()
        for n in ast.walk(loop):
            if isinstance(n, ast.Name) and isinstance(n.ctx, ast.Store):
                assigned.add(n.id)
        if perm in assigned or perm in control:
            self.err(loop, f'the sliced sequence {perm} is modified or used as an index')
        state = sorted(control & assigned, key=lambda v: min(n.lineno * 1000 + n.col_offset for n in ast.walk(fn)
                                                            if isinstance(n, ast.Name) and n.id == v))
        params = sorted(control - assigned, key=lambda v: min(n.lineno * 1000 + n.col_offset for n in ast.walk(fn)
                                                              if (isinstance(n, ast.Name) and n.id == v) or (isinstance(n, ast.arg) and n.arg == v)))
        if not state:
            self.err(loop, 'the loop assigns no index variable')
        # initial values: the last assignment before the loop to each state variable
        pre = fn.body[:fn.body.index(loop)]
        init = {}
        for s in pre:
            if isinstance(s, ast.Assign) and len(s.targets) == 1:
                t = s.targets[0]
                if isinstance(t, ast.Name) and t.id in state:
                    init[t.id] = s.value
                elif isinstance(t, ast.Tuple) and isinstance(s.value, ast.Tuple) and len(t.elts) == len(s.value.elts):
                    for a, b in zip(t.elts, s.value.elts):
                        if isinstance(a, ast.Name) and a.id in state:
                            init[a.id] = b
                elif any(isinstance(n, ast.Name) and n.id in state for n in ast.walk(t)):
                    self.err(s, 'unrecognised initialisation of an index variable')
            elif any(isinstance(n, ast.Name) and isinstance(n.ctx, ast.Store) and n.id in state for n in ast.walk(s)):
                self.err(s, 'unrecognised initialisation of an index variable')
        if set(init) != set(state):
            self.err(loop, f'index variables {sorted(set(state) - set(init))} have no initial value')
        init_txt = ', '.join(self.iexpr(init[v], set(params)) for v in state)
        # the permutation: <perm> = torch.randperm(N) if <shuffle> else torch.arange(N), N the loop bound
        pdef = [s for s in pre if isinstance(s, ast.Assign) and len(s.targets) == 1 and ast.unparse(s.targets[0]) == perm]
        perm_of = None
        if len(pdef) == 1 and isinstance(pdef[0].value, ast.IfExp):
            a, b = pdef[0].value.body, pdef[0].value.orelse
            if isinstance(a, ast.Call) and isinstance(b, ast.Call) and {ast.unparse(a.func), ast.unparse(b.func)} == {'torch.randperm', 'torch.arange'} \
                    and len(a.args) == 1 and len(b.args) == 1 and ast.unparse(a.args[0]) == ast.unparse(b.args[0]) and isinstance(a.args[0], ast.Name):
                perm_of = a.args[0].id
        if perm_of is None or perm_of not in params:
            self.err(loop, f'{perm} is not `torch.randperm(N) if shuffle else torch.arange(N)` with N an index parameter of the loop')
        # what is done with the slice: every tensor handed to calculate_loss inside the loop is <tensor>[<the slice>] or loop-invariant
        batch_names = set()
        for n in ast.walk(loop):
            if isinstance(n, ast.Assign) and n.value is sl and len(n.targets) == 1 and isinstance(n.targets[0], ast.Name):
                batch_names.add(n.targets[0].id)
        indexed = {}
        for n in ast.walk(loop):
            if isinstance(n, ast.Assign) and len(n.targets) == 1 and isinstance(n.targets[0], ast.Name) and isinstance(n.value, ast.Subscript) \
                    and isinstance(n.value.value, ast.Name) and (n.value.slice is sl.slice or (isinstance(n.value.slice, ast.Name) and n.value.slice.id in batch_names)):
                indexed[n.targets[0].id] = n.value.value.id
        calls = [n for n in ast.walk(loop) if isinstance(n, ast.Call) and ast.unparse(n.func).endswith('.calculate_loss')]
        if len(calls) != 1:
            self.err(loop, 'expected exactly one calculate_loss call in the loop')
        batched = []
        for a in calls[0].args:
            if not isinstance(a, ast.Name):
                self.err(a, 'calculate_loss argument is not a name')
            if a.id in indexed:
                if indexed[a.id] in assigned:
                    self.err(a, 'the indexed tensor is modified in the loop')
                batched.append(indexed[a.id])
            elif a.id in assigned:
                self.err(a, f'calculate_loss argument {a.id} is computed in the loop but is not <tensor>[<batch indices>]')
        if not batched:
            self.err(calls[0], 'no batched tensor is passed to calculate_loss')
        # the body: statements that touch index variables become lets, the slice becomes the emitted value
        ctx = {'emitted': 0}
        ok = set(state) | set(params)

        def block(stmts, k):
            """-> Coq text for the statements followed by continuation text k"""
            if not stmts:
                return k
            s, rest = stmts[0], stmts[1:]
            touches = any(isinstance(n, ast.Name) and isinstance(n.ctx, ast.Store) and n.id in control for n in ast.walk(s))
            has_slice = any(n is sl for n in ast.walk(s))
            if has_slice:
                if touches or not isinstance(s, ast.Assign):
                    self.err(s, 'the slice must be taken in a plain assignment')
                ctx['emitted'] += 1
                return f"let out := ({self.iexpr(sl.slice.lower, ok)}, {self.iexpr(sl.slice.upper, ok)}) in\n  " + block(rest, k)
            if not touches:
                return block(rest, k)                 # payload: tensors, loss, optimiser
            if isinstance(s, ast.Assign) and len(s.targets) == 1 and isinstance(s.targets[0], ast.Name):
                return f'let {cid(s.targets[0].id)} := {self.iexpr(s.value, ok)} in\n  ' + block(rest, k)
            if isinstance(s, ast.AugAssign) and isinstance(s.target, ast.Name) and isinstance(s.op, ast.Add):
                return f'let {cid(s.target.id)} := ({cid(s.target.id)} + {self.iexpr(s.value, ok)}) in\n  ' + block(rest, k)
            if isinstance(s, ast.If):
                if any(n is sl for n in ast.walk(s)):
                    self.err(s, 'conditional slice')
                tg = sorted({n.id for n in ast.walk(s) if isinstance(n, ast.Name) and isinstance(n.ctx, ast.Store) and n.id in control})
                pat = tg[0] if len(tg) == 1 else "'(" + ', '.join(cid(v) for v in tg) + ')'
                tup = cid(tg[0]) if len(tg) == 1 else '(' + ', '.join(cid(v) for v in tg) + ')'
                for n in ast.walk(s):
                    if isinstance(n, ast.stmt) and n is not s and not isinstance(n, (ast.Assign, ast.AugAssign, ast.If, ast.Pass)):
                        self.err(n, 'statement not accepted in a conditional on index variables')
                a = block(list(s.body), tup)
                b = block(list(s.orelse), tup)
                return f'let {pat} := (if {self.bexpr(s.test, ok)} then {a} else {b}) in\n  ' + block(rest, k)
            self.err(s, f'statement on index variables not accepted: {ast.unparse(s)[:60]}')
        st_tuple = '(' + ', '.join(cid(v) for v in state) + ')' if len(state) > 1 else cid(state[0])
        st_pat = "'" + st_tuple if len(state) > 1 else st_tuple
        body_txt = block(list(loop.body), f'(out, {st_tuple})')
        if ctx['emitted'] != 1:
            self.err(loop, 'the slice is not taken exactly once per iteration on every path')
        name = fname.lstrip('_')
        ptxt = ' '.join(f'({cid(p)} : nat)' for p in params)
        st_ty = ' * '.join('nat' for _ in state)
        coq = '\n'.join([
            f'(* {fname}: while loop at line {loop.lineno}; index state {state}; parameters {params}; sliced sequence `{perm}` = a permutation of range({perm_of});',
            f'   calculate_loss receives {batched} indexed by the slice *)',
            f'Definition {name}_loop_params : list string := [{"; ".join(chr(34) + p + chr(34) for p in params)}]%string.',
            f'Definition {name}_loop_bound : string := "{perm_of}"%string.',
            f'Definition {name}_loop_init {ptxt} : ({st_ty})%type := ({init_txt}).',
            f'Definition {name}_loop_cond {ptxt} (st : ({st_ty})%type) : bool :=\n  let {st_pat} := st in {self.bexpr(loop.test, ok)}.',
            f'Definition {name}_loop_body {ptxt} (st : ({st_ty})%type) : ((nat * nat) * ({st_ty}))%type :=\n  let {st_pat} := st in\n  {body_txt}.'])
        return {'name': name, 'state': state, 'params': params, 'perm_of': perm_of, 'coq': coq, 'line': loop.lineno}

    # ------------------------------------------------------------------ history operations
    def history(self, fname='_solve_spatial_temporal'):
        if fname not in self.funcs:
            raise TranslationError(self.relpath, 0, f'loop translator: {fname} not found')
        fn = self.funcs[fname]
        body = [s for s in fn.body if not (isinstance(s, ast.Expr) and isinstance(s.value, ast.Constant))]
        if len(body) != 4 or not isinstance(body[0], ast.Assign) or not isinstance(body[1], ast.For) or not isinstance(body[2], ast.For) \
                or not isinstance(body[3], ast.Return):
            self.err(fn, 'expected: history literal, metric-key loop, epoch loop, return')
        h = body[0]
        if not (len(h.targets) == 1 and isinstance(h.targets[0], ast.Name) and isinstance(h.value, ast.Dict)):
            self.err(h, 'history must start as a dict literal')
        H = h.targets[0].id
        keys = []
        for k, v in zip(h.value.keys, h.value.values):
            if not (isinstance(k, ast.Constant) and isinstance(k.value, str) and isinstance(v, ast.List) and not v.elts):
                self.err(h, 'history literal must map string keys to []')
            keys.append(k.value)
        # for <m>, _ in metrics.items(): history['p' + m] = []
        ml = body[1]
        mparam = 'metrics'
        it = ast.unparse(ml.iter)
        if it == f'{mparam}.items()' and isinstance(ml.target, ast.Tuple) and isinstance(ml.target.elts[0], ast.Name):
            mvar = ml.target.elts[0].id
        elif it in (mparam, f'{mparam}.keys()') and isinstance(ml.target, ast.Name):
            mvar = ml.target.id
        else:
            self.err(ml, 'metric-key loop must iterate over the metrics dictionary')
        prefixes = []
        for s in ml.body:
            if isinstance(s, ast.Assign) and len(s.targets) == 1 and isinstance(s.targets[0], ast.Subscript) \
                    and ast.unparse(s.targets[0].value) == H and isinstance(s.value, ast.List) and not s.value.elts:
                prefixes.append(self.prefix_of(s.targets[0].slice, mvar))
            else:
                self.err(s, 'statement not accepted in the metric-key loop')
        # for epoch in range(max_epochs): ...
        el = body[2]
        if not (isinstance(el.iter, ast.Call) and ast.unparse(el.iter.func) == 'range' and len(el.iter.args) == 1
                and isinstance(el.iter.args[0], ast.Name) and el.iter.args[0].id in [a.arg for a in fn.args.args]) or el.orelse:
            self.err(el, 'epoch loop must be `for epoch in range(<max_epochs parameter>)`')
        env, ops, handoffs = {}, [], []
        for s in el.body:
            if isinstance(s, ast.Assign) and len(s.targets) == 1 and isinstance(s.targets[0], ast.Tuple) and len(s.targets[0].elts) == 2 \
                    and isinstance(s.value, ast.Call) and isinstance(s.value.func, ast.Name) and s.value.func.id in ('train_routine', 'valid_routine'):
                tr = s.value.func.id == 'train_routine'
                a, b = s.targets[0].elts
                if not (isinstance(a, ast.Name) and isinstance(b, ast.Name)):
                    self.err(s, 'routine result must be unpacked into two names')
                env[a.id], env[b.id] = ('loss', tr), ('metrics', tr)
                continue
            if isinstance(s, ast.Expr) and isinstance(s.value, ast.Call) and isinstance(s.value.func, ast.Attribute) and s.value.func.attr == 'append' \
                    and isinstance(s.value.func.value, ast.Subscript) and ast.unparse(s.value.func.value.value) == H:
                k = s.value.func.value.slice
                if not (isinstance(k, ast.Constant) and isinstance(k.value, str) and len(s.value.args) == 1 and isinstance(s.value.args[0], ast.Name)
                        and env.get(s.value.args[0].id, (None,))[0] == 'loss'):
                    self.err(s, 'history append not accepted')
                ops.append(('loss', k.value, env[s.value.args[0].id][1]))
                continue
            if isinstance(s, ast.For) and isinstance(s.iter, ast.Call) and isinstance(s.iter.func, ast.Attribute) and s.iter.func.attr == 'items' \
                    and isinstance(s.iter.func.value, ast.Name) and env.get(s.iter.func.value.id, (None,))[0] == 'metrics' \
                    and isinstance(s.target, ast.Tuple) and len(s.target.elts) == 2 and all(isinstance(x, ast.Name) for x in s.target.elts) \
                    and len(s.body) == 1 and not s.orelse:
                mk, mv = s.target.elts[0].id, s.target.elts[1].id
                c = s.body[0]
                if not (isinstance(c, ast.Expr) and isinstance(c.value, ast.Call) and isinstance(c.value.func, ast.Attribute) and c.value.func.attr == 'append'
                        and isinstance(c.value.func.value, ast.Subscript) and ast.unparse(c.value.func.value.value) == H
                        and [ast.unparse(x) for x in c.value.args] == [mv]):
                    self.err(c, 'metric append not accepted')
                ops.append(('metrics', self.prefix_of(c.value.func.value.slice, mk), env[s.iter.func.value.id][1]))
                continue
            for c in [n for n in ast.walk(s) if isinstance(n, ast.Call)]:
                for a in list(c.args) + [kw.value for kw in c.keywords]:
                    if any(isinstance(n, ast.Name) and n.id == H for n in ast.walk(a)):
                        if isinstance(a, ast.Name):
                            handoffs.append((ast.unparse(c.func), 'alias'))
                        elif ast.unparse(a) in (f'dict({H})', f'{H}.copy()'):
                            handoffs.append((ast.unparse(c.func), 'alias-of-series'))      # shallow copy: the lists are still shared
                        elif ast.unparse(a) in (f'copy.deepcopy({H})', f'deepcopy({H})') or \
                                ast.unparse(a).replace(' ', '') in ('{k:list(v)fork,vin%s.items()}' % H, '{k:v[:]fork,vin%s.items()}' % H):
                            handoffs.append((ast.unparse(c.func), 'copy'))
                        else:
                            self.err(a, f'cannot tell whether `{ast.unparse(a)}` shares the history with the callee')
            if any((isinstance(n, ast.Name) and n.id == H and isinstance(n.ctx, ast.Store)) for n in ast.walk(s)) or \
                    any(isinstance(n, ast.Subscript) and ast.unparse(n.value) == H and isinstance(n.ctx, (ast.Store, ast.Del)) for n in ast.walk(s)) or \
                    any(isinstance(n, ast.Attribute) and n.attr in ('append', 'extend', 'pop', 'clear', 'update', 'insert', 'remove', 'setdefault')
                        and H in self.names(n.value) for n in ast.walk(s)) or \
                    any(isinstance(n, (ast.Break, ast.Continue, ast.Return)) for n in ast.walk(s)):
                self.err(s, 'statement changes the history / leaves the epoch loop in an unrecognised way')
        ret = body[3].value
        if not (isinstance(ret, ast.Tuple) and len(ret.elts) == 2 and ast.unparse(ret.elts[1]) == H):
            self.err(body[3], 'the history must be returned as the second component')
        q = lambda x: chr(34) + x + chr(34)
        # who receives the live history, and does any receiver defined in this file change it
        receivers = []
        for callee, how in handoffs:
            if how == 'copy':
                continue
            meth = callee.rsplit('.', 1)[-1]
            found = False
            for cls in [n for n in self.tree.body if isinstance(n, ast.ClassDef)]:
                for m in cls.body:
                    if isinstance(m, ast.FunctionDef) and m.name == meth:
                        found = True
                        pos = None
                        # which parameter receives the history: positional index in the call
                        receivers.append((f'{cls.name}.{meth}', m, how))
            if not found:
                self.err(el, f'the history is handed to `{callee}`, which is not defined in this file')
        purity = []
        for name, m, how in receivers:
            params = [a.arg for a in m.args.args]
            if 'history' not in params:
                self.err(m, f'{name} has no `history` parameter')
            why = self.mutates(m, {'history'}, set())
            purity.append((name, why is None, why or ''))
        copy_only = all(how == 'copy' for _, how in handoffs)
        coq = '\n'.join([
            f'(* {fname}: history literal at line {h.lineno}, epoch loop at line {el.lineno} *)',
            f'Definition history_init_keys : list string := [{"; ".join(q(k) for k in keys)}]%string.',
            f'Definition history_init_prefixes : list string := [{"; ".join(q(k) for k in prefixes)}]%string.',
            'Definition history_epoch_ops : list hop :=\n  [' + ';\n   '.join(
                f'{"HLoss" if kind == "loss" else "HMetrics"} {q(k)}%string {"true" if tr else "false"}' for kind, k, tr in ops) + '].',
            '(* hand-off of the LIVE history dictionary out of the epoch loop (monitor.check): receivers defined in this file and',
            '   whether their code performs no in-place operation on it (fail-closed analysis of every use of the parameter) *)',
            f'Definition history_handoff_is_copy : bool := {"true" if copy_only else "false"}.',
            'Definition history_receivers_pure : list (string * bool) :=\n  [' + ';\n   '.join(
                f'({q(n)}%string, {"true" if ok else "false"})' + (f' (* {why} *)' if why else '') for n, ok, why in purity) + '].'])
        return {'keys': keys, 'prefixes': prefixes, 'ops': ops, 'coq': coq, 'handoffs': handoffs,
                'receivers': [(n, ok, why) for n, ok, why in purity]}

    MUTATORS = {'append', 'extend', 'insert', 'pop', 'popitem', 'remove', 'clear', 'update', 'setdefault', 'sort', 'reverse',
                '__setitem__', '__delitem__'}
    READERS = {'items', 'keys', 'values', 'get', 'copy', 'index', 'count'}
    PURE_BUILTINS = {'len', 'min', 'max', 'sum', 'list', 'tuple', 'dict', 'enumerate', 'zip', 'float', 'int', 'str', 'sorted', 'reversed',
                     'isinstance', 'print', 'range', 'abs', 'any', 'all', 'iter', 'next'}

    def mutates(self, fn, params, seen):
        """None if the function provably performs no in-place operation on the objects bound to `params`
        (or reachable from them); otherwise a short reason.  Aliases are tracked through assignments and
        loop targets; handing an alias to a function of this file recurses; handing it to anything else
        than a method of `self`-owned plotting objects or a pure builtin is refused."""
        if (fn.name, tuple(sorted(params))) in seen:
            return None
        seen = seen | {(fn.name, tuple(sorted(params)))}
        aliases = set(params)

        def rooted(e):
            while isinstance(e, (ast.Attribute, ast.Subscript)):
                e = e.value
            return isinstance(e, ast.Name) and e.id in aliases

        def mentions(e):
            return any(isinstance(n, ast.Name) and n.id in aliases for n in ast.walk(e))
        for _ in range(3):
            for n in ast.walk(fn):
                if isinstance(n, ast.Assign) and mentions(n.value) and not isinstance(n.value, (ast.ListComp, ast.DictComp, ast.SetComp, ast.GeneratorExp)):
                    for t in n.targets:
                        for x in ast.walk(t):
                            if isinstance(x, ast.Name):
                                aliases.add(x.id)
                if isinstance(n, (ast.For, ast.comprehension)) and mentions(n.iter):
                    for x in ast.walk(n.target):
                        if isinstance(x, ast.Name):
                            aliases.add(x.id)
        for n in ast.walk(fn):
            if isinstance(n, (ast.Assign, ast.AugAssign, ast.Delete, ast.AnnAssign)):
                tg = n.targets if isinstance(n, (ast.Assign, ast.Delete)) else [n.target]
                for t in tg:
                    if isinstance(t, (ast.Subscript, ast.Attribute)) and rooted(t):
                        return f'line {n.lineno}: writes {ast.unparse(t)}'
                if isinstance(n, ast.AugAssign) and isinstance(n.target, ast.Name) and n.target.id in aliases:
                    return f'line {n.lineno}: in-place operator on {n.target.id}'
            if isinstance(n, ast.Call):
                f = n.func
                args = list(n.args) + [kw.value for kw in n.keywords]
                if isinstance(f, ast.Attribute) and rooted(f):
                    if f.attr in self.MUTATORS:
                        return f'line {n.lineno}: {ast.unparse(f)}()'
                    if f.attr not in self.READERS:
                        return f'line {n.lineno}: unknown method {ast.unparse(f)}()'
                    continue
                shared = [a for a in args if mentions(a) and not isinstance(a, (ast.Constant, ast.JoinedStr))]
                if not shared:
                    continue
                if isinstance(f, ast.Name) and f.id in self.funcs:
                    g = self.funcs[f.id]
                    gp = [p.arg for p in g.args.args]
                    sub = {p for p, a in zip(gp, n.args) if mentions(a)} | {kw.arg for kw in n.keywords if kw.arg in gp and mentions(kw.value)}
                    why = self.mutates(g, sub, seen)
                    if why:
                        return f'line {n.lineno}: {f.id}: {why}'
                    continue
                if isinstance(f, ast.Name) and f.id in self.PURE_BUILTINS:
                    continue
                if isinstance(f, ast.Attribute):
                    r = f
                    while isinstance(r, (ast.Attribute, ast.Subscript, ast.Call)):
                        r = r.func if isinstance(r, ast.Call) else r.value
                    if isinstance(r, ast.Name) and r.id in ('self', 'plt', 'np', 'torch', 'math'):
                        continue              # plotting / numeric libraries read their data arguments
                return f'line {n.lineno}: hands the history to {ast.unparse(f)}'
        return None

    def prefix_of(self, e, var):
        if isinstance(e, ast.BinOp) and isinstance(e.op, ast.Add) and isinstance(e.left, ast.Constant) and isinstance(e.left.value, str) \
                and isinstance(e.right, ast.Name) and e.right.id == var:
            return e.left.value
        if isinstance(e, ast.JoinedStr) and len(e.values) == 2 and isinstance(e.values[0], ast.Constant) \
                and isinstance(e.values[1], ast.FormattedValue) and isinstance(e.values[1].value, ast.Name) and e.values[1].value.id == var \
                and e.values[1].conversion == -1 and e.values[1].format_spec is None:
            return e.values[0].value
        self.err(e, f'history key must be <literal prefix> + <metric name>: {ast.unparse(e)}')


SAMPLER_HEADER = """
(* ---------------------------------------------------------------------------------------
   Sampler generator functions of {file} as STEP functions (tools/props/t_C20.py).
   `rnd c i` = element i of the c-th `torch.rand` call; `cur` = number of calls made so far. *)
From Coq Require Import String.
From ND.model Require Import Legacy.
"""


LOOP_HEADER = """
(* ---------------------------------------------------------------------------------------
   Index arithmetic of the mini-batch `while` loops of the _train_* functions and the history
   operations of _solve_spatial_temporal (tools/props/t_C20.py, LoopTranslator).  Driven by
   `while_fuel` / `gen_solve` of coq/model/Legacy.v. *)
Local Open Scope nat_scope.
"""


def generate(repo, outdir):
    """-> (ok, info) in the format of pyfront.gen.generate; info['samplers'] = per-function metadata."""
    results, mods = {}, []
    t = None
    try:
        for t in TARGETS:
            r, _ = run_target(repo, t)
            mods.append(emit_module(t, r))
            results[t.name] = r
        tr = SamplerTranslator(repo)
        order = []
        for fname in SAMPLERS:
            t = Target(fname, F, None)
            tr.translate(fname)
        order = list(tr.done)      # callees first
        lt = LoopTranslator(repo)
        loops = []
        for fname in TRAIN_FUNCS:
            t = Target(fname, F, None)
            loops.append(lt.train_loop(fname))
        t = Target('_solve_spatial_temporal', F, None)
        hist = lt.history()
    except TranslationError as e:
        return False, {'error': str(e), 'file': e.file, 'line': e.line, 'target': t.name if t else '?'}
    text = HEADER.format(files=F) + '\n'.join(mods) + SAMPLER_HEADER.format(file=F) + '\n' + \
        '\n\n'.join(tr.done[f]['coq'] for f in order) + '\n' + LOOP_HEADER + '\n\n'.join(l['coq'] for l in loops) + '\n\n' + hist['coq'] + '\n'
    os.makedirs(outdir, exist_ok=True)
    vpath = os.path.join(outdir, 'Gen_C20.v')
    old = open(vpath).read() if os.path.exists(vpath) else None
    if old != text:
        with open(vpath, 'w') as f:
            f.write(text)
    js = {}
    for k, r in results.items():
        js[k] = {'raises': r['raises']} if 'raises' in r else {'terms': r['terms'], 'multi': r['multi'], 'fresh': r['fresh'],
                                                              'names': r['names']}
    samplers = {f: {'carried': tr.done[f]['carried'], 'lines': tr.done[f]['lines']} for f in order}
    js['__samplers__'] = samplers
    js['__loops__'] = {l['name']: {'state': l['state'], 'params': l['params'], 'line': l['line']} for l in loops}
    js['__history__'] = {'keys': hist['keys'], 'prefixes': hist['prefixes'], 'ops': hist['ops'], 'handoffs': hist['handoffs'],
                         'receivers': hist['receivers']}
    with open(os.path.join(outdir, 'Gen_C20.json'), 'w') as f:
        json.dump(js, f)
    return True, {'results': results, 'samplers': samplers, 'loops': js['__loops__'], 'history': js['__history__'], 'vpath': vpath,
                  'changed': old != text}


def setup_generate():
    """entry point for ./check --setup"""
    import common
    with common.Lock():
        return generate(common.REPO, common.GEN)
