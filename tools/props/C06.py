#!/venv/bin/python
"""C06 — solutions evaluate condition(net) faithfully, keep shape, and are snapshots.
Engine B: theorems of props/P_C06.v (BaseSolution.__call__ / get_residuals for arbitrary tensors of any shape;
what get_solution(copy, best) holds under any later op sequence) about coq/model/Solver.v; correspondence =
interleavings of get_solution (all copy/best combinations, single-module solutions) with fit() calls and in-place
mutation of live weights / condition attributes on the real solver classes, values and shapes compared with the
model in Coq; plus the property's own oracle: every returned value recomputed by hand (Fractions) from the
weights and condition tags the solution is entitled to see.  DESIGN.md section 7, C06."""
import json
import os
import sys

sys.path.insert(0, os.path.join(os.path.dirname(os.path.abspath(__file__)), '..'))
from common import Check
from harness import solver_toy as T
from props import t_C04
from fractions import Fraction as Fr


def near(exact, obs, rel=Fr(1, 10 ** 9)):
    exact, obs = Fr(exact), Fr(obs)
    return abs(exact - obs) <= rel * (1 + abs(exact))


def cols_near(exp, got):
    return len(exp) == len(got) and all(len(a) == len(b) and all(near(x, y) for x, y in zip(a, b)) for a, b in zip(exp, got))


def conds_with(sc, tags):
    return [dict(T.cond_model(c), tag=(t if T.cond_model(c)['coef'] else 0)) for c, t in zip(sc['conds'], tags)]


def hand_solution(sc, cfg, tags, w, cols):
    """condition i enforced on network i at ALL the given coordinates, by hand; None if a fixed-arity condition
    cannot take this many coordinates (the real call raises)"""
    conds = conds_with(sc, tags)
    if any(isinstance(c['sig'], int) and c['sig'] != len(cols) for c in conds):
        return None
    return T.ref_solution(cfg, conds, [Fr(x) for x in w], cols)


def oracle(ck, sc, rec, label):
    inp = {'scenario': sc}
    cfg = sc['cfg']
    created = {}            # solution index -> (op dict, observation at creation)
    nsol = 0
    outs = {o['op']: o for o in rec['outs']}
    nunk = len(sc['conds'])
    for oi, op in enumerate(sc['ops']):
        k = op['op']
        if k in ('get_solution', 'get_solution_single'):
            o = outs[oi]
            created[nsol] = (op, o)
            nsol += 1
            if k == 'get_solution':
                want_ok = not (op['best'] and o['best'] is None)
                if o['ok'] != want_ok:
                    ck.fail('get_solution/availability', 'get_solution(best=True) must fail exactly when no best networks exist yet', inp,
                            expected=want_ok, actual=o['ok'])
                if o.get('shared'):
                    ck.fail('snapshot_isolated/shares-objects', 'a copy=True solution shares mutable objects (reachable from its nets / conditions) '
                            'with the solver, so later in-place mutation of the solver can change it', inp, expected=[], actual=o['shared'])
            continue
        if k not in ('eval', 'residuals'):
            continue
        o = outs[oi]
        n = len(op['coords'][0])
        cols = [[Fr(x) for x in c] for c in op['coords']]
        shape = tuple(op['shape'])
        if k == 'eval':
            cop, cobs = created[op['sol']]
            if not cobs['ok']:
                continue
            single = cop['op'] == 'get_solution_single'
            ecfg = dict(cfg, netof=[0] * nunk) if single else cfg
            if single or (not cop['copy'] and not cop['best']):
                w, tags, mode = o.get('w_now'), o.get('tags_now'), 'live'
            elif cop['copy']:
                w, tags, mode = (cobs['best'] if cop['best'] else cobs['w']), cobs['tags'], 'copy'
            else:
                w, tags, mode = cobs['best'], o.get('tags_now'), 'best-alias'
            if cop.get('harmonics'):
                exp = None if w is None else harmonic_by_hand(sc, ecfg, tags if tags is not None else cobs['tags'], w, cols)
            else:
                exp = None if (w is None or tags is None) else hand_solution(sc, ecfg, tags, w, cols)
            want_many = nunk > 1
        else:
            if op['best'] and o.get('best_now') is None and not o['ok']:
                continue            # no best networks yet: RuntimeError is the documented behaviour
            w = o.get('best_now') if op['best'] else o.get('w_now')
            tags = o.get('tags_now')
            mode = 'residuals'
            fs = None if (w is None or tags is None) else hand_solution(sc, cfg, tags, w, cols)
            exp = None if fs is None else T.ref_residuals(cfg, T.ref_eq_args(cfg, fs, cols))
            want_many = cfg['neq'] > 1
        if exp is None:
            if o['ok'] and w is not None and tags is not None:
                ck.fail(f'{mode}/unexpected-success', 'a call that cannot be evaluated (fixed-arity condition, wrong number of coordinates) returned a value', inp)
            continue
        if not o['ok']:
            if shape == ():
                ck.fail('solution/raises/0-dim-coordinate', f'{k} with 0-dimensional coordinates raised {o.get("error")}: {o.get("detail", "")[:100]}',
                        inp, expected='values', actual=o.get('error'))
                continue
            ck.fail(f'{mode}/raises', f'evaluating the solution raised {o.get("error")}: {o.get("detail", "")[:120]}', inp, expected='values', actual=o.get('error'))
            continue
        if not cols_near(exp, o['values']):
            key = f'{mode}/value'
            if k == 'eval' and mode == 'copy':
                live = hand_solution(sc, cfg, o['tags_now'], o['w_now'], cols)
                if live is not None and cols_near(live, o['values']):
                    key = 'snapshot_isolated/follows-live-nets'
                else:
                    mixed = hand_solution(sc, cfg, o['tags_now'], (cobs['best'] if cop['best'] else cobs['w']), cols)
                    if mixed is not None and cols_near(mixed, o['values']):
                        key = 'snapshot_isolated/follows-live-conditions'
            ck.fail(key, f'{k} ({mode}): returned values are not condition(net) recomputed by hand from the weights / conditions this solution must see',
                    inp, expected=[[float(x) for x in c] for c in exp], actual=o['values'])
        want_shape = (n, 1) if op['no_reshape'] else shape
        if cop_harm(k, created, op):
            want_shape = shape
        if any(tuple(s) != want_shape for s in o['shapes']):
            ck.fail(f'{mode}/shape', f'{k}: result shape differs from the shape of the first coordinate', inp, expected=want_shape, actual=o['shapes'])
        if o['many'] != want_many:
            ck.fail(f'{mode}/single-vs-list', f'{k}: a list must be returned iff there are several unknowns / equations', inp,
                    expected=want_many, actual=o['many'])
        want_type = 'ndarray' if op['to_numpy'] else 'tensor'
        if any(t != want_type for t in o['types']):
            ck.fail(f'{mode}/type', f'{k}: to_numpy={op["to_numpy"]} returned {o["types"]}', inp, expected=want_type, actual=o['types'])


def cop_harm(k, created, op):
    return k == 'eval' and created[op['sol']][0].get('harmonics')


def harmonic_by_hand(sc, cfg, tags, w, cols):
    """SolutionSphericalHarmonics: sum_k enforce(net, r) * Y_k(theta, phi) with the toy basis (theta + 2 phi, 3 theta - phi)"""
    conds = conds_with(sc, tags)
    if len(cols) != 3 or any(c['sig'] != 1 for c in conds):
        return None
    us = T.ref_solution(cfg, conds, [Fr(x) for x in w], cols[:1])
    return [[u * ((cols[1][r] + 2 * cols[2][r]) + (3 * cols[1][r] - cols[2][r])) for r, u in enumerate(col)] for col in us]


def harmonic_scenario(r):
    sc = T.gen_scenario(r, classes=('Spherical',), opt_kinds=('sgd',), cb_actions=('stop',), lids=(0, 1), sol_ops=False, n_fits=(1, 2),
                        max_epochs=(1, 3), variadic_spherical=False)
    for c in sc['conds']:
        c['kind'] = 'fix1'
    for b in (True, False):
        sc['ops'].append({'op': 'get_solution', 'copy': r.random() < 0.5, 'best': b and sc['nbv'] >= 0, 'harmonics': True})
    sc['ops'].append({'op': 'fit', 'max_epochs': 1, 'cbs': [[{'when': None, 'act': {'kind': 'record'}}]]})
    for si in range(2):
        op = T.gen_eval_op(r, sc, 2)
        op.update(op='eval', sol=si, no_reshape=False)
        op.pop('best', None)
        sc['ops'].append(op)
    return sc


def main():
    ck = Check('C06')
    ck.rule = ('scenario = solver class (all five) x 1..3 unknowns x shared/separate nets x condition kinds x up to 4 fit() calls interleaved '
               'with get_solution (copy x best, plus single-module solutions and spherical-harmonics solutions), in-place mutation of the '
               'live weights and of condition attributes (callbacks and between fits), and calls with coordinates of shape (n,), (n,1), (a,b) '
               'as tensors or ndarrays, to_numpy / no_reshape on/off, and get_residuals(best on/off); distinct = distinct (label, '
               'configuration); non-trivial = at least one evaluation; values and shapes compared with the Coq model; oracle = every '
               'value recomputed by hand from the weights / tags the solution is entitled to see')
    ck.step_hygiene()
    # regenerate coq/gen/Gen_C04.v from the current solvers.py (fail-closed); P_C06 proves the generated
    # definitions equal to the model's, so a source change that alters them breaks the proof
    if t_C04.step_generate(ck):
        ck.step_prove('P_C06')
    camp = T.Campaign(ck, 'C06', oracle)
    if ck.replay:
        payload = json.load(open(ck.replay))
        sc = payload.get('input', {}).get('scenario')
        if sc:
            camp.add('replay', sc, coq=False)
        ck.finish()
    zero_dim = {'cfg': {'cls': 'S1D', 'kappa': [1], 'netof': [0], 'neq': 1, 'idx': [], 'ext': False}, 'w0': [0.5],
                'conds': [{'kind': 'var', 'tag': 5}], 'ncoords': 1, 'nmetrics': 0, 'lid': 0, 'loss_form': 'none', 'nbt': 1, 'nbv': 1,
                'opt': {'kind': 'sgd', 'lr': 0.25}, 'train_script': [[[1, 2]]], 'valid_script': [[[2, 2]]],
                'ops': [{'op': 'fit', 'max_epochs': 1, 'cbs': [[{'when': None, 'act': {'kind': 'record'}}]]},
                        {'op': 'get_solution', 'copy': False, 'best': False}] +
                       [{'op': kind, 'sol': 0, 'best': False, 'shape': [], 'coords': [[0.5]], 'as': as_, 'to_numpy': tn, 'no_reshape': False}
                        for kind in ('eval', 'residuals') for as_ in ('tensor', 'ndarray') for tn in (False, True)]}
    camp.add('fixed-0dim-coordinate', zero_dim, exact=True)
    r = ck.rng('scenarios')
    n = 1200 if ck.thorough() else 80
    n_eval = 0
    for i in range(n):
        if i % 10 == 9:
            rec = camp.add(f'harmonics#{i}', harmonic_scenario(r), coq=False)
        else:
            sc = T.gen_scenario(r, opt_kinds=('sgd', 'script', 'sgd'), cb_actions=('stop', 'set_theta', 'set_conds', 'set_opt'),
                                between_actions=('set_theta', 'set_conds', 'rebind_net', 'rebind_cond') if i % 2 else ('set_theta', 'set_conds'),
                                lids=(0, 1), sol_ops=True, max_epochs=(0, 4), nmetrics=(0, 1), n_fits=(1, 4))
            rec = camp.add(f'exact#{i}', sc, exact=True)
        if rec:
            n_eval += sum(1 for o in rec['outs'] if o['kind'] in ('eval', 'residuals'))
    camp.dist['evaluations_of_solutions'] = n_eval
    camp.correspond()
    if ck.broken and not ck.failures:
        ck.notes.append('search: a broken obligation without a failing input -> the oracle alone was run on 4x more scenarios')
        r2 = ck.rng('search')
        for i in range(4 * n):
            camp.add(f'search#{i}', T.gen_scenario(r2, opt_kinds=('sgd', 'script'), cb_actions=('stop', 'set_theta', 'set_conds'),
                                                   between_actions=('set_theta', 'set_conds'), lids=(0, 1), sol_ops=True, max_epochs=(0, 4)), coq=False)
    camp.finish_dist()
    ck.finish(
        trusted_extra=['coq/model/Solver.v is hand-written; tied to solvers.py by this correspondence (toy problem through the public '
                       'constructors of all five solver classes and of the Solution classes, every returned value and shape compared in Coq)',
                       'modelled not verified: copy.deepcopy (an independent equal value), torch reshape / numpy conversion, IEEE rounding'],
        assumptions=['a fixed-arity condition is called with exactly as many coordinates as it accepts (otherwise the real call raises, model: None)',
                     'SolutionSphericalHarmonics (harmonics_fn) is covered by the oracle only, not by the model'])


if __name__ == '__main__':
    main()
