#!/venv/bin/python
"""C16 -- callbacks fire exactly when their predicate holds and do what they say.
Engine B: the theorems of coq/props/P_C16.v are re-checked, then the executable model
(coq/model/Callbacks.v) is compared INSIDE Coq (vm_compute) with what the real callback
objects did under real fit() sequences of a tiny real Solver1D, and the documented
predicates (an independent Python oracle written from the docstrings) are evaluated on the
same observations.  DESIGN.md section 7, C16."""
import itertools
import json
import math
import os
import sys
import warnings

sys.path.insert(0, os.path.join(os.path.dirname(os.path.abspath(__file__)), '..'))
from common import Check, float_lit, coqc_file, coq_make, COQ
from harness import enga
from harness import cb_trees as T
from harness import cb_engine as E
from props import t_C16

KNOWN_F5 = 'SetOptimizer/duplicate-parameters'
KNOWN_LATE = 'RepeatedMetric/late-attachment'
KNOWN_SC = 'RepeatedMetric/short-circuit'
KNOWN_BA = 'RepeatedMetricBelowAbove/first-history-entry'
KNOWN_KEY = 'metric-name/custom-metric-KeyError'


def jsonable(x):
    if isinstance(x, tuple):
        return [jsonable(y) for y in x]
    if isinstance(x, list):
        return [jsonable(y) for y in x]
    if isinstance(x, dict):
        return {k: jsonable(v) for k, v in x.items()}
    return x


def tree_from_json(x):
    if isinstance(x, list) and x and isinstance(x[0], str):
        k = x[0]
        if k in ('And', 'Or', 'Xor'):
            return (k, [tree_from_json(c) for c in x[1]])
        if k == 'Not':
            return ('Not', tree_from_json(x[1]))
        return tuple(x)
    return x


class Run:
    """State shared by the scenario functions."""

    def __init__(self, ck):
        self.ck = ck
        self.torch = enga.import_repo()
        self.ctx = E.Ctx(self.torch)
        self.CB = self.ctx.CB
        self.cases = []          # (label, coq bool expr)
        self.inputs = {}         # label -> input (for the broken-obligation detail)
        self.dist = {}
        self.goals = []          # interval goals (Eve)

    def count(self, k, n=1):
        self.dist[k] = self.dist.get(k, 0) + n

    # ---- one fit-sequence scenario: real vs documented behaviour, plus the Coq case
    def fitseq(self, name, table, calls, st, sv, valid_on=True, ops_rng=None, with_coq=True, regress_key=None, cscripts=None, dag=None):
        """regress_key: the scenario replays a repaired (status "fixed") finding; a disagreement about the
        firing epochs is reported under that key (a fixed entry suppresses nothing: it is a VIOLATION)."""
        ck = self.ck
        real, gfinal, err = E.run_real(self.ctx, table, calls, st, sv, valid_on, ops_rng, cscripts, dag)
        exp, gexp = E.doc_sim(table, calls, st, sv, valid_on, cscripts)
        inp = {'scenario': 'fitseq', 'custom_metrics': {k: [list(a), list(b)] for k, (a, b) in (cscripts or {}).items()}, 'name': name, 'table': jsonable(E.describe(table)), 'calls': jsonable(calls),
               'train_losses': list(st), 'valid_losses': list(sv), 'valid_on': valid_on}
        if dag is not None:
            inp['dag'] = jsonable(dag)
            inp['dag_as_python'] = T.dag_show(dag)
        label = f'{name}#{len(self.cases)}'
        nrec = sum(len(r) for r in (real or []))
        ck.traces += nrec * max(1, len(table))
        ck.add_case((name, json.dumps(jsonable([e['tree'] for e in table])), json.dumps(jsonable(calls)), tuple(st), tuple(sv)),
                    nontrivial=nrec > 0)
        if err is not None:
            key = regress_key if (regress_key == KNOWN_KEY and err.startswith('KeyError')) else f'{name}/raises/{err.split(":")[0]}'
            ck.fail(key, ('a repaired defect is back: ' if key == regress_key else '') + f'a callback / fit() raised {err}', inp, expected=jsonable(exp), actual=jsonable(real))
            return None
        d = E.first_difference(real, exp)
        if d is None and gfinal != gexp:
            d = (len(calls) - 1, 0, 'final-global-epoch', {'g': gfinal}, {'g': gexp})
        if with_coq:
            self.cases.append((label, E.coq_case(table, calls, st, sv, valid_on, real, cscripts)))
            self.inputs[label] = inp
        if d is None:
            return real
        ci, ei, field, r, e = d
        key, what = self.classify(table, field, r, e)
        what = f'{what} (fit call {ci + 1}, epoch index {ei}: observed {r}, documented {e})'
        if regress_key is not None and field == 'fired' and key.startswith('fires/RepeatedMetric'):
            key, what = regress_key, 'a repaired defect is back: ' + what
        ck.fail(key, what, inp, expected=jsonable(exp), actual=jsonable(real))
        return real

    def classify(self, table, field, r, e):
        if field == 'fired' and r is not None and e is not None:
            diff = sorted(set(r['fired']) ^ set(e['fired']))
            j = diff[0] if diff else -1
            if j < 0:
                return 'fires/order', 'the actions of one epoch ran in a different order than the callbacks were passed'
            t = table[j]['tree']
            b = T.blame(self.CB, t, r['l'], r['g'], r['m'])      # smallest stateless subtree that is wrong on its own
            if b is not None:
                return f'fires/{T.class_name(b)}', (f'{T.show(b)}.condition = {not T.doc(b, r["l"], r["g"], r["m"])} at (local, global, max)=({r["l"]}, {r["g"]}, {r["m"]}) '
                                                   f'but its documented predicate is {T.doc(b, r["l"], r["g"], r["m"])} (inside {T.show(t)})')
            if T.is_stateless(t):
                return f'fires/{T.class_name(t)}/in-fit-only', f'{T.show(t)} fired={j in r["fired"]} at (local, global, max)=({r["l"]}, {r["g"]}, {r["m"]}) but its documented predicate is {j in e["fired"]}'
            leaf = [s for s in T.subtrees(t) if s[0] == 'Rep'][0]
            return f'fires/{T.class_name(leaf)}', f'{T.show(t)} fired={j in r["fired"]} at global epoch {r["g"]} but its documented history predicate is {j in e["fired"]}'
        if field in ('stop', 'epochs-run', 'calls', 'final-global-epoch'):
            return 'stop/fit-does-not-end-after-the-firing-epoch', 'the epochs run by fit() differ from "stop ends the current fit() after the epoch in which it fired"'
        if field == 'loss':
            return 'set-once/SetLossFn', 'solver.loss_fn after the callbacks differs from "set once unless reset"'
        if field == 'opt':
            return 'set-once/SetOptimizer', 'solver.optimizer after the callbacks differs from "set once unless reset"'
        return f'epoch-counters/{field}', f'solver counter {field} seen by the callbacks differs from the C15 bookkeeping'

    # ---- run the Coq cases and settle the deferred known findings
    def settle(self):
        ck = self.ck
        bad = set(ck.step_cases('corr', E.PREAMBLE, self.cases)) if self.cases else set()
        for label in sorted(bad):
            ck.broke('correspondence-broken', f'cases:corr:{label}',
                     f'coq/model/Callbacks.v and the implementation disagree on {json.dumps(self.inputs.get(label), default=str)[:1500]}')
        self.cases = []


# ============================================================================ scenario generators
def gen_calls(r, n_entries, late=False):
    k = r.choice([1, 2, 2, 3, 3, 4, 4])
    calls = []
    for _ in range(k):
        mx = r.choice([0, 1, 2, 3, 4, 5, 6, r.randint(0, 6)])
        if late and r.random() < 0.3:
            mask = [r.random() < 0.7 for _ in range(n_entries)]
        else:
            mask = [True] * n_entries
        calls.append((mx, mask))
    return calls


def scripts(r, calls, lo=0, hi=4):
    n = sum(max(0, mx) for mx, _ in calls) + 1
    return [r.randint(lo, hi) for _ in range(n)], [r.randint(lo, hi) for _ in range(n)]


def stateless_mass(run, r, n_runs, n_trees, coq=True):
    """Random Boolean expression trees up to depth 3 over the epoch predicates, all attached (each with
    its own recording action) to real fit() sequences; half of the runs also contain a stop."""
    ck = run.ck
    for ri in range(n_runs):
        table = []
        for ti in range(n_trees):
            d = [0, 1, 1, 2, 2, 3, 3, 3][ti % 8]
            t = T.gen_tree(r, d, run.dist)
            run.count(f'depth{T.depth_of(t)}')
            table.append({'tree': t, 'act': ('rec',)})
        if ri % 2 == 1:
            pos = r.randrange(len(table) + 1)
            st_tree = ('And', [('PL', r.randint(2, 4), r.randint(0, 3)), ('IL', r.randint(1, 3), None)]) if r.random() < 0.7 else T.gen_tree(r, 2, run.dist)
            table.insert(pos, {'tree': st_tree, 'act': ('stop',)})
            run.count('runs_with_stop')
        calls = gen_calls(r, len(table), late=(ri % 3 == 2))
        run.count(f'fit_calls{len(calls)}')
        for mx, _ in calls:
            run.count(f'max_epochs{mx}')
        st, sv = scripts(r, calls)
        real = run.fitseq('stateless', table, calls, st, sv, valid_on=(ri % 4 != 3), ops_rng=r, with_coq=coq)
        if real is not None and ri < 2:
            ck.sample({'kind': 'stateless trees under fit()', 'conditions': [T.show(e['tree']) + ' -> ' + e['act'][0] for e in table[:6]],
                       'calls': [mx for mx, _ in calls], 'observed_first_call': real[0][:3] if real else []})


def atoms3():
    # three atoms whose truth values cover all 8 assignments over the fit sequence TT_CALLS
    return [('PL', 2, 0), ('PG', 2, 0), ('LL',)]


TT_CALLS = [1, 2, 3, 2, 3]


def truth_table_trees():
    A = atoms3()
    d1 = list(A) + [('Not', a) for a in A] + [(op, [a, b]) for op in ('And', 'Or', 'Xor') for a in A for b in A]
    small = [(op, list(c)) for op in ('And', 'Or', 'Xor') for n in (0, 1, 3) for c in itertools.product(A, repeat=n)]
    d2 = [('Not', a) for a in d1] + [(op, [a, b]) for op in ('And', 'Or', 'Xor') for a in d1 for b in d1]
    return d1 + small, d2


def truth_tables(run, r, sample=None):
    """Every expression of depth <= 2 over three atoms (unary ~, binary & | ^, plus list forms of
    length 0, 1, 3 at depth 1), attached to one real fit() sequence whose epochs realise all 8
    truth assignments of the atoms."""
    ck = run.ck
    base, d2 = truth_table_trees()
    trees = base + (d2 if sample is None else r.sample(d2, sample))
    calls_plain = TT_CALLS
    # check (on the oracle side) that the 8 assignments really occur
    seen = set()
    g = 0
    for mx in calls_plain:
        for l in range(1, mx + 1):
            g += 1
            seen.add(tuple(T.doc(a, l, g, mx) for a in atoms3()))
    assert len(seen) == 8, seen
    chunk = 120
    for i in range(0, len(trees), chunk):
        table = [{'tree': t, 'act': ('rec',)} for t in trees[i:i + chunk]]
        calls = [(mx, [True] * len(table)) for mx in calls_plain]
        st, sv = scripts(r, calls)
        run.fitseq('truth-table', table, calls, st, sv, valid_on=True, ops_rng=r)
    run.count('truth_table_trees', len(trees))
    run.ck.extra['truth_tables'] = {'trees': len(trees), 'exhaustive_depth_le_2': sample is None, 'assignments_realised': 8,
                                    'fit_sequence': calls_plain}


def stub_grid(run, r, n_trees):
    """condition(stub) of the real objects on a grid of (local, global, max) triples that real fits do
    not all reach (local 0, local > max, large global): fires_on in Coq, documented predicate in Python."""
    ck = run.ck
    triples = [(l, g, m) for l in range(0, 9) for g in (0, 1, 2, 5, 9, 10, 24, 25) for m in (0, 1, 4, 8) if g >= l or g in (0, 1)]
    r.shuffle(triples)
    triples = triples[:70]
    tl = T.coq_list([f'({T.z(l)}, {T.z(g)}, {T.z(m)})' for l, g, m in triples])
    for ti in range(n_trees):
        t = T.gen_tree(r, ti % 4, run.dist)
        cb = T.build(run.CB, t, r)
        got = []
        for (l, g, m) in triples:
            try:
                got.append(bool(cb.condition(T.Stub(l, g, m))))
            except Exception as ex:
                ck.fail(f'fires/{T.class_name(t)}/raises', f'{T.show(t)}.condition raised {type(ex).__name__}', {'scenario': 'stub', 'tree': jsonable(t), 'triple': [l, g, m]})
                got.append(False)
        want = [T.doc(t, l, g, m) for (l, g, m) in triples]
        ck.add_case(('stub', json.dumps(jsonable(t))))
        ck.traces += len(triples)
        if got != want:
            i = [a != b for a, b in zip(got, want)].index(True)
            l, g, m = triples[i]
            b = T.blame(run.CB, t, l, g, m) or t
            ck.fail(f'fires/{T.class_name(b)}', f'{T.show(b)}.condition(stub) = {got[i]} at (local, global, max)=({l}, {g}, {m}), documented {want[i]}',
                    {'scenario': 'stub', 'tree': jsonable(t), 'triple': [l, g, m]}, expected=want[i], actual=got[i])
        label = f'stub#{len(run.cases)}'
        run.cases.append((label, f'bools_eqb (fires_on {T.to_coq(t)} {tl}) {T.coq_list([T.coq_bool(b) for b in got])}'))
        run.inputs[label] = {'scenario': 'stub', 'tree': jsonable(t), 'triples': triples}


def actions_mass(run, r, n_runs, coq=True):
    """Stop, SetLossFn and SetOptimizer (instance / class) with and without reset, conditioned on random
    stateless predicates, several of them competing for solver.loss_fn / solver.optimizer."""
    ck = run.ck
    for ri in range(n_runs):
        table = []
        n = r.randint(3, 7)
        for _ in range(n):
            kind = r.choice(['loss', 'loss', 'loss', 'opti', 'opti', 'optc', 'rec', 'stop'])
            t = T.gen_tree(r, r.choice([0, 0, 1, 1, 2]), run.dist)
            if kind == 'stop':
                t = ('And', [t, ('IL', r.randint(2, 5), None)])
                act = ('stop',)
            elif kind == 'loss':
                act = ('loss', r.randint(0, 3), r.random() < 0.5)
            elif kind == 'opti':
                act = ('opti', r.randint(0, 2), r.random() < 0.5)
            elif kind == 'optc':
                act = ('optc', r.random() < 0.5)
            else:
                act = ('rec',)
            run.count('action_' + kind + ('' if kind in ('rec', 'stop') else ('_reset' if act[-1] else '_once')))
            table.append({'tree': t, 'act': act})
        calls = gen_calls(r, len(table), late=(ri % 2 == 0))
        st, sv = scripts(r, calls)
        real = run.fitseq('actions', table, calls, st, sv, valid_on=True, ops_rng=r, with_coq=coq)
        if real is not None and ri < 2:
            ck.sample({'kind': 'actions under fit()', 'callbacks': [T.show(e['tree']) + ' -> ' + str(e['act']) for e in table],
                       'calls': [mx for mx, _ in calls], 'observed_first_call': real[0][:3] if real else []})
    # deterministic: the fit ends after the firing epoch; later callbacks of that epoch still run
    table = [{'tree': ('PL', 3, 0), 'act': ('stop',)}, {'tree': ('T',), 'act': ('rec',)},
             {'tree': ('FL',), 'act': ('loss', 1, False)}, {'tree': ('PL', 2, 0), 'act': ('loss', 2, True)},
             {'tree': ('T',), 'act': ('loss', 1, False)}, {'tree': ('IG', 4, None), 'act': ('optc', True)},
             {'tree': ('T',), 'act': ('optc', False)}]
    calls = [(6, [True] * 7), (2, [True] * 7), (0, [True] * 7), (4, [False, True, True, True, True, True, True])]
    st, sv = scripts(r, calls)
    run.fitseq('actions-fixed', table, calls, st, sv, True, None, with_coq=coq)


CUSTOM_NAMES = ('mymetric', 'aux_2')       # the second name contains an underscore: partition('_') must split at the FIRST one


def custom_scripts(r, calls, lo=0, hi=4):
    n = sum(max(0, mx) for mx, _ in calls) + 1
    return {name: ([r.randint(lo, hi) for _ in range(n)], [r.randint(lo, hi) for _ in range(n)]) for name in CUSTOM_NAMES}


def rep_leaf(r, dist, kinds=('Up', 'Down', 'Converge', 'Diverge', 'Up', 'Down', 'Below', 'Above')):
    kind = r.choice(kinds)
    arg = r.choice([0, 0, 1, 1, 2, -1]) if kind in ('Up', 'Down') else r.choice([1, 2, 2, 3, -2, 0])
    if kind in ('Below', 'Above'):
        arg = r.randint(0, 4)
    dist['Rep' + kind] = dist.get('Rep' + kind, 0) + 1
    mt = r.choice(['loss', 'loss'] + list(CUSTOM_NAMES))
    dist['metric_' + mt] = dist.get('metric_' + mt, 0) + 1
    return ('Rep', kind, arg, r.random() < 0.7, r.choice([0, 1, 1, 2, 2, 3, 4]), mt)


def mixed_leaf(r, dist):
    return rep_leaf(r, dist) if r.random() < 0.45 else T.gen_leaf(r, dist)


def repeated_mass(run, r, n_runs, coq=True):
    """Scripted integer loss histories (ties frequent); expression trees up to depth 3 with repeated-metric
    leaves ANYWHERE (also behind short-circuiting operands), callbacks passed to arbitrary subsets of the
    fit() calls (late attachment, gaps): firing epochs vs the Coq model vs the documented history predicate."""
    ck = run.ck
    for ri in range(n_runs):
        table = []
        for ti in range(r.randint(6, 12)):
            d = [0, 0, 1, 1, 2, 2, 3][ti % 7]
            t = T.gen_tree(r, d, run.dist, leaf=mixed_leaf)
            if T.is_stateless(t):
                t = rep_leaf(r, run.dist) if d == 0 else ('Or', [T.gen_tree(r, d - 1, run.dist), rep_leaf(r, run.dist)])
            run.count(f'rep_depth{T.depth_of(t)}')
            table.append({'tree': t, 'act': ('rec',)})
        if ri % 3 == 0:
            table.append({'tree': ('And', [('IL', 2, None), ('Rep', 'Down', 1, True, 2)]), 'act': ('stop',)})
            run.count('repeated_runs_with_stop')
        calls = gen_calls(r, len(table), late=(ri % 2 == 0))
        if ri % 2 == 0:
            calls[0] = (calls[0][0], [r.random() < 0.5 for _ in table])     # many callbacks are attached late
        st, sv = scripts(r, calls, 0, r.choice([2, 3, 5]))
        real = run.fitseq('repeated', table, calls, st, sv, valid_on=(ri % 5 != 4), ops_rng=None, with_coq=coq, cscripts=custom_scripts(r, calls, 0, 3))
        if real is not None and ri < 2:
            ck.sample({'kind': 'repeated-metric callbacks under fit()', 'callbacks': [T.show(e['tree']) for e in table[:5]],
                       'calls': [[mx, mask[:5]] for mx, mask in calls], 'train_losses': st[:12], 'observed_first_call': real[0][:3] if real else []})


def shared_across_solvers(run, r, n_runs):
    """ONE condition object (a repeated-metric leaf, alone or under a Boolean operator) attached to TWO solvers whose
    fit() calls are interleaved (a.fit(1); b.fit(1); ...), with different scripted loss histories: on each solver the
    action fires exactly when the documented history predicate holds for THAT solver's history -- a verdict must not
    leak from one solver to the other through state kept on the shared callback object.  Oracle only (the Coq model
    evaluates a predicate on the history it is given, so this is the statement 'the implementation is a function of
    the solver it is called with')."""
    ck, CB = run.ck, run.CB
    for ri in range(n_runs):
        leaf = rep_leaf(r, {}, kinds=('Up', 'Down', 'Converge', 'Diverge', 'Below', 'Above'))
        leaf = leaf[:5] + ('loss',)
        tree = leaf if ri % 3 else r.choice([('Or', [('F',), leaf]), ('And', [('T',), leaf]), ('Not', ('Not', leaf))])
        try:
            tree_txt = T.show(tree)
        except Exception:
            tree, tree_txt = leaf, T.show(leaf)
        n_ep = r.randint(4, 9)
        hi = r.choice([2, 3, 5])
        scripts_ = {x: ([r.randint(0, hi) for _ in range(n_ep + 1)], [r.randint(0, hi) for _ in range(n_ep + 1)]) for x in 'ab'}
        if ri % 2 == 0:       # one solver strictly improving, the other strictly worsening: the verdicts differ almost always
            scripts_['a'] = (list(range(n_ep + 1, 0, -1)), list(range(n_ep + 1, 0, -1)))
            scripts_['b'] = (list(range(1, n_ep + 2)), list(range(1, n_ep + 2)))
        fired = {'a': [], 'b': []}
        solvers, holders = {}, {}
        for x in 'ab':
            holders[x] = {}
            solvers[x] = run.ctx.solver(valid_on=True)
            holders[x]['s'] = solvers[x]
            solvers[x]._set_loss_fn(E.scripted_loss(holders[x], *scripts_[x]))
        cur = []

        class Rec(CB.ActionCallback):
            def __call__(self, s):
                cur.append('a' if s is solvers['a'] else 'b')
        cond = T.build(CB, tree, None)
        cb = Rec().conditioned_on(cond)
        inp = {'scenario': 'one condition object on two solvers, fits interleaved a, b, a, b, ...', 'condition': tree_txt,
               'losses_a': [list(v) for v in scripts_['a']], 'losses_b': [list(v) for v in scripts_['b']], 'epochs_each': n_ep}
        err = None
        try:
            for e in range(n_ep):
                for x in 'ab':
                    del cur[:]
                    solvers[x].fit(max_epochs=1, callbacks=[cb])
                    fired[x].append(bool(cur))
                    if cur and any(c != x for c in cur):
                        err = f'the action ran with the other solver as argument at epoch {e + 1} of solver {x}'
        except Exception as ex:
            err = f'{type(ex).__name__}: {ex}'
        ck.add_case(('shared-across-solvers', tree_txt, json.dumps(inp['losses_a']), json.dumps(inp['losses_b'])), nontrivial=True)
        run.count('shared_across_solvers')
        if err:
            ck.fail('shared-across-solvers/raises', err, inp)
            continue
        for x in 'ab':
            st, sv = scripts_[x]
            exp = [bool(T.doc(tree, 1, e + 1, 1, st[:e + 1], sv[:e + 1])) for e in range(n_ep)]
            if exp != fired[x]:
                e0 = [i for i in range(n_ep) if exp[i] != fired[x][i]][0]
                ck.fail(f'fires/{T.class_name(leaf)}/shared-across-solvers',
                        f'{tree_txt} attached to two solvers (fits interleaved): on solver {x} at its epoch {e0 + 1} fired={fired[x][e0]} but the '
                        f'documented predicate on THAT solver\'s history is {exp[e0]}', inp, expected={x: exp}, actual={x: fired[x]})
                break


REGRESS = {'late-attachment': KNOWN_LATE, 'short-circuit': KNOWN_SC, 'below-above': KNOWN_BA}


def regressions_repeated(run, r, n_random):
    """The scenarios of the repaired findings F10a-c (status fixed): they must now agree with the documented
    history predicate; a disagreement is reported under the recorded key."""
    table = [{'tree': ('Rep', 'Up', 0, True, 2), 'act': ('rec',)}]
    run.fitseq('late-attachment', table, [(3, [False]), (2, [True])], [1, 2, 3, 4, 5, 6], [0] * 6, True, None, regress_key=KNOWN_LATE)
    for _ in range(n_random):
        table = [{'tree': rep_leaf(r, run.dist), 'act': ('rec',)} for _ in range(4)]
        calls = [(r.randint(1, 4), [False] * 4), (r.randint(2, 5), [True] * 4)]
        st, sv = scripts(r, calls, 0, 3)
        run.fitseq('late-attachment', table, calls, st, sv, True, None, regress_key=KNOWN_LATE, cscripts=custom_scripts(r, calls, 0, 3))
    table = [{'tree': ('Or', [('PL', 4, 0), ('Rep', 'Up', 0, True, 2)]), 'act': ('rec',)}]
    run.fitseq('short-circuit', table, [(5, [True])], [1, 2, 3, 0, 1, 1], [0] * 6, True, None, regress_key=KNOWN_SC)
    for _ in range(n_random):
        first = T.gen_tree(r, r.choice([0, 1]), run.dist)
        table = [{'tree': (r.choice(['And', 'Or']), [first, rep_leaf(r, run.dist)]), 'act': ('rec',)} for _ in range(4)]
        calls = [(r.randint(3, 6), [True] * 4), (r.randint(0, 4), [True] * 4)]
        st, sv = scripts(r, calls, 0, 3)
        run.fitseq('short-circuit', table, calls, st, sv, True, None, regress_key=KNOWN_SC, cscripts=custom_scripts(r, calls, 0, 3))
    run.fitseq('below-above', [{'tree': ('Rep', 'Below', 1, True, 1), 'act': ('rec',)}], [(5, [True])], [0, 0, 0, 5, 0, 0], [0] * 6, True, None,
               regress_key=KNOWN_BA)
    run.fitseq('below-above', [{'tree': ('Rep', 'Above', 1, False, 2), 'act': ('rec',)}], [(2, [True]), (3, [True])], [0] * 6, [3, 3, 0, 3, 3, 3], True, None,
               regress_key=KNOWN_BA)
    for _ in range(n_random):
        table = [{'tree': rep_leaf(r, run.dist, ('Below', 'Above')), 'act': ('rec',)} for _ in range(4)]
        calls = gen_calls(r, 4)
        st, sv = scripts(r, calls, 0, 4)
        run.fitseq('below-above', table, calls, st, sv, True, None, regress_key=KNOWN_BA, cscripts=custom_scripts(r, calls, 0, 4))


def gen_dag(r, dist):
    """Leaves, then one or two intermediate compounds, each REUSED by 2-3 larger expressions (same or different operator,
    either operand position), some of these reused again; actions on the users, on the shared compounds themselves and
    on a shared leaf, attached before or after the reuse."""
    nodes, roots = [], []
    n_leaves = r.randint(4, 6)
    for _ in range(n_leaves):
        nodes.append(['leaf', rep_leaf(r, dist) if r.random() < 0.2 else T.gen_leaf(r, dist)])
    leaves = list(range(n_leaves))
    ops = ['And', 'Or', 'Xor']
    for _ in range(r.randint(1, 2)):
        op = r.choice(['And', 'And', 'Or', 'Or', 'Xor'])
        a, b = r.sample(leaves, 2)
        nodes.append(['op', op, a, b])
        base = len(nodes) - 1
        if r.random() < 0.3:                                   # a chain written in one go on top of it: base = a & b & c
            nodes.append(['op', op, base, r.choice(leaves)])
            base = len(nodes) - 1
        when_base = r.choice(['early', 'late', 'late', None])
        if when_base == 'early':
            roots.append([base, 'early'])
        users = []
        for _ in range(r.randint(2, 3)):
            uop = op if r.random() < 0.7 else r.choice(ops)
            x = r.choice(leaves)
            nodes.append(['op', uop, base, x] if r.random() < 0.7 else ['op', uop, x, base])
            users.append(len(nodes) - 1)
            dist['dag_user_' + ('same' if uop == op else 'other') + '_op'] = dist.get('dag_user_' + ('same' if uop == op else 'other') + '_op', 0) + 1
        if r.random() < 0.4:                                   # second level: a user is reused as well
            u = r.choice(users)
            for _ in range(2):
                nodes.append(['op', nodes[u][1], u, r.choice(leaves)])
                users.append(len(nodes) - 1)
        if r.random() < 0.3:
            nodes.append(['not', base])
            users.append(len(nodes) - 1)
        for u in users:
            roots.append([u, r.choice(['early', 'late'])])
        if when_base == 'late':
            roots.append([base, 'late'])
    roots.append([r.choice(leaves), r.choice(['early', 'late'])])            # a shared leaf with its own action
    seen, uniq = set(), []
    for node, when in roots:
        if node not in seen:
            seen.add(node)
            uniq.append([node, when])
    return {'nodes': nodes, 'roots': uniq}


def run_dag(run, r, name, dag, calls=None, coq=True):
    table = [{'tree': T.dag_tree(dag, node), 'act': ('rec',)} for node, _ in dag['roots']]
    if calls is None:
        calls = gen_calls(r, len(table))
    st, sv = scripts(r, calls, 0, 3)
    return run.fitseq(name, table, calls, st, sv, True, None, with_coq=coq, cscripts=custom_scripts(r, calls, 0, 3), dag=dag)


def dag_mass(run, r, n_runs, coq=True):
    """Shared sub-expressions: an intermediate compound bound once and reused in several larger expressions must mean the
    same in each of them and on its own (the operators build NEW nodes and leave their operands alone)."""
    ck = run.ck
    # the two reuse patterns spelled out: base = a & b; c1 = base & x; c2 = base & y   (and the same with |)
    for op, leafs in (('And', [('PL', 2, 0), ('IL', 4, None), ('LL',), ('IL', None, 8)]),
                      ('Or', [('FL',), ('LL',), ('PL', 5, 0), ('IL', 3, 3)])):
        for when in ('late', 'early'):
            dag = {'nodes': [['leaf', l] for l in leafs] + [['op', op, 0, 1], ['op', op, 4, 2], ['op', op, 4, 3]],
                   'roots': [[5, when], [6, when], [4, 'late']]}
            run_dag(run, r, 'shared-subexpression', dag, calls=[(10, [True] * 3), (3, [True] * 3)], coq=coq)
    for ri in range(n_runs):
        dag = gen_dag(r, run.dist)
        run.count('dag_nodes', len(dag['nodes']))
        real = run_dag(run, r, 'shared-subexpression', dag, coq=coq)
        if real is not None and ri < 1:
            ck.sample({'kind': 'expression DAG with shared sub-expressions under fit()', 'dag': T.dag_show(dag), 'observed_first_call': real[0][:2] if real else []})


def custom_metric_key(run):
    """Regression probe of the repaired finding metric-name/custom-metric-KeyError (status fixed, commit 98a9d3c):
    its recorded input is replayed on every run; a KeyError is reported under the recorded key (a VIOLATION)."""
    ck = run.ck
    torch, CB = run.torch, run.CB
    for what, mk in (('RepeatedMetricUp', lambda: CB.RepeatedMetricUp(metric='m', repetition=1)),
                     ('EveCallback', lambda: CB.EveCallback(metric='m'))):
        s = run.ctx.solver(valid_on=True, metrics={'m': lambda u, t: (u * 0).mean() + 1.0})
        fired = []

        class Rec(CB.ActionCallback):
            def __call__(self, solver):
                fired.append(solver.global_epoch)
        cb = mk()
        if what == 'RepeatedMetricUp':
            cb = Rec().conditioned_on(cb)
        inp = {'scenario': 'custom-metric', 'callback': what, 'metric': 'm', 'history_keys': sorted(s.metrics_history)}
        ck.add_case(('custom-metric', what))
        try:
            s.fit(3, callbacks=[cb], tqdm_file=None)
        except KeyError as ex:
            if ex.args and ex.args[0] == 'train_m' and 'train__m' in s.metrics_history:
                ck.fail(KNOWN_KEY, f"a repaired defect is back: {what}(metric='m') with metrics={{'m': ...}} raises KeyError('train_m'): the history key is 'train__m'", inp,
                        expected='no exception; the callback reads metrics_history["train__m"]', actual="KeyError('train_m')")
            else:
                ck.fail(f'metric-name/{what}/raises', f'{what} raised KeyError({ex})', inp)
            continue
        except Exception as ex:
            ck.fail(f'metric-name/{what}/raises', f'{what} raised {type(ex).__name__}: {ex}', inp)
            continue
        # no exception (a repaired tree): the constant metric never goes up by > 0 ... at_least_by = 0 means >=, so it fires from epoch 2
        if what == 'RepeatedMetricUp' and fired != [2, 3]:
            ck.fail(f'metric-name/{what}/fires', f'fired at {fired}, documented [2, 3]', inp, expected=[2, 3], actual=fired)
        if what == 'EveCallback' and s.n_batches['train'] != 1:
            ck.fail(f'metric-name/{what}/batch-count', f"n_batches[train] = {s.n_batches['train']}, documented 1 (metric == base_value)", inp, expected=1, actual=s.n_batches['train'])


def monitor(run, r):
    """BaseMonitor.to_callback: check_every -> OnLastLocal | PeriodLocal(check_every)."""
    ck = run.ck
    from neurodiffeq.monitors import BaseMonitor

    class M(BaseMonitor):
        def __init__(self, check_every=None):
            super().__init__(check_every=check_every)
            self.log = []
            self.holder = None

        def check(self, nets, conditions, history):
            s = self.holder
            self.log.append((s.local_epoch, s.global_epoch, s._max_local_epoch))

    for ce, override, legacy in [(None, False, False), (0, False, False), (1, False, True), (2, False, False), (3, False, True), (5, False, False),
                                 (4, 0, False), (2, None, True), (r.randint(1, 5), False, r.random() < 0.5)]:
        m = M(check_every=ce)
        stored = m.check_every
        if override is not False:
            m.check_every = override
            stored = override
        s = run.ctx.solver(valid_on=False)
        m.holder = s
        seen = []
        calls = [r.randint(0, 7) for _ in range(r.randint(1, 3))] + ([101] if ce in (None, 0) else [])
        inp = {'scenario': 'monitor', 'check_every_arg': ce, 'attribute_override': None if override is False else str(override), 'legacy_monitor_kwarg': legacy, 'calls': calls}
        try:
            for mx in calls:
                obs = lambda sol: seen.append((sol.local_epoch, sol.global_epoch, sol._max_local_epoch))
                if legacy:
                    s.fit(mx, callbacks=[obs], tqdm_file=None, monitor=m)
                else:
                    s.fit(mx, callbacks=[m.to_callback(), obs], tqdm_file=None)
        except Exception as ex:
            ck.fail('monitor/raises', f'to_callback / fit raised {type(ex).__name__}: {ex}', inp)
            continue
        eff = stored if stored else 0
        want = [t for t in seen if t[0] == t[2] or (eff and t[0] % eff == 0)]
        ck.add_case(('monitor', ce, str(override), legacy, tuple(calls)))
        ck.traces += len(seen)
        if ce in (None, 0) and override is False and stored != 100:
            ck.fail('monitor/default-check_every', f'check_every={ce!r} is stored as {stored!r}, documented default 100', inp, expected=100, actual=stored)
        if m.log != want:
            ck.fail('monitor/to_callback', f'monitor.check ran at {m.log[:8]}..., documented (every check_every={eff} local epochs and on the last local epoch) {want[:8]}...', inp,
                    expected=want, actual=m.log)
        label = f'monitor#{len(run.cases)}'
        tl = T.coq_list([f'({l}, {g}, {mm})' for l, g, mm in seen])
        bl = T.coq_list([T.coq_bool(t in m.log) for t in seen])
        model = f'(monitor_pred (monitor_init {T.optz(ce)}))' if override is False else f'(monitor_pred {T.z(eff)})'
        run.cases.append((label, f'bools_eqb (fires_on {model} {tl}) {bl}'))
        run.inputs[label] = inp
    run.count('monitor_scenarios', 9)


def optimizer_params(run, r):
    """SetOptimizer(<class>): the parameter list handed to the optimiser, and the size of one step."""
    ck = run.ck
    torch, CB = run.torch, run.CB
    lr = 0.125

    def configs():
        a, b, c = torch.nn.Linear(1, 1), torch.nn.Linear(1, 1), torch.nn.Linear(1, 1)
        yield 'distinct-2', [a, b], False
        a = torch.nn.Linear(1, 1)
        yield 'same-net-twice', [a, a], True
        sh = torch.nn.Linear(1, 1)
        yield 'shared-layer', [torch.nn.Sequential(sh, torch.nn.Tanh(), torch.nn.Linear(1, 1)), torch.nn.Sequential(sh, torch.nn.Linear(1, 1))], True
        a, b = torch.nn.Linear(1, 1), torch.nn.Linear(1, 1)
        yield 'first-and-third-same', [a, b, a], True
        yield 'distinct-3', [torch.nn.Linear(1, 1), torch.nn.Sequential(torch.nn.Linear(1, 2), torch.nn.Tanh(), torch.nn.Linear(2, 1)), torch.nn.Linear(1, 1)], False

    for name, nets, shares in configs():
        distinct = []
        for n in nets:
            for p in n.parameters():
                if all(p is not q for q in distinct):
                    distinct.append(p)
        idx = lambda p: [i for i, q in enumerate(distinct) if q is p][0]
        nets_ids = [[idx(p) for p in n.parameters()] for n in nets]
        s = run.ctx.solver(nets=nets, valid_on=False)
        snap = {}

        def obs(sol):
            if sol.local_epoch == 1:
                for i, p in enumerate(distinct):
                    snap[i] = p.detach().clone()
        so = CB.SetOptimizer(torch.optim.SGD, optimizer_kwargs={'lr': lr}, reset=False)
        inp = {'scenario': 'optimizer-params', 'nets': name, 'parameter_ids_per_net': nets_ids, 'optimizer': 'torch.optim.SGD', 'lr': lr}
        try:
            s.fit(2, callbacks=[so, obs], tqdm_file=None)
        except Exception as ex:
            ck.fail('SetOptimizer/raises', f'{type(ex).__name__}: {ex}', inp)
            continue
        ps = [p for g in s.optimizer.param_groups for p in g['params']]
        try:
            observed = [idx(p) for p in ps]
        except IndexError:
            ck.fail('SetOptimizer/parameter-list', 'the optimiser holds a tensor that is not a parameter of any net', inp)
            continue
        ck.add_case(('optimizer-params', name))
        ck.traces += len(observed)
        steps = []
        for i, p in enumerate(distinct):
            g = p.grad
            once = snap[i] - lr * g
            k = None
            for mult in (0, 1, 2, 3):
                if torch.allclose(p.detach(), snap[i] - mult * lr * g, rtol=0, atol=1e-12):
                    k = mult
                    break
            steps.append(k if float(g.abs().sum()) > 0 else 1)
        ok_list = len(observed) == len(set(observed)) and set(observed) == set(range(len(distinct)))
        ok_step = all(k == 1 for k in steps)
        label = f'optparams#{len(run.cases)}'
        nets_coq = T.coq_list([T.coq_list([str(i) for i in ids]) for ids in nets_ids])
        run.cases.append((label, f'if list_eq_dec Z.eq_dec (opt_params Z.eq_dec {nets_coq}) {T.coq_list([str(i) for i in observed])} then true else false'))
        run.inputs[label] = inp
        if ok_list and ok_step:
            continue
        what = (f'SetOptimizer(SGD) on nets {name}: optimiser holds {len(observed)} entries for {len(distinct)} distinct parameters '
                f'(ids {observed}); SGD steps per parameter in one epoch: {steps}')
        if shares and len(observed) != len(set(observed)):
            # the repaired finding F5 (status fixed) is back
            ck.fail(KNOWN_F5, 'a repaired defect is back: ' + what, inp, expected={'entries': len(distinct), 'steps': [1] * len(distinct)},
                    actual={'entries': len(observed), 'steps': steps})
        else:
            ck.fail('SetOptimizer/parameter-list', what, inp, expected={'entries': len(distinct)}, actual={'entries': len(observed), 'steps': steps})


def eve(run, r, n_cases, n_goals):
    """EveCallback: n_batches['train'] = min(n_0 * 2^k, n_max), k = max(0, floor(log_p(v / v_0))), v away from
    the doubling boundaries (v = v_0 * p^(j + frac), 0.05 <= frac <= 0.9)."""
    ck = run.ck
    CB = run.CB
    for ci in range(n_cases):
        p = r.choice([0.1, 0.5, 0.25, 0.3, 2.0, 3.0, 10.0])
        v0 = r.choice([1.0, 0.5, 2.0, 0.01, 7.25])
        j = r.randint(-3, 6)
        frac = r.choice([0.05, 0.25, 0.5, 0.75, 0.9])
        n0 = r.randint(1, 3)
        nmax = r.choice([None, None, r.randint(1, 40)])
        use_train = r.random() < 0.7
        v = v0 * p ** (j + frac)
        stub = T.Stub(1, 1, 1)
        stub.metrics_history = {'train_loss': [123.0, v] if use_train else [5.0], 'valid_loss': [5.0] if use_train else [0.5, v]}
        stub.n_batches = {'train': 1, 'valid': 7}
        inp = {'scenario': 'eve', 'base_value': v0, 'double_at': p, 'n_0': n0, 'n_max': nmax, 'use_train': use_train, 'value': v, 'exponent': j + frac}
        ck.add_case(('eve', p, v0, j, frac, n0, nmax, use_train))
        run.count('eve_cases')
        try:
            kw = {} if nmax is None else {'n_max': nmax}
            CB.EveCallback(base_value=v0, double_at=p, n_0=n0, use_train=use_train, metric='loss', **kw)(stub)
            got = stub.n_batches['train']
        except Exception as ex:
            ck.fail('EveCallback/raises', f'{type(ex).__name__}: {ex}', inp)
            continue
        want = n0 * 2 ** max(0, j)
        if nmax is not None:
            want = min(want, nmax)
        ck.traces += 1
        if got != want or stub.n_batches['valid'] != 7 or isinstance(got, bool) or int(got) != got:
            ck.fail('EveCallback/batch-count', f'n_batches[train] = {got!r}, documented min(n_0 * 2^k, n_max) = {want}', inp, expected=want, actual=got)
        t = math.trunc(j + frac + 1e-4)
        label = f'eve#{len(run.cases)}'
        try:
            gz = T.z(int(got))
        except Exception:
            gz = '(-1)'
        run.cases.append((label, f'eve_batches {n0} {T.optz(nmax)} {T.z(t)} =? {gz}'))
        run.inputs[label] = inp
        if len(run.goals) < n_goals:
            expr = f'((ln ({float_lit(v)}) - ln ({float_lit(v0)})) / ln ({float_lit(p)}))'
            run.goals.append((f'eve-log#{ci}', expr, j + frac, '(1 / 1000)'))
    # under a real fit(): scripted float losses, the next epoch really runs n batches
    for ui in range(5):
        p, v0, n0, nmax = r.choice([0.1, 0.5]), r.choice([1.0, 2.0]), r.randint(1, 2), r.choice([None, 6])
        exps = [r.randint(-2, 3) + r.choice([0.25, 0.5, 0.75]) for _ in range(5)]
        vals = [v0 * p ** e for e in exps]
        metric = {3: 'mymetric', 4: 'aux_2'}.get(ui, 'loss')          # custom metrics: train phase (3), valid phase (4)
        holder = {}
        mfn = None if metric == 'loss' else {metric: E.scripted_metric(holder, metric, vals + [1.0], vals + [1.0], run.torch)}
        s = run.ctx.solver(valid_on=True, metrics=mfn)
        holder['s'] = s
        lossvals = vals if metric == 'loss' else [1.0] * 5
        s._set_loss_fn(E.scripted_loss(holder, lossvals + [1.0], lossvals + [1.0]))
        seen = []
        batches = []
        orig = s._generate_batch

        def counting(key, _orig=orig):
            if key == 'train':
                batches[-1] += 1
            return _orig(key)
        s._generate_batch = counting

        class Start(CB.ActionCallback):
            def __call__(self, sol):
                pass
        kw = {} if nmax is None else {'n_max': nmax}
        ev = CB.EveCallback(base_value=v0, double_at=p, n_0=n0, use_train=(ui not in (1, 4)), metric=metric, **kw)
        inp = {'scenario': 'eve-fit', 'metric': metric, 'use_train': ui not in (1, 4), 'base_value': v0, 'double_at': p, 'n_0': n0, 'n_max': nmax, 'exponents': exps}
        try:
            for _ in range(5):
                batches.append(0)
                s.fit(1, callbacks=[ev, lambda sol: seen.append(sol.n_batches['train'])], tqdm_file=None)
                if not (0 <= seen[-1] <= 64):      # do not train thousands of batches for a wrong count
                    s.n_batches['train'] = 1
        except Exception as ex:
            ck.fail(KNOWN_KEY if (isinstance(ex, KeyError) and metric != 'loss') else 'EveCallback/raises',
                    ('a repaired defect is back: ' if isinstance(ex, KeyError) and metric != 'loss' else '') + f'EveCallback(metric={metric!r}) raised {type(ex).__name__}: {ex}', inp)
            continue
        want = [min(n0 * 2 ** max(0, math.floor(e)), nmax) if nmax else n0 * 2 ** max(0, math.floor(e)) for e in exps]
        ck.add_case(('eve-fit', metric, p, v0, n0, nmax, tuple(exps)))
        ck.traces += 5
        if seen != want:
            ck.fail('EveCallback/batch-count', f'n_batches[train] after each epoch {seen}, documented {want}', inp, expected=want, actual=seen)
        if seen == want and batches[1:] != seen[:-1]:
            ck.fail('EveCallback/batches-run', f'train batches generated per epoch {batches}, n_batches set by the callback {seen}', inp, expected=seen[:-1], actual=batches[1:])


def eve_boundaries(run, r, thorough):
    """EveCallback EXACTLY at the doubling points v = v_0 * p^k (documented: "When v/v_0 = p^k, the number of batches will
    be n_0 * 2^k"): v_0, p given as decimal literals and v their exact rational product rounded once to a float (what a
    user would type, e.g. 1000, 0.9, 810.0), or v computed in floats as v_0 * p ** k (as the repo's own test does); non-dyadic
    p, where the float quotient of the logarithms lands just below or above k.  Expected count from exact rational
    arithmetic.  One ulp above / below v only the two neighbouring counts are accepted (that is inside the 'away from
    doubling boundaries' exclusion of the property)."""
    import math
    from fractions import Fraction
    ck = run.ck
    CB = run.CB
    ps = ['0.9', '0.3', '0.7', '0.99', 'third', '0.6', '0.5', '0.1', '1.5', '3']
    v0s = ['1', '10', '1000', '0.001']
    combos = [(a, b, k, mode) for a in ps for b in v0s for k in range(0, 8) for mode in ('decimal', 'floatpow')]
    if not thorough:
        fixed = [('0.9', '1000', 2, 'decimal'), ('0.3', '10', 3, 'decimal'), ('0.7', '1', 5, 'floatpow'), ('third', '1', 4, 'floatpow'), ('0.99', '0.001', 7, 'decimal')]
        combos = fixed + r.sample(combos, 150)
    ngoals = 0
    for (ps_, v0s_, k, mode) in combos:
        pf, pq = (1 / 3, Fraction(1, 3)) if ps_ == 'third' else (float(ps_), Fraction(ps_))
        v0f, v0q = float(v0s_), Fraction(v0s_)
        v = float(v0q * pq ** k) if mode == 'decimal' else v0f * pf ** k
        n0 = r.choice([1, 1, 2, 3])
        nmax = r.choice([None, None, 5, 40])
        want = n0 * 2 ** k if nmax is None else min(n0 * 2 ** k, nmax)
        lower = n0 * 2 ** max(0, k - 1) if nmax is None else min(n0 * 2 ** max(0, k - 1), nmax)
        upper = n0 * 2 ** (k + 1) if nmax is None else min(n0 * 2 ** (k + 1), nmax)
        for where, vv in (('at', v), ('ulp-above', math.nextafter(v, math.inf)), ('ulp-below', math.nextafter(v, 0.0))):
            stub = T.Stub(1, 1, 1)
            stub.metrics_history = {'train_loss': [vv], 'valid_loss': []}
            stub.n_batches = {'train': 1, 'valid': 3}
            inp = {'scenario': 'eve-doubling-point', 'base_value': v0f, 'double_at': pf, 'value': vv, 'value_repr': repr(vv), 'k': k, 'n_0': n0, 'n_max': nmax,
                   'how': f'{where}: v = {v0s_} * {ps_}^{k} ({mode})'}
            ck.add_case(('eve-point', ps_, v0s_, k, mode, where, n0, nmax))
            ck.traces += 1
            run.count('eve_doubling_points_' + where)
            try:
                kw = {} if nmax is None else {'n_max': nmax}
                CB.EveCallback(base_value=v0f, double_at=pf, n_0=n0, **kw)(stub)
                got = stub.n_batches['train']
            except Exception as ex:
                ck.fail('EveCallback/raises', f'{type(ex).__name__}: {ex}', inp)
                continue
            if where == 'at':
                if got != want:
                    ck.fail('EveCallback/doubling-point', f'EveCallback(base_value={v0f!r}, double_at={pf!r}, n_0={n0}, n_max={nmax}) with metric value {vv!r} = v_0 * p^{k} '
                            f'sets n_batches[train] = {got!r}, documented n_0 * 2^{k} (capped) = {want}', inp, expected=want, actual=got)
                label = f'eve-point#{len(run.cases)}'
                try:
                    gz = T.z(int(got))
                except Exception:
                    gz = '(-1)'
                run.cases.append((label, f'eve_batches {n0} {T.optz(nmax)} {T.z(k)} =? {gz}'))
                run.inputs[label] = inp
                if ngoals < (12 if thorough else 4) and ps_ != 'third' and k > 0:
                    ngoals += 1
                    expr = f'((ln ({float_lit(vv)}) - ln ({float_lit(v0f)})) / ln ({float_lit(pf)}))'
                    run.goals.append((f'eve-point-log#{ngoals}', expr, float(k), '(1 / 1000000000)'))
            elif got not in (want, lower if where == ('ulp-above' if pf < 1 else 'ulp-below') else upper):
                ck.fail('EveCallback/near-doubling-point', f'one ulp from v_0 * p^{k}: n_batches[train] = {got!r}, neither of the two neighbouring counts', inp,
                        expected=[want, lower, upper], actual=got)
    # the same through a real fit(): the value reaches the history through the scripted loss unchanged
    for (ps_, v0s_, k) in [('0.9', '1000', 2), ('0.3', '10', 3), ('0.7', '1', 4)]:
        pf, v0f = float(ps_), float(v0s_)
        vals = [float(Fraction(v0s_) * Fraction(ps_) ** j) for j in (k, 0, k + 1, 1)]
        s = run.ctx.solver(valid_on=True)
        holder = {'s': s}
        s._set_loss_fn(E.scripted_loss(holder, vals + [1.0], vals + [1.0]))
        seen = []
        ev = CB.EveCallback(base_value=v0f, double_at=pf, n_0=1, n_max=64)
        inp = {'scenario': 'eve-doubling-point-fit', 'base_value': v0f, 'double_at': pf, 'train_losses': vals, 'ks': [k, 0, k + 1, 1]}
        try:
            for _ in range(4):
                s.fit(1, callbacks=[ev, lambda sol: seen.append(sol.n_batches['train'])], tqdm_file=None)
                if not (0 <= seen[-1] <= 64):
                    s.n_batches['train'] = 1
        except Exception as ex:
            ck.fail('EveCallback/raises', f'{type(ex).__name__}: {ex}', inp)
            continue
        ck.add_case(('eve-point-fit', ps_, v0s_, k))
        want = [2 ** k, 1, 2 ** (k + 1), 2]
        if seen != want:
            ck.fail('EveCallback/doubling-point', f'under fit(): losses {vals} = v_0 * p^{[k, 0, k + 1, 1]} give n_batches[train] {seen}, documented {want}', inp, expected=want, actual=seen)


def misc(run):
    """conditioned_on / set_action_callback type checks; a condition without action only logs."""
    ck = run.ck
    CB = run.CB
    ck.add_case(('misc', 'type-checks'))
    for what, f in (('ActionCallback.conditioned_on(non-condition)', lambda: CB.StopCallback().conditioned_on(CB.StopCallback())),
                    ('ConditionCallback.set_action_callback(non-action)', lambda: CB.TrueCallback().set_action_callback(CB.TrueCallback()))):
        try:
            f()
            ck.fail('misc/type-check', f'{what} did not raise TypeError', {'scenario': 'misc', 'what': what})
        except TypeError:
            pass
        except Exception as ex:
            ck.fail('misc/type-check', f'{what} raised {type(ex).__name__}', {'scenario': 'misc', 'what': what})
    import logging
    logging.getLogger('verif-c16').setLevel(logging.CRITICAL)
    logging.getLogger('verif-c16').propagate = False
    try:
        CB.TrueCallback(logger='verif-c16')(T.Stub(1, 1, 1))
        (CB.TrueCallback(logger='verif-c16') & CB.FalseCallback())(T.Stub(1, 1, 1))
    except Exception as ex:
        ck.fail('misc/no-action', f'a condition callback without action raised {type(ex).__name__}', {'scenario': 'misc'})


def replay(ck, run, path):
    data = json.load(open(path))
    inp = data.get('input') or {}
    if inp.get('scenario') != 'fitseq':
        return False
    table = [{'tree': tree_from_json(e['tree']), 'act': tuple(e['act'])} for e in inp['table']]
    calls = [(mx, list(mask)) for mx, mask in inp['calls']]
    name = inp.get('name', 'replay')
    cs = {k: (a, b) for k, (a, b) in (inp.get('custom_metrics') or {}).items()} or None
    dag = inp.get('dag')
    if dag is not None:
        dag = {'nodes': [[n[0], tree_from_json(n[1])] if n[0] == 'leaf' else n for n in dag['nodes']], 'roots': dag['roots']}
    run.fitseq(name, table, calls, inp['train_losses'], inp['valid_losses'], inp['valid_on'], None, with_coq=True, regress_key=REGRESS.get(name), cscripts=cs, dag=dag)
    run.settle()
    return True


def main():
    warnings.filterwarnings('ignore')
    ck = Check('C16')
    ck.rule = ('cases = (table of callbacks: random Boolean expression trees up to depth 3 over the epoch predicates with periods 1..5, '
               'offsets -9..14, closed intervals incl. None bounds, first/last, each with a recording / Stop / SetLossFn / SetOptimizer action) '
               'x (sequence of 1..4 real fit() calls, max_epochs 0..6, optional per-call attachment masks) x scripted integer loss histories; '
               'plus every depth<=2 expression over three atoms on a fit sequence realising all 8 assignments, stub grids of (local, global, max), '
               'EveCallback values v_0 * p^(j + frac), expression trees with repeated-metric leaves anywhere (also behind short-circuiting operands, attached late or with gaps) on scripted histories with ties, monitor callbacks, shared-parameter nets. '
               'distinct = distinct (scenario, callback table, calls, histories); non-trivial = at least one epoch ran')
    ck.step_hygiene()
    # regenerate coq/gen/Gen_C16.v from the source under test (fail-closed emitter); proofs/C16_gen.v proves it equal to the hand model
    gok, ginfo = t_C16.setup_generate()
    if not gok:
        ck.broke('translator-refusal', f't_C16:Gen_C16:{ginfo.get("file")}:{ginfo.get("line")}', ginfo['error'])
        coq_make(['model/Callbacks.vo'])      # the correspondence cases below still need the hand model
    else:
        ck.extra['generated'] = {'file': 'coq/gen/Gen_C16.v', 'classes': sorted(ginfo['results'])}
    if gok and ck.step_prove('P_C16'):
        ok, _ = coqc_file(os.path.join(COQ, 'findings', 'F_C16_callbacks.v'), timeout=120)
        ck.notes.append('findings/F_C16_callbacks.v (refutation witnesses of the recorded findings; never gates the check) '
                        + ('compiles' if ok else 'no longer compiles'))
    run = Run(ck)
    th = ck.thorough()

    if ck.replay:
        if replay(ck, run, ck.replay):
            ck.finish(trusted_extra=['replay of one recorded fit sequence'], assumptions=[])

    import time
    stage = {}

    def timed(name, f, *a, **k):
        t0 = time.time()
        f(*a, **k)
        stage[name] = round(stage.get(name, 0.0) + time.time() - t0, 1)

    timed('stateless', stateless_mass, run, ck.rng('stateless'), 240 if th else 30, 40 if th else 30)
    timed('truth_tables', truth_tables, run, ck.rng('tt'), sample=None if th else 600)
    timed('stub_grid', stub_grid, run, ck.rng('stub'), 1500 if th else 150)
    timed('actions', actions_mass, run, ck.rng('actions'), 500 if th else 60)
    timed('monitor', monitor, run, ck.rng('monitor'))
    timed('optimizer_params', optimizer_params, run, ck.rng('opt'))
    timed('eve', eve, run, ck.rng('eve'), 800 if th else 80, 24 if th else 6)
    timed('eve_doubling_points', eve_boundaries, run, ck.rng('eve-points'), th)
    timed('repeated', repeated_mass, run, ck.rng('repeated'), 500 if th else 60)
    timed('shared_subexpressions', dag_mass, run, ck.rng('dag'), 150 if th else 30)
    timed('regressions_repeated', regressions_repeated, run, ck.rng('known'), 60 if th else 8)
    timed('shared_across_solvers', shared_across_solvers, run, ck.rng('two-solvers'), 120 if th else 16)
    timed('custom_metric', custom_metric_key, run)
    timed('misc', misc, run)
    timed('coq_cases', run.settle)
    timed('interval_goals', ck.step_interval_goals, 'eve', run.goals)
    ck.extra['stage_s'] = stage

    known_keys = set()
    if ck.broken and not [f for f in ck.failures if f['key'] not in known_keys]:
        # search: a broken obligation without a failing input so far -> widen the oracle run (implementation vs
        # documented behaviour only, no Coq), on fresh random inputs of every scenario family
        ck.notes.append('search: re-ran the implementation oracles on 5x more fresh inputs after a broken obligation')
        stateless_mass(run, ck.rng('search', 'stateless'), 80, 40, coq=False)
        actions_mass(run, ck.rng('search', 'actions'), 150, coq=False)
        repeated_mass(run, ck.rng('search', 'repeated'), 150, coq=False)
        dag_mass(run, ck.rng('search', 'dag'), 200, coq=False)
        run.cases = []
        stub_grid(run, ck.rng('search', 'stub'), 600)
        eve(run, ck.rng('search', 'eve'), 400, 0)
        eve_boundaries(run, ck.rng('search', 'eve-points'), True)
        run.goals = run.goals[:0]
        run.cases = []

    ck.extra['input_distribution'] = dict(sorted(run.dist.items()))
    ck.extra['known_finding_keys'] = {'open': [], 'fixed (replayed, must pass)': [KNOWN_F5, KNOWN_LATE, KNOWN_SC, KNOWN_BA, KNOWN_KEY]}
    ck.finish(
        trusted_extra=['tools/props/t_C16.py (syntax-directed emitter callbacks.py -> gen/Gen_C16.v; its prelude fixes the meaning of np.inf, min, `x or np.inf`, history[-1-k], OrderedSet, int())',
                       'Flocq (Zfloor / Ztrunc) and the Coq Reals library for C16_eve_spec; Interval tactic for the in-kernel log goals',
                       'tools/harness/cb_trees.py, cb_engine.py: tree -> real object / Coq term / documented predicate; real fit() driver',
                       'modelled not verified: float64 log / division / + EPS in EveCallback (taken as real operations); IEEE comparisons of the '
                       'scripted integer-valued metric values (exact); torch optimiser step rule; tqdm_file=None path of fit()'],
        assumptions=['n_batches_train >= 1 (global epoch grows by one per epoch); period <> 0; Eve: v, v_0 > 0, p > 0, p <> 1, fractional part of log_p(v/v_0) below 1 - 1e-4',
                     'custom metric names: no recorded key is literally <phase>_<name> (i.e. the name is not "loss" and not "_x" beside a metric "x"); then the callbacks read the solver\'s <phase>__<name> series',
                     'OrderedSet is modelled as order-preserving de-duplication keeping the first occurrence (dedup); parameter identity = Python object identity'])


if __name__ == '__main__':
    main()
