"""pyfront targets for C09 (spherical and cylindrical operators + coordinate conversions)."""
import ast
from pyfront.gen import Target
from pyfront.interp import Interp
from pyfront import ir

F = 'neurodiffeq/operators.py'
V = lambda n: ('var', n)
SPH = ['r', 'theta', 'phi']
CYL = ['rho', 'phi', 'z']
CART = ['x', 'y', 'z']


def sym(name, leaves):
    return ('fun', name, tuple(0 for _ in leaves), tuple(('avar', l) for l in leaves))


class Atan2:
    def __init__(self, y, x):
        self.y, self.x = y, x


class Interp09(Interp):
    """torch.atan2(y, x) is kept as a pair of argument terms; the contract of atan2 is a Section
    hypothesis on the Coq side (no atan2 in the Reals library)."""
    def builtin(self, n, name, args, kwargs):
        if name == 'torch.atan2':
            if len(args) != 2 or kwargs:
                self.err(n, 'atan2 arity')
            return Atan2(self.tens(n, args[0]), self.tens(n, args[1]))
        return super().builtin(n, name, args, kwargs)


def scalar_op(fn, coords):
    return lambda I: I.call_module_function(fn, sym('u', coords), *[V(c) for c in coords])


def vector_op(fn, coords):
    return lambda I: I.call_module_function(fn, *[sym(f'u{i}', coords) for i in (1, 2, 3)], *[V(c) for c in coords])


def to_cart(fn, coords):
    return lambda I: I.call_module_function(fn, *[V(c) for c in coords])


def from_cart(fn):
    def b(I):
        out = I.call_module_function(fn, V('x'), V('y'), V('z'))
        flat = []
        for o in out:
            if isinstance(o, Atan2):
                flat += [o.y, o.x]          # angle = atan2(term_k, term_{k+1})
            else:
                flat.append(o)
        return flat
    return b


TARGETS = [
    Target('spherical_grad', F, scalar_op('spherical_grad', SPH), leaves=SPH, funs=['u']),
    Target('spherical_div', F, vector_op('spherical_div', SPH), leaves=SPH, funs=['u1', 'u2', 'u3']),
    Target('spherical_curl', F, vector_op('spherical_curl', SPH), leaves=SPH, funs=['u1', 'u2', 'u3']),
    Target('spherical_laplacian', F, scalar_op('spherical_laplacian', SPH), leaves=SPH, funs=['u']),
    Target('spherical_vector_laplacian', F, vector_op('spherical_vector_laplacian', SPH), leaves=SPH, funs=['u1', 'u2', 'u3']),
    Target('cylindrical_grad', F, scalar_op('cylindrical_grad', CYL), leaves=CYL, funs=['u']),
    Target('cylindrical_div', F, vector_op('cylindrical_div', CYL), leaves=CYL, funs=['u1', 'u2', 'u3']),
    Target('cylindrical_curl', F, vector_op('cylindrical_curl', CYL), leaves=CYL, funs=['u1', 'u2', 'u3']),
    Target('cylindrical_laplacian', F, scalar_op('cylindrical_laplacian', CYL), leaves=CYL, funs=['u']),
    Target('cylindrical_vector_laplacian', F, vector_op('cylindrical_vector_laplacian', CYL), leaves=CYL, funs=['u1', 'u2', 'u3']),
    Target('spherical_to_cartesian', F, to_cart('spherical_to_cartesian', SPH), leaves=SPH),
    Target('cylindrical_to_cartesian', F, to_cart('cylindrical_to_cartesian', CYL), leaves=CYL),
    # r, (theta = atan2(term_1, term_2)), (phi = atan2(term_3, term_4))
    Target('cartesian_to_spherical', F, from_cart('cartesian_to_spherical'), leaves=CART, interp_cls=Interp09),
    # rho, (phi = atan2(term_1, term_2)), z
    Target('cartesian_to_cylindrical', F, from_cart('cartesian_to_cylindrical'), leaves=CART, interp_cls=Interp09),
]
