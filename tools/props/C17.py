#!/venv/bin/python
"""C17 — function bases are orthogonal eigenfunctions; basis Laplacians are exact.  Engine A.
DESIGN.md section 7, C17."""
import math
import warnings
import os
import sys

sys.path.insert(0, os.path.join(os.path.dirname(os.path.abspath(__file__)), '..'))
from common import Check
from pyfront import ir
from props.t_C17 import TARGETS, YNAMES, degree_of, legendre_coeffs
from harness import enga
from harness.probes import Probe, dy


def run_cases(ck, res, n_cases, n_interval):
    torch = enga.import_repo()
    import numpy as np
    from neurodiffeq import function_basis as FB
    from neurodiffeq import operators as O
    r = ck.rng('cases')
    goals, dist = [], {}
    # ---- (1) orthogonality and normalisation by exact quadrature (band limit 8): NOT a theorem yet
    for md in range(5):
        H = FB.RealSphericalHarmonics(max_degree=md)
        xg, wg = np.polynomial.legendre.leggauss(10)               # exact for polynomials of degree <= 19 in cos(theta)
        nph = 20
        ths = np.arccos(xg)
        TH, PH, W = [], [], []
        for t, w in zip(ths, wg):
            for j in range(nph):
                TH.append(t); PH.append(2 * math.pi * j / nph); W.append(w * 2 * math.pi / nph)
        Y = H(enga.col(torch, TH, grad=False), enga.col(torch, PH, grad=False)).numpy()
        G = (Y * np.array(W)[:, None]).T @ Y
        n = (md + 1) ** 2
        ck.add_case(('gram', md))
        if Y.shape[1] != n:
            ck.fail('harmonics/column-count', f'RealSphericalHarmonics(max_degree={md}) returns {Y.shape[1]} columns, expected {n}', {'max_degree': md})
            continue
        off = G - np.diag(np.diag(G))
        if np.max(np.abs(off)) > 1e-7:
            i, j = np.unravel_index(np.argmax(np.abs(off)), off.shape)
            ck.fail(f'harmonics/not-orthogonal-{YNAMES[min(i,j)]}-{YNAMES[max(i,j)]}', f'<{YNAMES[i]},{YNAMES[j]}> = {off[i,j]!r} on the sphere (exact quadrature)', {'max_degree': md, 'i': int(i), 'j': int(j)}, expected=0.0, actual=float(off[i, j]))
        if np.max(np.abs(np.diag(G) - math.pi)) > 1e-7:
            i = int(np.argmax(np.abs(np.diag(G) - math.pi)))
            ck.fail(f'harmonics/normalisation-{YNAMES[i]}', f'<{YNAMES[i]},{YNAMES[i]}> = {G[i,i]!r}, the common normalisation is pi', {'max_degree': md, 'i': i}, expected=math.pi, actual=float(G[i, i]))
        dist[f'gram_md{md}'] = n * n
    # ---- (2) each harmonic: generated term vs the real lambda; eigenfunction oracle with raw autograd
    for k, name in enumerate(YNAMES):
        l = degree_of(name)
        ths = [dy(r, 0.2, 2.9, 4) for _ in range(3)]
        phs = [dy(r, 0, 6.25, 4) for _ in range(3)]
        T, P = enga.col(torch, ths), enga.col(torch, phs)
        y = getattr(FB, name)(T, P)
        yv = [float(v) for v in y.detach().reshape(-1)]
        g = lambda u, x: (torch.autograd.grad(u, x, torch.ones_like(u), create_graph=True, allow_unused=True)[0]
                          if u.requires_grad else None)
        z = lambda v, x: torch.zeros_like(x) if v is None else v
        dth = z(g(y, T), T)
        a = z(g(torch.sin(T) * dth, T), T) / torch.sin(T)
        dph = z(g(y, P), P)
        b = z(g(dph, P), P) / torch.sin(T) ** 2 if dph.requires_grad else torch.zeros_like(P)
        lap = (a + b).detach().reshape(-1)
        ck.add_case(('Y', name, str(ths)))
        for i in range(3):
            if not enga.close(float(lap[i]), -l * (l + 1) * yv[i], 10.0, rel=1e-8):
                ck.fail(f'harmonics/not-eigen-{name}', f'{name}: angular Laplacian {float(lap[i])!r} != -{l*(l+1)} * Y = {-l*(l+1)*yv[i]!r}', {'name': name, 'theta': ths[i], 'phi': phs[i]})
        if res is not None and 'terms' in res.get(name, {}):
            term = res[name]['terms'][0]
            for i in range(3):
                mv = ir.feval(term, {'theta': ths[i], 'phi': phs[i]}, {}, {})
                ck.traces += 1
                if not enga.close(mv, yv[i], 1.0):
                    ck.broke('correspondence-broken', f'pyfront:{name}', f'model {mv!r} impl {yv[i]!r} at ({ths[i]},{phs[i]})')
            if len(goals) < n_interval:
                goals.append(enga.interval_goal(name, term, {'theta': ths[0], 'phi': phs[0]}, {}, {}, yv[0], 1.0,
                                                gen=('Gen_C17', name, 'term'), names=res[name]['names']))
    # ---- (3) basis-space Laplacians vs the full Laplacians of the expanded field, random coefficient functions
    for ci in range(n_cases):
        kind = ['harmonics', 'zonal', 'fourier'][ci % 3]
        nrows = 3
        rs = [dy(r, 0.3, 3, 4) for _ in range(nrows)]
        ths = [dy(r, 0.2, 2.9, 4) for _ in range(nrows)]
        phs = [dy(r, 0, 6.25, 4) for _ in range(nrows)]
        Rr, T, P = enga.col(torch, rs), enga.col(torch, ths), enga.col(torch, phs)
        if kind == 'harmonics':
            md = r.randint(0, 4); n = (md + 1) ** 2
            basis, op = FB.RealSphericalHarmonics(max_degree=md), FB.HarmonicsLaplacian(max_degree=md)
            args_b, args_o = (T, P), (Rr, T, P)
        elif kind == 'zonal':
            md = r.randint(0, 12); n = md + 1
            if ci % 2:
                # custom degree lists (any order, gaps): the operator must use each column's own degree
                degs = r.sample(range(13), r.randint(1, 5))
                md, n = tuple(degs), len(degs)
                if ci % 4 == 3:
                    # both arguments given: the documentation says `degrees` wins and `max_degree` is ignored
                    with warnings.catch_warnings():
                        warnings.simplefilter('ignore')
                        other = r.choice([len(degs) - 1, 2, 12, 0])
                        basis, op = FB.ZonalSphericalHarmonics(max_degree=other, degrees=list(degs)), FB.ZonalSphericalHarmonicsLaplacian(max_degree=other, degrees=list(degs))
                else:
                    basis, op = FB.ZonalSphericalHarmonics(degrees=list(degs)), FB.ZonalSphericalHarmonicsLaplacian(degrees=list(degs))
            else:
                basis, op = FB.ZonalSphericalHarmonics(max_degree=md), FB.ZonalSphericalHarmonicsLaplacian(max_degree=md)
            args_b, args_o = (T, P), (Rr, T, P)
        else:
            md = r.randint(0, 12); n = 2 * md + 1
            basis, op = FB.RealFourierSeries(max_degree=md), FB.FourierLaplacian(max_degree=md)
            args_b, args_o = (P,), (Rr, P)
        coefs = [Probe(1, r, nterms=2, kinds=('one', 'pow', 'sin')) for _ in range(n)]
        Rm = torch.cat([c.torch(Rr) for c in coefs], dim=1)
        inp = {'kind': kind, 'max_degree': md, 'coefficients': [c.describe() for c in coefs[:3]], 'r': rs, 'theta': ths, 'phi': phs}
        try:
            got = op(Rm, *args_o)
            u = torch.sum(Rm * basis(*args_b), dim=1, keepdim=True)
            if kind == 'fourier':
                Z = enga.col(torch, [0.0] * nrows)
                exp = O.cylindrical_laplacian(u, Rr, P, Z)
            else:
                exp = O.spherical_laplacian(u, Rr, T, P)
        except Exception as e:
            ck.fail(f'{kind}-laplacian/raises', f'{kind} Laplacian raised {type(e).__name__}: {e}', inp)
            continue
        gv = [float(v) for v in got.detach().reshape(-1)]
        ev = [float(v) for v in exp.detach().reshape(-1)]
        scale = 1 + max(abs(v) for v in gv + ev)
        dist[kind] = dist.get(kind, 0) + 1
        ck.add_case((kind, md, str(rs), str(inp['coefficients'])))
        if ci < 4:
            ck.sample({'kind': kind, 'max_degree': md, 'r': rs, 'impl': gv})
        for i in range(nrows):
            # float32 coefficient tensors are used by the zonal/Fourier operators: tolerance for that
            if not enga.close(gv[i], ev[i], scale * 100, rel=1e-7):
                ck.fail(f'{kind}-laplacian/value', f'{kind} basis Laplacian {gv[i]!r} differs from the Laplacian of the expanded field {ev[i]!r}', dict(inp, row=i), expected=ev[i], actual=gv[i])
        tname = {'harmonics': f'harm_lap_{md}', 'zonal': f'zonal_lap_{md}', 'fourier': f'fourier_lap_{md}'}[kind] if not isinstance(md, tuple) else 'zonal-custom-degrees'
        if res is not None and 'terms' in res.get(tname, {}):
            term = res[tname]['terms'][0]
            fenv = {f'R{k}': coefs[k].jet for k in range(n)}
            for i in range(nrows):
                venv = {'r': rs[i], 'theta': ths[i], 'phi': phs[i], 'z': 0.0}
                mv = ir.feval(term, venv, {'PI': math.pi}, fenv)
                ck.traces += 1
                if not enga.close(mv, gv[i], scale * 100, rel=1e-7):
                    ck.broke('correspondence-broken', f'pyfront:{tname}', f'row {i}: model {mv!r} impl {gv[i]!r} input {inp}')
                    break
    # ---- (4) Legendre / zonal / Fourier bases against their documented forms
    from scipy.special import legendre as sp_leg
    for d in range(13):
        ex = legendre_coeffs(d)
        sc = list(sp_leg(d).coeffs) if d > 0 else [1.0]
        ck.add_case(('legendre', d))
        if len(sc) != len(ex) or any(abs(float(a) - float(b)) > 1e-9 * (1 + abs(float(a))) for a, b in zip(ex, sc)):
            ck.broke('correspondence-broken', f'scipy.legendre({d})', f'scipy coefficients {sc} differ from the exact rationals {[str(c) for c in ex]}')
        xs = [dy(r, -1, 1, 5) for _ in range(4)]
        pv = FB.LegendrePolynomial(d)(enga.col(torch, xs, grad=False)).reshape(-1)
        ref = np.polynomial.legendre.legval(np.array(xs), [0] * d + [1])
        for i in range(4):
            if not enga.close(float(pv[i]), float(ref[i]), 1.0):
                ck.fail(f'legendre/value-{d}', f'LegendrePolynomial({d})({xs[i]}) = {float(pv[i])!r}, expected {float(ref[i])!r}', {'degree': d, 'x': xs[i]})
        if res is not None and 'terms' in res.get(f'legendre_{d}', {}):
            for i in range(4):
                mv = ir.feval(res[f'legendre_{d}']['terms'][0], {'x': xs[i]}, {}, {})
                ck.traces += 1
                if not enga.close(mv, float(pv[i]), 1.0):
                    ck.broke('correspondence-broken', f'pyfront:legendre_{d}', f'model {mv!r} impl {float(pv[i])!r}')
    # "for every degree": beyond the 13 generated degrees the implementation is compared with the stable reference
    # (numpy's Clenshaw evaluation) at high degrees too; an unstable or wrong evaluation scheme shows up there
    for d in (13, 16, 20, 21, 22, 24, 25, 30, 40, 64):
        xs = [dy(r, -1, 1, 5) for _ in range(5)] + [1.0, -1.0]
        pv = FB.LegendrePolynomial(d)(enga.col(torch, xs, grad=False)).reshape(-1)
        ref = np.polynomial.legendre.legval(np.array(xs), [0] * d + [1])
        ck.add_case(('legendre-high', d))
        for i in range(len(xs)):
            if not enga.close(float(pv[i]), float(ref[i]), 1.0, rel=1e-11):
                ck.fail(f'legendre/value-{d}', f'LegendrePolynomial({d})({xs[i]}) = {float(pv[i])!r}, expected {float(ref[i])!r}', {'degree': d, 'x': xs[i]},
                        expected=float(ref[i]), actual=float(pv[i]))
    for degrees in ([0, 1, 2, 3, 4, 5, 6, 7, 8, 9, 10, 11, 12], [7, 2], [3], [12, 0, 5], [21, 30, 3], [48]):
        ths = [dy(r, 0.1, 3.0, 4) for _ in range(3)]
        Z = FB.ZonalSphericalHarmonics(degrees=list(degrees))(enga.col(torch, ths, grad=False), enga.col(torch, [0.0] * 3, grad=False))
        ck.add_case(('zonal', tuple(degrees)))
        for j, l in enumerate(degrees):
            for i, t in enumerate(ths):
                ref = math.sqrt((2 * l + 1) / (4 * math.pi)) * float(np.polynomial.legendre.legval(math.cos(t), [0] * l + [1]))
                if not enga.close(float(Z[i, j]), ref, 1.0):
                    ck.fail(f'zonal/value-{l}', f'zonal harmonic of degree {l} at theta={t}: {float(Z[i,j])!r}, expected {ref!r}', {'degrees': list(degrees), 'theta': t})
    for md in (0, 1, 3, 12):
        phs = [dy(r, 0, 6.25, 4) for _ in range(3)]
        Fm = FB.RealFourierSeries(max_degree=md)(enga.col(torch, phs, grad=False))
        ck.add_case(('fourier', md))
        for i, p in enumerate(phs):
            ref = [0.5] + [f(d * p) for d in range(1, md + 1) for f in (math.sin, math.cos)]
            if Fm.shape[1] != len(ref) or any(not enga.close(float(Fm[i, j]), ref[j], 1.0) for j in range(len(ref))):
                ck.fail(f'fourier/order-{md}', f'RealFourierSeries(max_degree={md}) columns differ from [1/2, sin, cos, sin 2, cos 2, ...]', {'max_degree': md, 'phi': p})
    ck.extra['input_distribution'] = dist
    return goals


def main():
    ck = Check('C17')
    ck.rule = ('Gram matrix of the real spherical harmonics (max_degree 0..4) by exact Gauss-Legendre x uniform-phi quadrature; each of the '
               '25 harmonics against its generated term and the eigenfunction equation by raw autograd; Harmonics/Zonal/Fourier basis '
               'Laplacians with random coefficient functions (max_degree 0..4 / 0..12 / 0..12, r in [0.3,3]) against '
               'operators.spherical_laplacian / cylindrical_laplacian of the expanded field and against the generated terms; Legendre '
               '0..12 (scipy coefficients vs exact rationals), zonal degree lists, Fourier column order')
    ck.step_hygiene()
    res = ck.step_generate('Gen_C17', TARGETS)
    if res is not None:
        from props import t_C17o
        oko, info = t_C17o.setup_generate()
        if not oko:
            ck.broke('translator-refusal', 't_C17o:orthogonality-certificates', info.get('error'))
            res = None
        else:
            ck.extra['orthogonality'] = {k: info[k] for k in ('pairs', 'phi_certs', 'theta_certs', 'non_orthogonal')}
    if res is not None:
        ck.step_prove('P_C17')
    n = 4500 if ck.thorough() else 45
    goals = run_cases(ck, res, n, 60 if ck.thorough() else 5)
    if res is not None:
        ck.step_interval_goals('corr', goals)
    if ck.broken and not ck.failures:
        ck.notes.append('search: re-ran the implementation oracle on 4x more inputs after a broken obligation')
        run_cases(ck, None, n * 4, 0)
    ck.finish(
        trusted_extra=['Interval (interval tactic)',
                       'orthogonality/normalisation: antiderivative certificates come from sympy (untrusted) and are re-checked in the kernel (D G = integrand, fundamental theorem via Coquelicot); the split of each harmonic into constant x Theta x Phi is re-proved (field)',
                       'scipy.special.legendre modelled by exact rational coefficients (compared each run, 1e-9); np.sqrt / np.pi modelled exactly (sqrt, PI)',
                       'modelled not verified: IEEE rounding incl. the float32 coefficient tensors of the zonal/Fourier operators, torch.autograd (= D)'],
        assumptions=['coefficient functions R_k are function symbols of r with arbitrary jets', 'r <> 0, sin theta <> 0',
                     'basis Laplacian theorems: spherical harmonics max_degree 0..4 (all the class supports); zonal 0,2,4 and Fourier 0,1,3 (generated sizes)'])


if __name__ == '__main__':
    main()
