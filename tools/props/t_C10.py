"""pyfront targets for C10 (bundle conditions): one target per lookup table of the property's
quantifier — every subset of the allowed names mapped to every injective index assignment among
4 extra columns, plus EVERY assignment (injective or not: two names may share a column) among the first
2 columns — times the constructor modes.  All targets of a class share one numbering, so
the proofs can compare the whole generated index with one list-generic model."""
from itertools import permutations, combinations, product
from pyfront.gen import Target
from pyfront.interp import NetSym

F = 'neurodiffeq/conditions.py'
P = lambda n: ('par', n)
V = lambda n: ('var', n)
M = 4                                   # extra columns
TH = [f'th{i}' for i in range(M)]


def lookups(names):
    seen = set()
    for k in range(len(names) + 1):
        for sub in combinations(names, k):
            for idx in list(permutations(range(M), k)) + list(product(range(2), repeat=k)):
                key = tuple(zip(sub, idx))
                if key not in seen:
                    seen.add(key)
                    yield dict(key)


def coq_lookup(lk):
    return '(['+ '; '.join('("%s"%%string, %d%%nat)' % (k, v) for k, v in lk.items()) + '] : list (string * nat))'


def ivp_target(lk, prime_attr, n):
    def b(I):
        c = I.instantiate('BundleIVP', t_0=P('t_0'), u_0=P('u_0'), u_0_prime=P('u_0_prime') if prime_attr else None,
                          bundle_param_lookup=dict(lk))
        return I.call_method(c, 'enforce', NetSym('N'), V('t'), *[V(x) for x in TH])
    meta = '(%s, %s)' % (coq_lookup(lk), 'true' if prime_attr else 'false')
    return Target(f'ivp_{n}', F, b, leaves=['t'] + TH, pars=['t_0', 'u_0', 'u_0_prime'], funs=['N'], meta=meta, group='ivp')


def bvp_target(lk, n):
    def b(I):
        c = I.instantiate('BundleDirichletBVP', t_0=P('t_0'), u_0=P('u_0'), t_1=P('t_1'), u_1=P('u_1'), bundle_param_lookup=dict(lk))
        return I.call_method(c, 'enforce', NetSym('N'), V('t'), *[V(x) for x in TH])
    return Target(f'bvp_{n}', F, b, leaves=['t'] + TH, pars=['t_0', 'u_0', 't_1', 'u_1'], funs=['N'], meta=coq_lookup(lk), group='bvp')


def reject(cls, lk):
    def b(I):
        kw = dict(t_0=P('t_0'), u_0=P('u_0'))
        if cls == 'BundleDirichletBVP':
            kw.update(t_1=P('t_1'), u_1=P('u_1'))
        I.instantiate(cls, bundle_param_lookup=dict(lk), **kw)
        return ('cst', 0)
    return b


IVP_MODES = [(lk, pa) for lk in lookups(['t_0', 'u_0', 'u_0_prime']) for pa in ((False, True) if 'u_0_prime' not in lk else (False,))]
# t_0 and t_1 in one column would mean t_0 = t_1 in every row: not an admissible two-point problem
BVP_MODES = [lk for lk in lookups(['t_0', 'u_0', 't_1', 'u_1']) if not ('t_0' in lk and 't_1' in lk and lk['t_0'] == lk['t_1'])]

TARGETS = ([ivp_target(lk, pa, n) for n, (lk, pa) in enumerate(IVP_MODES)] +
           [bvp_target(lk, n) for n, lk in enumerate(BVP_MODES)] +
           [Target('ivp_reject_name', F, reject('BundleIVP', {'t_1': 0})),
            Target('bvp_reject_name', F, reject('BundleDirichletBVP', {'u_0_prime': 0}))])
