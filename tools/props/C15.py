#!/venv/bin/python
"""C15 — epoch and metric bookkeeping stays consistent across any sequence of fits.
Engine B: theorems of props/P_C15.v about the executable model coq/model/Solver.v (induction over op
sequences, fit loop and batch loop); correspondence = the integer toy problem run through the REAL solver
classes and through the model inside Coq (vm_compute), every recorded value compared; plus the property's
own oracle evaluated directly on the implementation's observations.  DESIGN.md section 7, C15."""
import json
import os
import sys

sys.path.insert(0, os.path.join(os.path.dirname(os.path.abspath(__file__)), '..'))
from common import Check
from harness import solver_toy as T
from props import t_C15
from fractions import Fraction

TRAIN_EVENTS = {'zero', 'step', 'cstep'}


def phase_of(e):
    if e[0] in ('draw', 'eval'):
        return e[1]
    if e[0] in TRAIN_EVENTS:
        return 'train'
    return None


def oracle(ck, sc, rec, label):
    """C15's own statement, evaluated on what the implementation was observed to do (no model involved)."""
    inp = {'scenario': sc}
    H = rec['history']
    nm = sc['nmetrics']
    fits = {f['op']: f for f in rec['fits']}
    ran = {'train': 0, 'valid': 0}
    pos_m = 0
    per_fit = {}
    for sn, seg, before in T.epoch_contexts(rec):
        fi = sn['fit']
        per_fit.setdefault(fi, []).append(sn)
        ncbs = fits[fi]['ncbs']
        ev = [e for e in seg if e[0] != 'loss']
        # ---- callbacks exactly once, in order, after both phases; training before validation
        first_cb = next((i for i, e in enumerate(ev) if e[0] == 'cb'), len(ev))
        body, tail = ev[:first_cb], ev[first_cb:]
        want_tail = [('cb', i) for i in fits[fi]['cb_ids']]
        if tail != want_tail:
            ck.fail('callbacks/once-in-order', 'callbacks of one epoch did not run exactly once per list entry, in the given order, after both phases',
                    inp, expected=want_tail, actual=tail)
        phases = [phase_of(e) for e in body]
        if 'valid' in phases and 'train' in phases[phases.index('valid'):]:
            ck.fail('callbacks/phase-order', 'a training-phase event followed a validation-phase event inside one epoch', inp, actual=body)
        t_ran = ('draw', 'train') in [(e[0], e[1]) for e in body if e[0] == 'draw']
        v_ran = ('draw', 'valid') in [(e[0], e[1]) for e in body if e[0] == 'draw']
        ran['train'] += t_ran
        ran['valid'] += v_ran
        # ---- global epoch and series lengths, after every epoch
        if sn['global'] != ran['train'] or sn['lens']['train_loss'] != ran['train']:
            ck.fail('global_epoch/mismatch', 'global_epoch / len(train_loss) differs from the number of training epochs actually run (spied)',
                    inp, expected=ran['train'], actual={'global_epoch': sn['global'], 'len_train_loss': sn['lens']['train_loss']})
        for name, ln in sn['lens'].items():
            ph = 'train' if name.startswith('train') else 'valid'
            if ln != ran[ph]:
                ck.fail(f'series_lengths/{ph}', f'series {name} has {ln} entries after {ran[ph]} epochs in which the {ph} phase ran',
                        inp, expected=ran[ph], actual=ln)
        # ---- metric entries: mean over this epoch's batches of the metric function's value
        calls = rec['metric_calls'][pos_m:sn['n_mcalls']]
        pos_m = sn['n_mcalls']
        for ph, did in (('train', t_ran), ('valid', v_ran)):
            if not did:
                continue
            draws = [e[2] for e in body if e[0] == 'draw' and e[1] == ph]
            for i in range(nm):
                series = H[f'{ph}__m{i}']
                if ran[ph] - 1 >= len(series):
                    continue
                entry = series[ran[ph] - 1]
                per_batch = [[c['value'] for c in calls if c['i'] == i and tuple(c['draw']) == (ph, k)] for k in draws]
                if any(len(v) == 0 for v in per_batch):
                    if not (ph == 'train' and before['closure']):  # a closure optimiser that never calls its closure: nothing to average
                        ck.fail(f'metric_mean/not-evaluated', f'metric m{i} was not evaluated on every {ph} batch of the epoch', inp)
                    continue
                import math
                flat = [v[-1] for v in per_batch]
                if any(not math.isfinite(x) for v in per_batch for x in v) or not math.isfinite(entry):
                    # undefined / infinite metric values: the entry is still recorded, NaN compared as NaN
                    want = sum(flat) / len(draws)
                    same = (math.isnan(want) and math.isnan(entry)) or want == entry
                    if not same and not any(len(v) > 1 for v in per_batch):
                        ck.fail(f'metric_mean/{ph}-nonfinite', f'{ph}__m{i} entry for non-finite metric values is not their mean', inp,
                                expected=repr(want), actual=repr(entry))
                    continue
                cands = [sum(Fraction(v[-1]) for v in per_batch) / len(draws), sum(Fraction(v[0]) for v in per_batch) / len(draws)]
                if not any(close(c, entry) for c in cands):
                    multi = any(len(v) > 1 for v in per_batch)
                    key = 'metric_mean/closure-accumulates' if (multi and ph == 'train') else f'metric_mean/{ph}'
                    ck.fail(key, f'{ph}__m{i} entry is not the mean over the epoch\'s batches of the metric value'
                            + (' (closure optimiser: accumulated on every closure evaluation)' if multi else ''),
                            inp, expected=[float(c) for c in cands], actual=entry)
    # ---- local epoch per fit call
    for f in rec['fits']:
        fi, m = f['op'], f['max_epochs']
        sns = per_fit.get(fi, [])
        k = len(sns)
        op = sc['ops'][fi]
        stops = T.stop_epochs(op, m)
        exp_k = min(stops) if stops else m
        if [s['local'] for s in sns] != list(range(1, k + 1)) or k > m:
            ck.fail('local_epoch_run/values', 'local epoch did not take the values 1..k (k <= max_epochs) during a fit call',
                    inp, expected=list(range(1, min(k, m) + 1)), actual=[s['local'] for s in sns])
        if k != exp_k:
            ck.fail('local_epoch_run/count', f'fit({m}) with a stop request at epoch {min(stops) if stops else None} ran {k} epochs',
                    inp, expected=exp_k, actual=k)
        if any(s['stop'] for s in sns[:-1]) or (k < m and sns and not sns[-1]['stop']):
            ck.fail('local_epoch_run/stop-flag', 'the loop continued after a stop request or ended early without one', inp)
        if f['post']['local'] > m:
            key = 'local_epoch_after/fit0-stale' if (m == 0 and f['pre']['local'] == f['post']['local']) else 'local_epoch_after/exceeds'
            ck.fail(key, f'after fit({m}) solver.local_epoch is {f["post"]["local"]} > max_epochs', inp,
                    expected=f'<= {m}', actual=f['post']['local'])
    fin = rec['final']
    if fin['global'] != ran['train'] or len(H['train_loss']) != ran['train']:
        ck.fail('global_epoch/final', 'final global_epoch differs from the number of training epochs run', inp,
                expected=ran['train'], actual=fin['global'])


def close(exact, obs):
    exact, obs = Fraction(exact), Fraction(obs)
    return abs(exact - obs) <= Fraction(1, 10 ** 9) * (1 + abs(exact))


def regression_scenarios():
    """small fixed scenarios replaying the two repaired findings (F6, F11) on every run: they must pass now"""
    base = {'cfg': {'cls': 'S1D', 'kappa': [1], 'netof': [0], 'neq': 1, 'idx': [], 'ext': False}, 'w0': [0.5],
            'conds': [{'kind': 'var', 'tag': 5}], 'ncoords': 1, 'nmetrics': 1, 'lid': 0, 'loss_form': 'none', 'nbt': 1, 'nbv': 1,
            'train_script': [[[1, 2]], [[0, 3]]], 'valid_script': [[[2, 2]]]}
    rec_cb = [[{'when': None, 'act': {'kind': 'record'}}]]
    f11 = dict(base, opt={'kind': 'sgd', 'lr': 0.25},
               ops=[{'op': 'fit', 'max_epochs': 3, 'cbs': rec_cb}, {'op': 'fit', 'max_epochs': 0, 'cbs': rec_cb}])
    f6 = dict(base, opt={'kind': 'script', 'lr': 0.25, 'counts': [2, 3]}, ops=[{'op': 'fit', 'max_epochs': 2, 'cbs': rec_cb}])
    dup = dict(base, opt={'kind': 'sgd', 'lr': 0.25},
               ops=[{'op': 'fit', 'max_epochs': 3, 'cbs': [[], [{'when': 2, 'act': {'kind': 'set_nb', 'phase': 'train', 'n': 2}}]] + rec_cb,
                     'cb_order': [0, 1, 0, 2]},
                    {'op': 'fit', 'max_epochs': 2, 'cbs': [[]] + rec_cb, 'cb_order': [0, 0, 1], 'cb_container': 'tuple'}])
    nan = dict(base, nbt=2, opt={'kind': 'sgd', 'lr': 0.25}, metric_special={'0': [None, 'nan', None, None, 'inf', 'zero']},
               ops=[{'op': 'fit', 'max_epochs': 3, 'cbs': rec_cb}])
    # batches of different sizes inside one epoch: the metric entry is the mean over the BATCHES, not over the points
    rag = dict(base, nbt=2, nbv=2, opt={'kind': 'sgd', 'lr': 0.25}, train_script=[[[1, 2, 0, 3]], [[2]], [[0, 1, 1]]],
               valid_script=[[[2]], [[1, 0, 3]]], ops=[{'op': 'fit', 'max_epochs': 3, 'cbs': rec_cb}])
    return [('fixed-F11-fit0', f11, True), ('fixed-F6-closure-metric', f6, True), ('repeated-callback-object', dup, True),
            ('nan-metric', nan, False), ('ragged-batches', rag, True)]


def main():
    ck = Check('C15')
    ck.rule = ('scenario = solver class x 1..3 unknowns x shared/separate nets x condition kinds x n_batches x 0..2 metrics x optimiser '
               '(SGD / scripted closure optimiser exact; Adam / LBFGS by event trace) x up to 4 fit() calls with max_epochs 0..6, stop '
               'requests and n_batches changes scripted per local epoch; distinct = distinct (label, configuration summary); '
               'non-trivial = at least one epoch ran; every history entry, weight, lowest loss, counter and spy event is compared '
               'with the Coq model (vm_compute), and the property\'s oracle is evaluated on the observations alone')
    ck.step_hygiene()
    # regenerate coq/gen/Gen_C15.v from the current BaseSolver.fit (fail-closed); P_C15 proves the generated loop
    # equal to the model's fit, so a source change that alters the loop breaks the proof
    if t_C15.step_generate(ck):
        ck.step_prove('P_C15')
    camp = T.Campaign(ck, 'C15', oracle)
    if ck.replay:
        payload = json.load(open(ck.replay))
        sc = payload.get('input', {}).get('scenario')
        if sc:
            camp.add('replay', sc, coq=False)
        ck.finish()
    for label, sc, exact in regression_scenarios():
        camp.add(label, sc, exact)
    r = ck.rng('scenarios')
    n = 1080 if ck.thorough() else 70
    for i in range(n):
        if i % 6 == 5:
            sc = T.gen_scenario(r, opt_kinds=('adam', 'lbfgs'), cb_actions=('stop', 'set_nb'), lids=(0, 1, 4))
            camp.add(f'trace#{i}', sc, exact=False)
        elif i % 6 == 2:
            # custom metrics returning NaN / inf / 0 / negative values in some calls: every series still gets one entry per epoch
            # of its phase (values are not representable in the rational model: lengths, counters and events are compared)
            sc = T.gen_scenario(r, opt_kinds=('sgd', 'script'), cb_actions=('stop', 'set_nb', 'real_stop', 'real_report'), lids=(0, 1),
                                nmetrics=(1, 2), metric_special=True, dup_callbacks=(i % 4 == 0))
            camp.add(f'special#{i}', sc, exact=False)
        else:
            sc = T.gen_scenario(r, opt_kinds=('sgd', 'script', 'sgd'),
                                cb_actions=('stop', 'set_nb', 'stop', 'set_nb', 'set_opt') + (('real_monitor', 'real_stop') if i % 7 == 3 else ()),
                                between_actions=('set_nb',) if i % 4 == 0 else (), lids=(0, 1) if i % 3 == 0 else (0, 1, 0, 3),
                                dup_callbacks=(i % 3 == 1), ragged=(i % 3 == 0), nmetrics=(1, 2) if i % 3 == 0 else (0, 2),
                                nbt=(2, 3) if i % 3 == 0 else (1, 3))
            camp.add(f'exact#{i}', sc, exact=True)
    camp.correspond()
    if ck.broken and not [f for f in ck.failures]:
        ck.notes.append('search: a broken obligation without a failing input -> the oracle alone was run on 4x more scenarios')
        r2 = ck.rng('search')
        for i in range(4 * n):
            camp.add(f'search#{i}', T.gen_scenario(r2, opt_kinds=('sgd', 'script', 'lbfgs'), cb_actions=('stop', 'set_nb', 'set_opt')), coq=False)
    camp.finish_dist()
    ck.finish(
        trusted_extra=['coq/model/Solver.v is hand-written; tied to solvers.py by this correspondence (toy problem through the public '
                       'constructors of all five solver classes, every recorded value compared in Coq)',
                       'modelled not verified: torch.autograd (forward-mode duals in the toy instance), optimiser arithmetic '
                       '(abstract opt_step / closure_opt), IEEE rounding (values compared within 2^-50 relative of the exact rational)'],
        assumptions=['callbacks act on the solver only through: n_batches, loss function, optimiser, stop flag, in-place parameter / '
                     'condition mutation (the action type of the model)',
                     'n_batches are non-negative integers; a phase "runs" in an epoch iff its n_batches is non-zero when reached'])


if __name__ == '__main__':
    main()
