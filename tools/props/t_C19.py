"""pyfront targets for C19 (networks.py): the activation forwards and MonomialNN.forward as `expr`
terms, the `trainable` branches as 0/1 flag terms, and a source-level interpretation of
FCNN.__init__ / Resnet.__init__ (layer lists for concrete configurations).

pyfront's Interp is subclassed here (tools/pyfront is not edited) for the few constructs
networks.py uses that the condition code does not: float(), isinstance(_, int|tuple),
torch.tensor / nn.Parameter (a parameter that is registered as trainable), F.tanh,
Matrix ** int, nn.Linear / actv() / nn.Sequential as layer descriptors.  Anything else still
raises TranslationError (fail-closed)."""
import ast

from pyfront import ir
from pyfront.gen import Target
from pyfront.interp import Interp, Matrix, Builtin, Obj, RaisedInSource, TranslationError, BoundMethod

F = 'neurodiffeq/networks.py'
P = lambda n: ('par', n)
V = lambda n: ('var', n)


def _is_static(fn):
    return any(isinstance(d, ast.Name) and d.id == 'staticmethod' for d in fn.decorator_list)


class TPar(tuple):
    """An IR term that went through nn.Parameter(torch.tensor(.)): registered, trainable."""


class LayerDesc:
    def __init__(self, kind, *a):
        self.kind, self.a = kind, a

    def as_tuple(self):
        return (self.kind,) + tuple(self.a)


class NetInterp(Interp):
    def builtin(self, n, name, args, kwargs):
        if name == 'float':
            if len(args) != 1 or kwargs:
                self.err(n, 'float arity')
            v = args[0]
            if isinstance(v, (int, float)) and not isinstance(v, bool):
                return float(v)
            if ir.is_term(v) and v[0] == 'par':
                return v
            self.err(n, 'float() of a non-parameter')
        if name == 'isinstance':
            v, t = args
            tn = t.name if isinstance(t, Builtin) else None
            if tn in ('int', 'tuple', 'str', 'list', 'float'):
                if ir.is_term(v):
                    if tn == 'tuple':
                        self.err(n, 'isinstance(<tensor term>, tuple)')
                    return False
                return isinstance(v, {'int': int, 'tuple': tuple, 'str': str, 'list': list, 'float': float}[tn]) \
                    and not (tn == 'int' and isinstance(v, bool))
            self.err(n, f'isinstance(_, {tn}) not accepted')
        if name == 'torch.tensor':
            if len(args) != 1 or kwargs:
                self.err(n, 'torch.tensor usage')
            return self.tens(n, args[0])
        if name == 'torch.nn.Parameter':
            rg = kwargs.pop('requires_grad', True)
            if len(args) != 1 or kwargs or not isinstance(rg, bool):
                self.err(n, 'nn.Parameter usage')
            return TPar(self.tens(n, args[0])) if rg else self.tens(n, args[0])
        if name == 'torch.pow':
            if len(args) != 2 or kwargs:
                self.err(n, 'torch.pow arity')
            return self.binop(n, ast.Pow, args[0], args[1])
        if name in ('torch.nn.functional.tanh',):
            if len(args) != 1 or kwargs:
                self.err(n, f'{name} arity')
            return ('tanh', self.tens(n, args[0]))
        if name == 'torch.nn.Linear':
            bias = kwargs.pop('bias', True)
            if len(args) != 2 or kwargs or not all(isinstance(a, int) and not isinstance(a, bool) for a in args) \
                    or not isinstance(bias, bool):
                self.err(n, 'nn.Linear(int, int[, bias=bool]) expected')
            return LayerDesc('L', args[0], args[1], bias)
        if name == 'ACTV':
            if args or kwargs:
                self.err(n, 'actv() takes no arguments')
            return LayerDesc('A')
        if name == 'torch.nn.Sequential':
            if kwargs or not all(isinstance(a, LayerDesc) for a in args):
                self.err(n, 'nn.Sequential(*layers) expected')
            return list(args)
        if name in ('warnings.warn',):
            return None
        if name in ('any', 'all') and len(args) == 1 and not kwargs and isinstance(args[0], (list, tuple)) \
                and all(isinstance(v, bool) for v in args[0]):
            return any(args[0]) if name == 'any' else all(args[0])
        if name == 'int' and len(args) == 1 and not kwargs and isinstance(args[0], int) and not isinstance(args[0], bool):
            return args[0]
        if name == 'len' and len(args) == 1 and isinstance(args[0], (set, frozenset)):
            return len(args[0])
        return super().builtin(n, name, args, kwargs)

    def eval(self, n, env):
        if isinstance(n, ast.Name) and n.id in ('any', 'all') and n.id not in env:
            return Builtin(n.id)
        return super().eval(n, env)

    def attribute(self, n, env):
        if isinstance(n.value, ast.Name) or isinstance(n.value, ast.Attribute):
            base = self.eval(n.value, env)
            if isinstance(base, list) and n.attr == 'extend':
                return ('%lextend', base)
        return super().attribute(n, env)

    def binop(self, node, op, a, b):
        # (n,k) tensor ** int: column-wise
        if op is ast.Pow and isinstance(a, Matrix):
            if not (isinstance(b, int) and not isinstance(b, bool) and b >= 0):
                self.err(node, 'exponent must be a non-negative integer')
            return Matrix([('pow', c, b) for c in a.cols])
        return super().binop(node, op, a, b)

    def apply(self, n, f, args, kwargs):
        # self._helper(...) / obj._helper(...) where _helper is a @staticmethod of the class: the instance is
        # not passed (pyfront's BoundMethod would prepend it); the body is interpreted like any other method
        if isinstance(f, BoundMethod) and _is_static(f.func_node):
            return self.call_function(f.func_node, list(args), kwargs, {}, owner=f.owner)
        if isinstance(f, tuple) and f and f[0] == '%lextend':
            if len(args) != 1 or kwargs or not isinstance(args[0], (list, tuple)):
                self.err(n, 'list.extend(<concrete sequence>) expected')
            f[1].extend(list(args[0]))
            return None
        return super().apply(n, f, args, kwargs)


def flag(v):
    return ('cst', 1 if isinstance(v, TPar) else 0)


def sin_fwd(I):
    o = I.instantiate('SinActv')
    return I.call_method(o, 'forward', V('x'))


def swish(trainable, what):
    def b(I):
        o = I.instantiate('Swish', beta=P('beta'), trainable=trainable)
        if what == 'flags':
            return [flag(o.attrs['beta'])]
        return I.call_method(o, 'forward', V('x'))
    return b


def aptx(trainable, what):
    def b(I):
        o = I.instantiate('APTx', alpha=P('alpha'), beta=P('beta'), gamma=P('gamma'), trainable=trainable)
        if what == 'flags':
            return [flag(o.attrs['alpha']), flag(o.attrs['beta']), flag(o.attrs['gamma'])]
        return I.call_method(o, 'forward', V('x'))
    return b


def monomial(degrees, width):
    def b(I):
        o = I.instantiate('MonomialNN', degrees)
        return I.call_method(o, 'forward', Matrix([V(f'x{j}') for j in range(width)]))
    return b


def canon_ids(objs):
    """Module identity pattern: number the distinct objects by first appearance."""
    seen = {}
    return [seen.setdefault(id(o), len(seen)) for o in objs]


def module_ids(cls, hidden):
    """Target builder: the identity pattern of the modules of the Sequential as constant terms."""
    def b(I):
        o = I.instantiate(cls, n_input_units=2, n_output_units=3, actv=Builtin('ACTV'), hidden_units=tuple(hidden))
        seq = o.attrs['NN'] if cls == 'FCNN' else o.attrs['residual'].attrs['NN']
        return [('cst', k) for k in canon_ids(seq)]
    return b


MONO = {'Mono_int3_w2': (3, 2), 'Mono_list_w3': ((2, 0, 5), 3), 'Mono_int1_w1': (1, 1), 'Mono_dup_w2': ([4, 1, 4], 2)}

K = dict(interp_cls=NetInterp)
TARGETS = [
    Target('SinActv', F, sin_fwd, leaves=['x'], **K),
    Target('Swish_fixed', F, swish(False, 'fwd'), leaves=['x'], pars=['beta'], **K),
    Target('Swish_trainable', F, swish(True, 'fwd'), leaves=['x'], pars=['beta'], **K),
    Target('APTx_fixed', F, aptx(False, 'fwd'), leaves=['x'], pars=['alpha', 'beta', 'gamma'], **K),
    Target('APTx_trainable', F, aptx(True, 'fwd'), leaves=['x'], pars=['alpha', 'beta', 'gamma'], **K),
    Target('Swish_flags_fixed', F, swish(False, 'flags'), **K),
    Target('Swish_flags_trainable', F, swish(True, 'flags'), **K),
    Target('APTx_flags_fixed', F, aptx(False, 'flags'), **K),
    Target('APTx_flags_trainable', F, aptx(True, 'flags'), **K),
] + [
    Target(name, F, monomial(d, w), leaves=[f'x{j}' for j in range(w)], **K) for name, (d, w) in MONO.items()
] + [
    Target('Mono_reject_empty', F, monomial((), 1), **K),     # the constructor must raise
    # module identity: every appended module (each Linear, each actv() call) is a fresh object
    Target('FCNN_ids_h3', F, module_ids('FCNN', (4, 5, 6)), **K),
    Target('FCNN_ids_h0', F, module_ids('FCNN', ()), **K),
    Target('Resnet_ids_h2', F, module_ids('Resnet', (4, 5)), **K),
]


# ----------------------------------------------------------------------------------------------
# source-level interpretation of the constructors for one concrete configuration

def interp_layers(repo, cls, n_in, n_out, nhu=None, nhl=None, hidden='absent', with_ids=False):
    """Layer descriptors [('L', in, out, bias) | ('A',)] that the *source text* of
    FCNN.__init__ / Resnet.__init__ builds for this configuration (pyfront abstract
    interpretation; the library is not imported).  Returns (layers, skip|None)."""
    I = NetInterp(repo, F)
    kw = dict(n_input_units=n_in, n_output_units=n_out, n_hidden_units=nhu, n_hidden_layers=nhl, actv=Builtin('ACTV'))
    if hidden != 'absent':
        kw['hidden_units'] = hidden
    o = I.instantiate(cls, **kw)
    if cls == 'FCNN':
        out = [l.as_tuple() for l in o.attrs['NN']], None
        return out + (canon_ids(o.attrs['NN']),) if with_ids else out
    res = o.attrs['residual']
    skip = o.attrs['skip_connection']
    if not isinstance(res, Obj) or not isinstance(skip, LayerDesc):
        raise TranslationError(F, 0, 'Resnet: residual / skip_connection are not what the model expects')
    out = [l.as_tuple() for l in res.attrs['NN']], skip.as_tuple()
    return out + (canon_ids(res.attrs['NN']),) if with_ids else out
