#!/venv/bin/python
"""C14 -- BatchGenerator streams samples without loss, duplication or reordering.
Engine B: model coq/model/Batch.v, theorems coq/props/P_C14.v (any number of calls, any sizes),
correspondence of the executable column model (vm_compute inside Coq) with the REAL
BatchGenerator on the same recorded draws, plus the property's own oracle evaluated directly on
the implementation outputs.  DESIGN.md section 7, C14."""
import itertools
import json
import os
import sys

sys.path.insert(0, os.path.join(os.path.dirname(os.path.abspath(__file__)), '..'))
from common import Check, coq_make
from props import t_C14
from harness import enga
from harness import gen_drivers as gd

PREAMBLE = ('From Coq Require Import List ZArith.\nImport ListNotations.\n'
            'From ND.model Require Import Batch.\nLocal Open Scope Z_scope.\n')


# ------------------------------------------------------------------ running one configuration
def run_config(torch, G, SpyLeaf, cfg):
    """cfg: {dims, batch, calls, kind: fixed|varying|filter, n, script, form}
         fixed   : leaf of constant size n
         varying : leaf whose k-th draw has size script[k % len]
         filter  : FilterGenerator(leaf of size n, mask_k) with mask_k = script[k % len] (list of 0/1)
       Returns dict(draws, batches, forms, taken, error)."""
    d, bsz, calls, kind = cfg['dims'], cfg['batch'], cfg['calls'], cfg['kind']
    twin = None
    if kind in ('predefined', 'static'):
        # sources that hand out their OWN persistent storage on every call; `twin` is an identical source nobody consumes
        def mk():
            if kind == 'predefined':
                return G.PredefinedGenerator(*[[float(gd.point_value(0, 0, i, j)) for i in range(cfg['n'])] for j in range(d)])
            return G.StaticGenerator(SpyLeaf(0, d, [cfg['n']], 'list1' if d == 1 else 'list'))
        under, twin = mk(), mk()
    elif kind in ('fixed', 'raising'):
        under = SpyLeaf(0, d, [cfg['n']], cfg.get('form', 'list'))
    elif kind == 'varying':
        under = SpyLeaf(0, d, cfg['script'], cfg.get('form', 'list'))
    else:
        leaf = SpyLeaf(0, d, [cfg['n']], cfg.get('form', 'list'))
        state = {'k': 0}
        script = cfg['script']

        def mask_fn(xs):
            m = script[state['k'] % len(script)]
            state['k'] += 1
            return torch.tensor([bool(b) for b in m], dtype=torch.bool)
        under = G.FilterGenerator(leaf, mask_fn)
    gd.spy_on(under, torch)
    # a guard against runaway histories (a source that became empty makes the real loop spin; a cache aliased with its
    # source doubles on every refill): stop the run, it is reported as a failing history
    spied = under.get_examples
    budget = {'draws': 0}

    def guarded():
        budget['draws'] += 1
        x = spied()
        first = x if isinstance(x, torch.Tensor) else (x[0] if len(x) else None)
        if budget['draws'] > 64 * (bsz + 2) or (first is not None and len(first) > 4096):     # per get_examples() call of the batch generator
            raise RuntimeError('runaway: the batch generator keeps drawing / its source grows without bound')
        return x
    under.get_examples = guarded
    interrupted = []
    if kind == 'raising':
        # the source raises INSTEAD of handing out a draw at the scheduled attempts (attempt 0 = the constructor's draw);
        # the caller catches the exception and carries on calling
        guarded_inner = under.get_examples
        attempts = {'n': 0}
        exc_type = KeyboardInterrupt if cfg.get('exc') == 'KeyboardInterrupt' else SourceError

        def raising():
            k = attempts['n']
            attempts['n'] += 1
            if k in cfg['raise_at']:
                raise exc_type(f'scheduled failure of the source at attempt {k}')
            return guarded_inner()
        under.get_examples = raising
    out = {'draws': under._spy_log, 'batches': [], 'forms': [], 'error': None}
    try:
        bg = G.BatchGenerator(under, bsz)
        for ci in range(calls):
            budget['draws'] = 0
            if kind == 'raising':
                try:
                    x = bg.get_examples()
                except (SourceError, KeyboardInterrupt):
                    interrupted.append(ci)
                    continue
                form, cols = gd.to_cols(x, torch)
                out['batches'].append(cols)
                out['forms'].append(form)
                continue
            form, cols = gd.to_cols(bg.get_examples(), torch)
            out['batches'].append(cols)
            out['forms'].append(form)
    except gd.Malformed as e:
        out['error'] = f'Malformed: {e}'
    except Exception as e:            # canonicalised
        out['error'] = type(e).__name__
    out['taken'] = len(under._spy_log)
    out['interrupted_calls'] = interrupted
    # non-interference: the batch generator must not modify what the source handed out, nor what it hands out later
    out['interference'] = gd.raw_mutated(under._spy_raw, torch)
    if out['interference'] is None and twin is not None and not out['error']:
        want = gd.to_cols(twin.get_examples(), torch)[1]
        got = [c for c in under._spy_log[1:] if not isinstance(c, tuple)] + [gd.to_cols(under.get_examples(), torch)[1]]
        bad = next((i for i, c in enumerate(got) if c != want), None)
        if bad is not None:
            out['interference'] = (f'the {kind} source returned {[len(c) for c in got[bad]]} values per dimension at its draw {bad + 1}; an identical '
                                   f'source that is not consumed by a BatchGenerator returns {[len(c) for c in want]}')
    return out


class SourceError(Exception):
    """an exception of the underlying generator that the caller of the batch generator catches"""


def enumerate_raising():
    """batch size > underlying size (several refills per call); the source fails at one or two scheduled attempts, i.e. during
    the 1st, 2nd, 3rd ... refill of some call; both an ordinary exception and KeyboardInterrupt"""
    i = 0
    for n in (1, 2):
        for b in (3, 4, 5, 7):
            for d in (1, 2):
                sched = [[k] for k in range(1, 9)] + [[2, 3], [2, 6], [3, 4], [4, 9], [1, 5, 6]]
                for ra in sched:
                    i += 1
                    yield {'dims': d, 'batch': b, 'calls': 6, 'kind': 'raising', 'n': n, 'form': 'list', 'raise_at': ra,
                           'exc': 'KeyboardInterrupt' if i % 2 else 'SourceError'}


def cfg_key(cfg):
    return json.dumps(cfg, sort_keys=True)


def short(cfg):
    return f"{cfg['kind']}{'/' + cfg['op'] if 'op' in cfg else ''}/d{cfg['dims']}/n{cfg.get('n')}/b{cfg['batch']}"


# ------------------------------------------------------------------ the property's own oracle
BEST = {}      # failure key -> (cost, cfg, what, expected, actual): the smallest failing history per key


def note_failure(key, cfg, what, exp=None, act=None):
    cost = (cfg['calls'] * cfg['batch'] * cfg['dims'], len(json.dumps(cfg)))
    if key not in BEST or cost < BEST[key][0]:
        BEST[key] = (cost, cfg, what, exp, act)
    BEST.setdefault('#count', {}).setdefault(key, 0)
    BEST['#count'][key] += 1


def flush_failures(ck):
    counts = BEST.pop('#count', {})
    for key, (_, cfg, what, exp, act) in sorted(BEST.items()):
        ck.fail(key, f'{what} [{counts.get(key, 1)} failing histories with this key in this run; smallest shown]', cfg, exp, act)
    ck.extra['oracle_failures_by_key'] = counts
    BEST.clear()


def oracle(ck, cfg, out):
    """Concatenated batches = prefix of the concatenated spied draws (row tuples), every batch has
    exactly `batch` rows in every dimension, one tensor per dimension.  Returns True if it holds."""
    d, bsz = cfg['dims'], cfg['batch']
    key = None
    if out.get('interference'):
        note_failure(f'source-modified/{cfg["kind"]}', cfg, f'BatchGenerator({short(cfg)}, calls={cfg["calls"]}): {out["interference"]}',
                     'objects handed out by the underlying generator are left alone', out['interference'])
    if out['error']:
        note_failure(f'raises/{cfg["kind"]}', cfg, f'BatchGenerator({short(cfg)}) raised {out["error"]} on an admissible history',
                     'batches', out['error'])
        return False
    if any(isinstance(x, tuple) for x in out['draws']):
        note_failure(f'malformed-draw/{cfg["kind"]}', cfg, 'underlying draw malformed', None, str(out['draws'][:2]))
        return False
    try:
        drawn = [r for c in out['draws'] for r in gd.rows_of(c)]
    except gd.Malformed as e:
        note_failure(f'malformed-draw/{cfg["kind"]}', cfg, str(e))
        return False
    delivered = []
    for i, (cols, form) in enumerate(zip(out['batches'], out['forms'])):
        if len(cols) != d or (form == 'tensor') != (d == 1):
            key, what, exp, act = 'dims', f'call {i}: batch has {len(cols)} dimension(s) in form {form}, expected {d}', d, len(cols)
            break
        lens = [len(c) for c in cols]
        if any(n != bsz for n in lens):
            key, what, exp, act = 'batch-size', f'call {i}: batch lengths per dimension {lens}, requested batch size {bsz}', bsz, lens
            break
        delivered += gd.rows_of(cols)
    if key is None and delivered != drawn[:len(delivered)]:
        j = next((i for i, (a, b) in enumerate(zip(delivered, drawn)) if a != b), min(len(delivered), len(drawn)))
        key = 'prefix'
        what = (f'concatenated batches are not a prefix of the concatenated draws: delivered row {j} is '
                f'{delivered[j] if j < len(delivered) else None} (call {j // bsz}), the draws have '
                f'{drawn[j] if j < len(drawn) else None} there')
        exp, act = [list(r) for r in drawn[max(0, j - 1):j + 3]], [list(r) for r in delivered[max(0, j - 1):j + 3]]
        if cfg['kind'] == 'raising':
            what += f' (the source raised {cfg.get("exc")} at attempts {cfg["raise_at"]}; calls {out.get("interrupted_calls")} were interrupted and the caller carried on)'
    if key is None:
        # rows intact: the coordinates of one delivered row decode to one (call, row) of the source
        for r in delivered:
            ids = {(gd.decode_value(v)['call'], gd.decode_value(v)['row']) for v in r}
            dims = [gd.decode_value(v)['dim'] for v in r]
            if len(ids) != 1 or dims != list(range(d)):
                key, what, exp, act = 'row-split', f'a delivered row mixes coordinates of different points: {r}', None, list(r)
                break
    if key is None:
        return True
    note_failure(f'{key}/{cfg["kind"]}', cfg, f'BatchGenerator({short(cfg)}, calls={cfg["calls"]}): {what}', exp, act)
    return False


def coq_case(cfg, out):
    fuel = out['taken'] + 2
    return (cfg_key(cfg),
            f'batch_case {fuel}%nat {cfg["batch"]}%nat {len(out["batches"])}%nat {gd.zcols_list(out["draws"])} '
            f'{gd.zcols_list(out["batches"])} {out["taken"]}%nat')


# ------------------------------------------------------------------ a BatchGenerator as an OPERAND of the combinators
OPERAND_OPS = ('add', 'radd', 'mul', 'xor', 'concat', 'ensemble', 'mesh', 'transform', 'filter', 'resample', 'sampler', 'static')


class _Identity:
    def randperm(self, n):
        return list(range(n))

    def randint(self, high, size):
        return [i % max(high, 1) for i in range(size)]


def run_operand(torch, G, SpyLeaf, cfg):
    """cfg: {kind:'operand', op, dims, n, batch, calls, m}.  A spied source S, bg = BatchGenerator(S, batch), then a
    combinator built over bg (infix operator or constructor).  Returns the source's draws, how many were taken when bg /
    the composite were constructed, and the part of every composite result that comes from bg."""
    d, b, n, calls, op, m = cfg['dims'], cfg['batch'], cfg['n'], cfg['calls'], cfg['op'], cfg.get('m', 3)
    src = SpyLeaf(0, d, [n], 'list')
    gd.spy_on(src, torch)
    out = {'draws': src._spy_log, 'batches': [], 'error': None, 'taken_bg': None, 'taken_ctor': None}
    try:
        with gd.scripted_rng(torch, _Identity()):
            bg = G.BatchGenerator(src, b)
            out['taken_bg'] = len(src._spy_log)
            od = d if op in ('add', 'radd', 'concat') else 1
            other = SpyLeaf(1, od, [b if op in ('mul', 'ensemble') else m], 'list')
            comp = {'add': lambda: bg + other, 'radd': lambda: other + bg, 'mul': lambda: bg * other, 'xor': lambda: bg ^ other,
                    'concat': lambda: G.ConcatGenerator(bg, other), 'ensemble': lambda: G.EnsembleGenerator(bg, other),
                    'mesh': lambda: G.MeshGenerator(bg, other),
                    'transform': lambda: G.TransformGenerator(bg, transform=lambda *xs: xs[0] if len(xs) == 1 else xs),
                    'filter': lambda: G.FilterGenerator(bg, lambda xs: torch.ones(len(xs[0]), dtype=torch.bool)),
                    'resample': lambda: G.ResampleGenerator(bg), 'sampler': lambda: G.SamplerGenerator(bg),
                    'static': lambda: G.StaticGenerator(bg)}[op]()
            out['taken_ctor'] = len(src._spy_log)
            for _ in range(calls):
                _, cols = gd.to_cols(comp.get_examples(), torch, two_d=(op == 'sampler'))
                if op in ('add', 'concat'):
                    part = [c[:len(c) - m] for c in cols]
                elif op == 'radd':
                    part = [c[m:] for c in cols]
                elif op in ('mul', 'ensemble'):
                    part = cols[:d]
                elif op in ('xor', 'mesh'):
                    part = [cols[0][::m]]
                else:
                    part = cols
                out['batches'].append(part)
    except gd.Malformed as e:
        out['error'] = f'Malformed: {e}'
    except Exception as e:
        out['error'] = type(e).__name__
    out['taken'] = len(src._spy_log)
    return out


def oracle_operand(cfg, out):
    op, b, n = cfg['op'], cfg['batch'], cfg['n']
    name = f'{op}(BatchGenerator(S[{n}x{cfg["dims"]}], {b}))'
    if out['error']:
        note_failure(f'operand-raises/{op}', cfg, f'{name} raised {out["error"]}', 'batches', out['error'])
        return False
    # draws taken at construction: the batch generator's own first draw, nothing for the (lazy) combinators,
    # one whole batch for a StaticGenerator
    want_ctor = 1
    if op == 'static':
        have = n
        while have < b:
            have += n
            want_ctor += 1
    if out['taken_bg'] != 1 or out['taken_ctor'] != want_ctor:
        note_failure(f'operand-construction/{op}', cfg,
                     f'{name}: {out["taken_ctor"]} draw(s) had been taken from the source when the composite was constructed '
                     f'({out["taken_bg"]} by the BatchGenerator itself), expected {want_ctor}: constructing a combinator must not sample its operands',
                     want_ctor, out['taken_ctor'])
        return False
    try:
        drawn = [r for c in out['draws'] for r in gd.rows_of(c)]
        got = [gd.rows_of(p) for p in out['batches']]
    except gd.Malformed as e:
        note_failure(f'operand-stream/{op}', cfg, f'{name}: {e}', None, None)
        return False
    for i, rows in enumerate(got):
        want = drawn[:b] if op == 'static' else drawn[i * b:(i + 1) * b]
        if rows != want:
            note_failure(f'operand-stream/{op}', cfg,
                         f'{name}, call {i}: the rows delivered through the composite are {[list(r) for r in rows[:4]]}..., the '
                         f'{"first batch" if op == "static" else "stream"} of the underlying draws (starting with the FIRST draw) has {[list(r) for r in want[:4]]}...',
                         [list(r) for r in want[:6]], [list(r) for r in rows[:6]])
            return False
    return True


def enumerate_operands():
    for op in OPERAND_OPS:
        for n in (1, 3, 8):
            for b in (1, 2, 5, 9):
                for d in ((1,) if op in ('xor', 'mesh') else (1, 2)):
                    yield {'kind': 'operand', 'op': op, 'dims': d, 'n': n, 'batch': b, 'calls': 3, 'm': 3}


def explore_operands(ck, torch, G, SpyLeaf, cfgs, dist):
    for cfg in cfgs:
        out = run_operand(torch, G, SpyLeaf, cfg)
        ok = oracle_operand(cfg, out)
        dist[f'operand/{cfg["op"]}'] = dist.get(f'operand/{cfg["op"]}', 0) + 1
        ck.add_case(cfg_key(cfg))
        ck.traces += len(out['batches'])
        if cfg['n'] == 3 and cfg['batch'] == 2 and cfg['dims'] == 1 and cfg['op'] in ('add', 'static') and len(ck.samples) < 10:
            ck.sample({'config': cfg, 'draws_at_construction': out['taken_ctor'], 'delivered_through_composite': out['batches'][:2], 'oracle_ok': ok})


# ------------------------------------------------------------------ input generation
def enumerate_fixed(calls, full):
    """bounded-exhaustive: underlying sizes 1..8 x batch sizes 1..20 x dims 1..3"""
    for n in range(1, 9):
        for b in range(1, 21):
            for d in ((1, 2, 3) if full else (1 + (n + b) % 3,)):
                yield {'dims': d, 'batch': b, 'calls': calls, 'kind': 'fixed', 'n': n, 'form': ['list', 'tuple'][(n + b + d) % 2]}


def enumerate_varying(length, bmax):
    """bounded-exhaustive: all size sequences over {1,2,3}^length (cycled), batch 1..bmax"""
    i = 0
    for seq in itertools.product((1, 2, 3), repeat=length):
        for b in range(1, bmax + 1):
            i += 1
            yield {'dims': 1 + i % 3, 'batch': b, 'calls': 2 * length, 'kind': 'varying', 'n': seq[0], 'script': list(seq),
                   'form': 'list'}


def enumerate_persistent():
    """sources that return their own storage: PredefinedGenerator, StaticGenerator over a list-returning leaf"""
    for kind in ('predefined', 'static'):
        for n in (1, 2, 3, 5, 8):
            for b in (1, 2, 3, 5, 9):
                for d in (1, 2, 3):
                    yield {'dims': d, 'batch': b, 'calls': 4, 'kind': kind, 'n': n, 'form': 'list'}


def random_config(r, max_rows):
    d = r.randint(1, 3)
    b = r.randint(1, 8) if r.random() < 0.5 else r.randint(1, 20)
    calls = r.randint(1, 40)
    while b * calls > max_rows:
        calls = max(1, calls // 2)
    kind = r.choice(['fixed', 'varying', 'varying', 'filter', 'filter', 'predefined', 'static'])
    n = r.randint(1, 8)
    cfg = {'dims': d, 'batch': b, 'calls': calls, 'kind': kind, 'n': n, 'form': r.choice(['list', 'tuple'])}
    if kind == 'varying':
        cfg['script'] = [r.randint(1, 8) for _ in range(r.randint(2, 9))]
        cfg['n'] = cfg['script'][0]
    elif kind == 'filter':
        script = []
        for _ in range(r.randint(2, 7)):
            m = [int(r.random() < 0.6) for _ in range(n)]
            if not any(m) and r.random() < 0.8:      # mostly non-empty draws; a few empty ones on purpose
                m[r.randrange(n)] = 1
            script.append(m)
        if not any(any(m) for m in script):
            script[0][0] = 1                          # never an always-empty source (outside the property)
        cfg['script'] = script
    return cfg


def classify(cfg, out):
    sizes = [len(c[0]) if c else 0 for c in out['draws'] if not isinstance(c, tuple)]
    rel = 'batch<min' if cfg['batch'] < min(sizes or [0]) else ('batch>max' if cfg['batch'] > max(sizes or [0]) else 'batch~size')
    return f"{cfg['kind']}/d{cfg['dims']}/{rel}" + ('/empty-draws' if 0 in sizes else '')


# ------------------------------------------------------------------ main
def explore(ck, torch, G, SpyLeaf, cfgs, dist, coq=True):
    cases = []
    for cfg in cfgs:
        out = run_config(torch, G, SpyLeaf, cfg)
        ok = oracle(ck, cfg, out)
        cls = classify(cfg, out)
        dist[cls] = dist.get(cls, 0) + 1
        # non-trivial: at least one refill happened after construction or a remainder was carried over
        ck.add_case(cfg_key(cfg), nontrivial=out['taken'] >= 2)
        if not out['error']:
            ck.traces += len(out['batches'])
            if coq:
                cases.append(coq_case(cfg, out))
        if len(ck.samples) < 6 and cfg['calls'] <= 6 and cfg['batch'] <= 5 and (len(ck.samples) % 2 == 0) == (cfg['kind'] == 'fixed'):
            ck.sample({'config': cfg, 'draws': out['draws'][:4], 'batches': out['batches'][:4], 'draws_taken': out['taken'], 'oracle_ok': ok})
    return cases


def main():
    ck = Check('C14')
    ck.rule = ('a case = one history of a real BatchGenerator: (underlying kind fixed | varying-size leaf | FilterGenerator with '
               'per-draw masks | PredefinedGenerator | StaticGenerator, the last two handing out their own storage and checked for '
               'non-interference against an unconsumed twin) x underlying sizes x batch size x dims x number of calls, over a spying source whose points are '
               'identifiable integers ((call*16+row)*4+dim); bounded-exhaustive over sizes 1..8 x batch 1..20 (x dims 1..3 in the '
               'thorough tier) with 12 calls and over all cycled size sequences in {1,2,3}^L, random beyond (up to 40 calls); '
               'distinct = distinct configuration; non-trivial = at least one refill after construction')
    ck.step_hygiene()
    # regenerate coq/gen/Gen_C14.v from BatchGenerator's source (fail-closed translator), then re-check the theorems,
    # among them the equality of the generated step functions with the model
    ok, info = t_C14.setup_generate()
    ck.extra['generated'] = {k: info.get(k) for k in ('lines', 'loop', 'changed')} if ok else None
    if ok:
        proved = ck.step_prove('P_C14')
    else:
        ck.broke('translator-refusal', f'Gen_C14:{info.get("target")}', info['error'])
        proved = False
    model_ok = proved or coq_make(['model/Batch.vo'])[0]      # the correspondence needs the model only
    torch = enga.import_repo()
    from neurodiffeq import generators as G
    SpyLeaf = gd.make_leaf_class(torch, G.BaseGenerator)
    dist = {}

    if ck.replay:
        rp = json.load(open(ck.replay))
        cfg = rp.get('input')
        if isinstance(cfg, dict) and cfg.get('kind') == 'operand':
            explore_operands(ck, torch, G, SpyLeaf, [cfg], dist)
        elif isinstance(cfg, dict) and 'batch' in cfg:
            out = run_config(torch, G, SpyLeaf, cfg)
            ok = oracle(ck, cfg, out)
            ck.add_case(cfg_key(cfg))
            ck.sample({'replayed': cfg, 'oracle_ok': ok, 'batches': out['batches'][:4]})
            bad = ck.step_cases('replay', PREAMBLE, [coq_case(cfg, out)]) if (not out['error'] and model_ok) else []
            for lbl in bad:
                ck.broke('correspondence-broken', 'cases:replay', f'model and implementation differ on {lbl}')
        ck.extra['input_distribution'] = {'replay': 1}
        flush_failures(ck)
        ck.finish(trusted_extra=TRUSTED, assumptions=ASSUME)

    th = ck.thorough()
    r = ck.rng('random')
    cases = []
    cases += explore(ck, torch, G, SpyLeaf, enumerate_fixed(12, full=th), dist)
    if not th:   # quick: the remaining dims of the exhaustive grid go through the implementation oracle only
        explore(ck, torch, G, SpyLeaf, (c for c in enumerate_fixed(12, True) if c['dims'] != 1 + (c['n'] + c['batch']) % 3), dist, coq=False)
    cases += explore(ck, torch, G, SpyLeaf, enumerate_varying(5 if th else 3, 6 if th else 5), dist)
    cases += explore(ck, torch, G, SpyLeaf, enumerate_persistent(), dist)
    explore_operands(ck, torch, G, SpyLeaf, enumerate_operands(), dist)
    explore(ck, torch, G, SpyLeaf, enumerate_raising(), dist, coq=False)     # exceptions are outside the Coq model: oracle only
    cases += explore(ck, torch, G, SpyLeaf, (random_config(r, 240) for _ in range(2000 if th else 150)), dist)
    # long histories (up to 40 calls x batch 20): implementation oracle on all, Coq on a sample
    long_cfgs = [random_config(r, 800) for _ in range(8000 if th else 400)]
    cases += explore(ck, torch, G, SpyLeaf, long_cfgs[:60 if th else 12], dist)
    explore(ck, torch, G, SpyLeaf, long_cfgs[60 if th else 12:], dist, coq=False)
    ck.extra['exhaustive'] = True
    ck.extra['exhaustive_note'] = ('fixed sizes 1..8 x batch 1..20 x dims 1..3 x 12 calls enumerated completely on the implementation '
                                   '(Coq correspondence on all of them in the thorough tier, one dims per pair in quick); '
                                   'varying size sequences {1,2,3}^%d x batch 1..%d completely' % ((5, 6) if th else (3, 5)))

    if model_ok:
        bad = ck.step_cases('corr', PREAMBLE, cases, shard=120)
        for lbl in bad[:2]:
            cfg = json.loads(lbl)
            out = run_config(torch, G, SpyLeaf, cfg)
            fuel = out['taken'] + 2
            model = ck.step_eval('diag', PREAMBLE, [
                f'option_map fst (crun Z (stream {gd.zcols_list(out["draws"])}) {fuel}%nat {cfg["batch"]}%nat '
                f'{min(len(out["batches"]), 4)}%nat (cinit Z (stream {gd.zcols_list(out["draws"])})))'])
            ck.broke('correspondence-broken', 'cases:corr:' + short(cfg),
                     f'column model and BatchGenerator differ on {lbl}: model first batches {model[:1]} impl {out["batches"][:4]} taken {out["taken"]}')
    ck.extra['coq_cases'] = len(cases)

    if ck.broken and not BEST:
        # search: widen the implementation oracle (more random histories, and the grid with more calls)
        ck.notes.append('search: after a broken obligation the implementation oracle was re-run on 6000 more random histories '
                        'and the exhaustive grid with 25 calls')
        rs = ck.rng('search')
        explore(ck, torch, G, SpyLeaf, (random_config(rs, 800) for _ in range(6000)), dist, coq=False)
        explore(ck, torch, G, SpyLeaf, enumerate_fixed(25, True), dist, coq=False)
    ck.extra['input_distribution'] = dict(sorted(dist.items()))
    flush_failures(ck)
    ck.finish(trusted_extra=TRUSTED, assumptions=ASSUME)


TRUSTED = ['coq/model/Batch.v is a hand-written model of BatchGenerator.__init__/get_examples; coq/gen/Gen_C14.v is regenerated from the '
           'source on every run by the fail-closed translator tools/props/t_C14.py + tools/harness/gen_pyast.py and PROVED equal to the model '
           '(C14_gen_*); the translator and coq/model/PySem.v (meaning of the accepted Python/torch operations) are trusted, and tied to '
           'the running code by the in-kernel correspondence cases and the implementation-level oracle on every run',
           'modelled not verified: torch.cat = list append, x[:n] / x[n:] = firstn / skipn, len(x) = length',
           'tools/harness/gen_drivers.py (spying leaves, canonicalisation to integer columns)']
ASSUME = ['the underlying generator returns one vector per dimension, all of one length per draw (wf_cols), at least one dimension',
          'termination is claimed for sources whose draws are non-empty (an always-empty source makes the real loop spin: '
          'C14_empty_source_diverges); batch sizes are naturals',
          'the underlying generator is an arbitrary stream of draws (oracle), fixed or varying in size']


if __name__ == '__main__':
    main()
