#!/venv/bin/python
"""C10 — bundle conditions hold per sample for parameters routed by the lookup table.  Engine A.
DESIGN.md section 7, C10."""
import os
import sys
import warnings

sys.path.insert(0, os.path.join(os.path.dirname(os.path.abspath(__file__)), '..'))
from common import Check
from pyfront import ir
from props.t_C10 import TARGETS, IVP_MODES, BVP_MODES, TH, M
from harness import enga
from harness.probes import Probe, make_net, dy


def run_cases(ck, res, n_cases, n_interval, exhaustive=False):
    torch = enga.import_repo()
    from neurodiffeq import conditions as C
    from neurodiffeq.neurodiffeq import safe_diff
    r = ck.rng('cases')
    modes = [('ivp', n, lk, pa) for n, (lk, pa) in enumerate(IVP_MODES)] + [('bvp', n, lk, None) for n, lk in enumerate(BVP_MODES)]
    if not exhaustive:
        modes = r.sample(modes, min(n_cases, len(modes)))
    goals, dist = [], {'ivp': 0, 'bvp': 0, 'names_in_lookup': {}}
    for ci, (kind, n, lk, pa) in enumerate(modes):
        nrows = 4
        attrs = {'t_0': dy(r, -2, 2), 'u_0': dy(r, -3, 3), 'u_0_prime': dy(r, -3, 3), 'u_1': dy(r, -3, 3)}
        attrs['t_1'] = attrs['t_0'] + r.choice([-1, 1]) * (dy(r, 0, 2) + 0.25)
        cols = [[dy(r, -2, 2) for _ in range(nrows)] for _ in range(M)]
        if 't_1' in lk and 't_0' in lk:
            # keep t_1(row) != t_0(row)
            cols[lk['t_1']] = [a + r.choice([-1, 1]) * (dy(r, 0, 2) + 0.25) for a in cols[lk['t_0']]]
        elif 't_1' in lk:
            cols[lk['t_1']] = [attrs['t_0'] + r.choice([-1, 1]) * (dy(r, 0, 2) + 0.25) for _ in range(nrows)]
        elif 't_0' in lk and kind == 'bvp':
            cols[lk['t_0']] = [attrs['t_1'] + r.choice([-1, 1]) * (dy(r, 0, 2) + 0.25) for _ in range(nrows)]
        # every 7th case: the FIRST bundle column is an integer-dtype tensor (a mode number, an integer initial value); the
        # constructor parameters keep their own (float) values whatever the dtype of a sibling column
        int_col0 = ci % 7 == 3 and not ('t_1' in lk and lk['t_1'] == 0) and not ('t_0' in lk and lk['t_0'] == 0)
        if int_col0:
            cols[0] = [float(r.randint(-3, 3)) for _ in range(nrows)]
        rowval = lambda name, i: cols[lk[name]][i] if name in lk else attrs[name]
        # rows: row 0 at t = t_0(row), row 1 at t = t_1(row) (bvp) else random
        ts = [rowval('t_0', 0), rowval('t_1', 1) if kind == 'bvp' else dy(r, -2, 2, 4), dy(r, -2, 2, 4), dy(r, -2, 2, 4)]
        net_p = Probe(1 + M, r, nterms=2)
        net = make_net([net_p])
        # a sixth of the conditions are built with the documented DEPRECATED spellings (bundle_conditions=, x_0=, positional
        # arguments with an omitted u_0_prime): the lookup table must reach the condition unchanged through the renaming decorator
        spelling = 'deprecated' if ci % 6 == 5 else ('positional' if ci % 6 == 2 else 'new')
        try:
            with warnings.catch_warnings():
                warnings.simplefilter('ignore')
                if kind == 'ivp' and spelling == 'deprecated':
                    if pa:
                        cond = C.BundleIVP(attrs['t_0'], x_0=attrs['u_0'], x_0_prime=attrs['u_0_prime'], bundle_conditions=dict(lk))
                    else:
                        cond = C.BundleIVP(attrs['t_0'], attrs['u_0'], bundle_conditions=dict(lk))
                elif kind == 'ivp' and spelling == 'positional':    # documented order (t_0, u_0, u_0_prime, bundle_param_lookup)
                    cond = C.BundleIVP(attrs['t_0'], attrs['u_0'], attrs['u_0_prime'] if pa else None, dict(lk))
                elif spelling == 'positional':                        # (t_0, u_0, t_1, u_1, bundle_param_lookup)
                    cond = C.BundleDirichletBVP(attrs['t_0'], attrs['u_0'], attrs['t_1'], attrs['u_1'], dict(lk))
                elif kind == 'ivp':
                    cond = C.BundleIVP(t_0=attrs['t_0'], u_0=attrs['u_0'], u_0_prime=attrs['u_0_prime'] if pa else None, bundle_param_lookup=dict(lk))
                elif spelling == 'deprecated':
                    cond = C.BundleDirichletBVP(attrs['t_0'], attrs['u_0'], attrs['t_1'], attrs['u_1'], bundle_conditions=dict(lk))
                else:
                    cond = C.BundleDirichletBVP(t_0=attrs['t_0'], u_0=attrs['u_0'], t_1=attrs['t_1'], u_1=attrs['u_1'], bundle_param_lookup=dict(lk))
            T = enga.col(torch, ts)
            THS = [enga.col(torch, c) for c in cols]
            if int_col0:
                THS[0] = torch.tensor([[int(v)] for v in cols[0]], dtype=torch.int64)
            u = cond.enforce(net, T, *THS)
            du = safe_diff(u, T)
        except Exception as e:
            ck.fail(f'{kind}/raises', f'bundle condition raised {type(e).__name__}: {e}', {'kind': kind, 'lookup': lk, 'attrs': attrs})
            continue
        uv = [float(x) for x in u.detach().reshape(-1)]
        dv = [float(x) for x in du.detach().reshape(-1)]
        inp = {'kind': kind, 'lookup': lk, 'prime_attr': pa, 'attrs': attrs, 'columns': cols, 't': ts, 'net': net_p.describe(), 'constructor_spelling': spelling, 'integer_first_column': int_col0}
        scale = 1 + max(abs(x) for x in uv)
        # ---- the property's oracle
        if not enga.close(uv[0], rowval('u_0', 0), scale, rel=enga.EXACT):
            ck.fail(f'{kind}/value@t0', f'bundle {kind}: value at t = t_0(row) is {uv[0]!r}, that row prescribes u_0 = {rowval("u_0", 0)!r}', inp,
                    expected=rowval('u_0', 0), actual=uv[0])
        if kind == 'ivp' and ('u_0_prime' in lk or pa) and not enga.close(dv[0], rowval('u_0_prime', 0), scale * 4, rel=enga.EXACT):
            ck.fail('ivp/deriv@t0', f'bundle ivp: derivative at t = t_0(row) is {dv[0]!r}, that row prescribes {rowval("u_0_prime", 0)!r}', inp,
                    expected=rowval('u_0_prime', 0), actual=dv[0])
        if kind == 'bvp' and not enga.close(uv[1], rowval('u_1', 1), scale, rel=enga.EXACT):
            ck.fail('bvp/value@t1', f'bundle bvp: value at t = t_1(row) is {uv[1]!r}, that row prescribes u_1 = {rowval("u_1", 1)!r}', inp,
                    expected=rowval('u_1', 1), actual=uv[1])
        # columns not named in the table never influence the constraint: perturb them, boundary rows unchanged
        unused = [j for j in range(M) if j not in lk.values()]
        if unused:
            cols2 = [list(c) for c in cols]
            for j in unused:
                cols2[j] = [v + 1.5 for v in cols2[j]]
            u2 = cond.enforce(net, enga.col(torch, ts), *[enga.col(torch, c) for c in cols2])
            u2v = [float(x) for x in u2.detach().reshape(-1)]
            if not enga.close(u2v[0], uv[0], scale) or (kind == 'bvp' and not enga.close(u2v[1], uv[1], scale)):
                ck.fail(f'{kind}/unused-column-influences', 'changing a column not named in the lookup changed the constrained value', inp)
        dist[kind] += 1
        key = ','.join(sorted(lk))
        dist['names_in_lookup'][key] = dist['names_in_lookup'].get(key, 0) + 1
        ck.add_case((kind, n))
        if len(ck.samples) < 6:
            ck.sample({'kind': kind, 'lookup': lk, 'prime_attr': pa, 'attrs': attrs, 't': ts, 'impl_u': uv[:2]})
        tname = f'{kind}_{n}'
        if res is None or 'terms' not in res.get(tname, {}):
            continue
        term = res[tname]['terms'][0]
        dterm = ('D', 't', term)
        for i in range(nrows):
            venv = {'t': ts[i]}
            venv.update({TH[j]: cols[j][i] for j in range(M)})
            mu, md = ir.feval(term, venv, attrs, {'N': net_p.jet}), ir.feval(dterm, venv, attrs, {'N': net_p.jet})
            ck.traces += 1
            if not enga.close(mu, uv[i], scale) or not enga.close(md, dv[i], scale * 4):
                ck.broke('correspondence-broken', f'pyfront:{tname}', f'row {i}: model ({mu!r},{md!r}) impl ({uv[i]!r},{dv[i]!r}) input {inp}')
                break
        if len(goals) < n_interval:
            venv = {'t': ts[2]}
            venv.update({TH[j]: cols[j][2] for j in range(M)})
            goals.append(enga.interval_goal(f'{tname}', term, venv, attrs, {'N': net_p}, uv[2], scale,
                                            gen=('Gen_C10', tname, 'term'), names=res[tname]['names']))
    for cls, lk in ((C.BundleIVP, {'t_1': 0}), (C.BundleDirichletBVP, {'u_0_prime': 0})):
        ck.add_case(('reject', cls.__name__))
        try:
            cls(t_0=0.0, u_0=0.0, **({'t_1': 1.0, 'u_1': 0.0} if cls is C.BundleDirichletBVP else {}), bundle_param_lookup=lk)
            ck.fail('lookup/illegal-name-accepted', f'{cls.__name__} accepted the illegal lookup name {list(lk)[0]}', {'lookup': lk})
        except ValueError:
            pass
    ck.extra['input_distribution'] = dist
    return goals


def main():
    ck = Check('C10')
    ck.rule = ('modes = every subset of {t_0,u_0,u_0_prime} resp. {t_0,u_0,t_1,u_1} x every injective index assignment among 4 extra '
               'columns x constructor u_0_prime given/None (110 + 251 lookup tables, incl. non-injective ones where two names share a column; quick: a seeded sample, thorough: all); per mode: '
               'per-row parameter columns, 4 rows incl. t = t_0(row) and t = t_1(row), probe network of 5 inputs; distinct = distinct lookup table')
    ck.step_hygiene()
    res = ck.step_generate('Gen_C10', TARGETS)
    if res is not None:
        ck.step_prove('P_C10')
    goals = run_cases(ck, res, 800 if ck.thorough() else 80, 40 if ck.thorough() else 6, exhaustive=ck.thorough())
    ck.extra['exhaustive'] = ck.thorough()
    if res is not None:
        ck.step_interval_goals('corr', goals)
    if ck.broken and not ck.failures and not ck.thorough():
        ck.notes.append('search: re-ran the implementation oracle on all 361 lookup tables after a broken obligation')
        run_cases(ck, None, 0, 0, exhaustive=True)
    ck.finish(
        trusted_extra=['Interval (interval tactic)', 'modelled not verified: IEEE-754 rounding, torch.autograd (= symbolic D), broadcasting of per-row parameter columns'],
        assumptions=['parameter columns are leaves different from t (their t-derivative is zero)', 't_1(row) <> t_0(row)'])


if __name__ == '__main__':
    main()
