"""pyfront targets for C03 (diff).  unsafe_diff is interpreted for a family of operands and
orders (tied in Coq to a list-generic model of the loop); the shape guard of safe_diff and the
dispatch of diff are translated syntax-directed into Gallina booleans by a small fail-closed
emitter below."""
import ast
import os
from pyfront.gen import Target, RawTarget
from pyfront.interp import TranslationError

F = 'neurodiffeq/neurodiffeq.py'
V = lambda n: ('var', n)


def sym(name, leaves):
    return ('fun', name, tuple(0 for _ in leaves), tuple(('avar', l) for l in leaves))


COLS = ['t', 'x', 'y', 'z']


def operand(kind):
    if kind.startswith('U'):                       # symbol of the first n columns
        return sym('U', COLS[:int(kind[1:])])
    if kind == 'indep':                            # does not depend on t
        return sym('U', ['x', 'y'])
    if kind == 'poly2':                            # t^2 * x + 3 t
        return ('add', ('mul', ('pow', V('t'), 2), V('x')), ('mul', ('cst', 3), V('t')))
    if kind == 'mixed':                            # sin(t x) exp(y) + tanh(t)
        return ('add', ('mul', ('sin', ('mul', V('t'), V('x'))), ('exp', V('y'))), ('tanh', V('t')))
    raise KeyError(kind)


def t_unsafe(kind, order):
    return lambda I: I.call_module_function('unsafe_diff', operand(kind), V('t'), order=order)


def t_nested(I):
    # diff(diff(u, x), y) through the public entry point with shape checking off/on is the same term
    u = sym('U', COLS[:3])
    inner = I.call_module_function('unsafe_diff', u, V('x'))
    return I.call_module_function('unsafe_diff', inner, V('y'))


def t_nested_rev(I):
    u = sym('U', COLS[:3])
    inner = I.call_module_function('unsafe_diff', u, V('y'))
    return I.call_module_function('unsafe_diff', inner, V('x'))


KINDS = ['U1', 'U2', 'U3', 'U4', 'indep', 'poly2', 'mixed']
ORDERS = [1, 2, 3, 4]

TARGETS = [Target(f'ud_{k}_{o}', F, t_unsafe(k, o), leaves=COLS, funs=['U'], meta=f'{o}%nat', group=f'ud_{k}') for k in KINDS for o in ORDERS]
TARGETS += [Target('nested_xy', F, t_nested, leaves=COLS, funs=['U']), Target('nested_yx', F, t_nested_rev, leaves=COLS, funs=['U'])]


# ---------------------------------------------------------------------------------------------
# syntax-directed translation of the shape guard and the dispatch

def _err(node, what):
    raise TranslationError(F, getattr(node, 'lineno', 0), what)


def shape_expr(n, names):
    """u.shape / t.shape -> Gallina variable; len(X.shape) -> length; X.shape[i] -> nth_error"""
    if isinstance(n, ast.Attribute) and n.attr == 'shape' and isinstance(n.value, ast.Name) and n.value.id in names:
        return ('shape', names[n.value.id])
    if isinstance(n, ast.Call) and isinstance(n.func, ast.Name) and n.func.id == 'len' and len(n.args) == 1:
        s = shape_expr(n.args[0], names)
        if s[0] == 'shape':
            return ('nat', f'(List.length {s[1]})')
    if isinstance(n, ast.Subscript):
        s = shape_expr(n.value, names)
        if s[0] == 'shape' and isinstance(n.slice, ast.Constant) and isinstance(n.slice.value, int) and n.slice.value >= 0:
            return ('optnat', f'(nth_error {s[1]} {n.slice.value})')
    if isinstance(n, ast.Constant) and isinstance(n.value, int) and not isinstance(n.value, bool) and n.value >= 0:
        return ('nat', f'{n.value}%nat')
    _err(n, f'shape expression not accepted: {ast.unparse(n)}')


def bool_expr(n, names):
    if isinstance(n, ast.BoolOp):
        op = ' || ' if isinstance(n.op, ast.Or) else ' && '
        return '(' + op.join(bool_expr(v, names) for v in n.values) + ')'
    if isinstance(n, ast.UnaryOp) and isinstance(n.op, ast.Not):
        return f'(negb {bool_expr(n.operand, names)})'
    if isinstance(n, ast.Compare) and len(n.ops) == 1 and isinstance(n.ops[0], (ast.Eq, ast.NotEq)):
        a, b = shape_expr(n.left, names), shape_expr(n.comparators[0], names)
        if a[0] == 'shape' and b[0] == 'shape':
            e = f'(list_eqb Nat.eqb {a[1]} {b[1]})'
        elif a[0] == 'nat' and b[0] == 'nat':
            e = f'(Nat.eqb {a[1]} {b[1]})'
        elif a[0] == 'optnat' and b[0] == 'nat':
            e = f'(match {a[1]} with Some verif_k => Nat.eqb verif_k {b[1]} | None => false end)'
        else:
            _err(n, 'comparison of incompatible shape expressions')
        return e if isinstance(n.ops[0], ast.Eq) else f'(negb {e})'
    _err(n, f'guard expression not accepted: {ast.unparse(n)}')


def emit_guards(repo):
    src = open(os.path.join(repo, F)).read()
    tree = ast.parse(src)
    funcs = {n.name: n for n in tree.body if isinstance(n, ast.FunctionDef)}
    out = ['Module guards.']
    # ---- safe_diff: a sequence of `if <test>: raise ValueError(...)` followed by `return unsafe_diff(u, t, order=order)`
    f = funcs.get('safe_diff')
    if f is None:
        _err(tree, 'safe_diff not found')
    params = [a.arg for a in f.args.args]
    if params[:2] != ['u', 't']:
        _err(f, f'unexpected parameters of safe_diff: {params}')
    names = {'u': 'u_shape', 't': 't_shape'}
    body = [s for s in f.body if not (isinstance(s, ast.Expr) and isinstance(s.value, ast.Constant))]
    tests = []
    for s in body[:-1]:
        if not (isinstance(s, ast.If) and not s.orelse and len(s.body) == 1 and isinstance(s.body[0], ast.Raise)):
            _err(s, 'safe_diff: expected `if <shape test>: raise ...`')
        exc = s.body[0].exc
        if not (isinstance(exc, ast.Call) and isinstance(exc.func, ast.Name) and exc.func.id == 'ValueError'):
            _err(s, 'safe_diff: expected ValueError')
        tests.append(bool_expr(s.test, names))
    last = body[-1]
    ok = (isinstance(last, ast.Return) and isinstance(last.value, ast.Call) and isinstance(last.value.func, ast.Name)
          and last.value.func.id == 'unsafe_diff' and [ast.unparse(a) for a in last.value.args] == ['u', 't']
          and {k.arg: ast.unparse(k.value) for k in last.value.keywords} == {'order': 'order'})
    if not ok:
        _err(last, 'safe_diff: expected `return unsafe_diff(u, t, order=order)`')
    out.append('  (* true = the operands are accepted (no ValueError) *)')
    out.append('  Definition safe_diff_accepts (u_shape t_shape : list nat) : bool :=')
    out.append('    negb (' + ' || '.join(tests) + ').')
    # ---- diff: if shape_check: return safe_diff(u, t, order=order) else: return unsafe_diff(u, t, order=order)
    d = funcs.get('diff')
    body = [s for s in d.body if not (isinstance(s, ast.Expr) and isinstance(s.value, ast.Constant))]
    # accepted shapes (all mean: shape_check -> safe_diff(u, t, order=order), otherwise unsafe_diff(u, t, order=order)):
    #   if T: return A else: return B   |   if T: return A <newline> return B   |   return A if T else B
    # with T = shape_check or `not shape_check`
    def _ret_call(x):
        v = x.value if isinstance(x, ast.Return) else x
        if (isinstance(v, ast.Call) and isinstance(v.func, ast.Name) and [ast.unparse(q) for q in v.args] == ['u', 't']
                and {k.arg: ast.unparse(k.value) for k in v.keywords} == {'order': 'order'}):
            return v.func.id
        return None
    test = then = other = None
    if len(body) == 1 and isinstance(body[0], ast.If) and len(body[0].body) == 1 and len(body[0].orelse) == 1 \
            and isinstance(body[0].body[0], ast.Return) and isinstance(body[0].orelse[0], ast.Return):
        test, then, other = body[0].test, _ret_call(body[0].body[0]), _ret_call(body[0].orelse[0])
    elif len(body) == 2 and isinstance(body[0], ast.If) and len(body[0].body) == 1 and not body[0].orelse \
            and isinstance(body[0].body[0], ast.Return) and isinstance(body[1], ast.Return):
        test, then, other = body[0].test, _ret_call(body[0].body[0]), _ret_call(body[1])
    elif len(body) == 1 and isinstance(body[0], ast.Return) and isinstance(body[0].value, ast.IfExp):
        test, then, other = body[0].value.test, _ret_call(body[0].value.body), _ret_call(body[0].value.orelse)
    if isinstance(test, ast.UnaryOp) and isinstance(test.op, ast.Not):
        test, then, other = test.operand, other, then
    good = isinstance(test, ast.Name) and test.id == 'shape_check' and then == 'safe_diff' and other == 'unsafe_diff'
    if not good:
        _err(d, 'diff: expected `if shape_check: return safe_diff(u, t, order=order) else: return unsafe_diff(u, t, order=order)` (or an equivalent early-return / inverted / conditional-expression form)')
    defaults = {a.arg: ast.unparse(dv) for a, dv in zip(d.args.args[-len(d.args.defaults):], d.args.defaults)}
    out.append('  (* diff(u, t, order, shape_check): true = goes through the shape guard *)')
    out.append('  Definition diff_checks_shape (shape_check : bool) : bool := shape_check.')
    out.append(f'  Definition diff_default_shape_check : bool := {"true" if defaults.get("shape_check") == "True" else "false"}.')
    out.append(f'  Definition diff_default_order : nat := {int(defaults.get("order", "0"))}%nat.')
    out.append('End guards.\n')
    return '\n'.join(out), {'tests': tests}


TARGETS.append(RawTarget('guards', F, emit_guards))
