#!/venv/bin/python
"""C03 — diff returns the exact per-sample k-th partial derivative, differentiably.  Engine A plus
the shape guard translated syntax-directed from safe_diff.  DESIGN.md section 7, C03."""
import itertools
import math
import warnings
import os
import sys

sys.path.insert(0, os.path.join(os.path.dirname(os.path.abspath(__file__)), '..'))
from common import Check
from pyfront import ir
from props.t_C03 import TARGETS, KINDS, ORDERS, operand, COLS
from harness import enga
from harness.probes import Probe, dy


def rand_expr(r, leaves, depth):
    """Random smooth IR term over the given leaves (polynomials, sin/cos/exp/tanh compositions)."""
    if depth == 0 or r.random() < 0.25:
        if r.random() < 0.8:
            return ('var', r.choice(leaves))
        return ir.const(dy(r, -2, 2) or 1.0)
    k = r.choice(['add', 'sub', 'mul', 'pow', 'sin', 'cos', 'exp', 'tanh', 'mul', 'add'])
    if k in ('add', 'sub', 'mul'):
        return (k, rand_expr(r, leaves, depth - 1), rand_expr(r, leaves, depth - 1))
    if k == 'pow':
        return ('pow', rand_expr(r, leaves, depth - 1), r.randint(2, 3))
    if k == 'exp':
        return ('exp', ('mul', ir.const(0.25), rand_expr(r, leaves, depth - 1)))     # keep magnitudes tame
    return (k, rand_expr(r, leaves, depth - 1))


def torch_eval(torch, e, env, probes):
    k = e[0]
    if k == 'var':
        return env[e[1]]
    if k == 'cst':
        return float(e[1])
    if k == 'cstq':
        return e[1] / e[2]
    if k in ('add', 'sub', 'mul'):
        a, b = torch_eval(torch, e[1], env, probes), torch_eval(torch, e[2], env, probes)
        return a + b if k == 'add' else a - b if k == 'sub' else a * b
    if k == 'pow':
        return torch_eval(torch, e[1], env, probes) ** e[2]
    if k in ('sin', 'cos', 'exp', 'tanh'):
        a = torch_eval(torch, e[1], env, probes)
        if not hasattr(a, 'shape'):
            a = torch.tensor(float(a), dtype=torch.float64)
        return getattr(torch, k)(a)
    if k == 'fun':
        return probes[e[1]].torch(*[env[a[1]] for a in e[3]])
    raise ValueError(k)


def run_cases(ck, res, n_cases, n_interval):
    torch = enga.import_repo()
    from neurodiffeq.neurodiffeq import diff, safe_diff, unsafe_diff
    from neurodiffeq.networks import FCNN
    r = ck.rng('cases')
    goals, dist = [], {'orders': {}, 'columns': {}, 'kinds': {}}
    # ---- (1) random expression programs: real diff vs the symbolic derivative of the same expression
    for ci in range(n_cases):
        ncol = r.randint(1, 4)
        leaves = COLS[:ncol]
        order = r.randint(1, 4)
        kind = r.choice(['expr', 'expr', 'probe', 'nested'])
        nrows = r.randint(1, 5)
        pts = {l: [dy(r, -1.5, 1.5, 4) for _ in range(nrows)] for l in leaves}
        if ci % 4 == 3:
            # the whole batch on a coordinate (hyper)plane / at the origin: intermediate derivatives such as d(x*x)/dx = 2x
            # vanish on EVERY row while the operand still depends on x -- the next derivative must not be cut off (C03/i)
            for l in leaves:
                if r.random() < 0.6:
                    pts[l] = [0.0] * nrows
            if all(any(v != 0.0 for v in pts[l]) for l in leaves):
                pts[leaves[0]] = [0.0] * nrows
        env = {l: enga.col(torch, pts[l]) for l in leaves}
        wrt = r.choice(leaves)
        probes = {}
        if kind == 'probe':
            probes['U'] = Probe(ncol, r, nterms=2)
            e = ('fun', 'U', tuple(0 for _ in leaves), tuple(('avar', l) for l in leaves))
        else:
            e = rand_expr(r, leaves, r.randint(1, 3))
        u = torch_eval(torch, e, env, probes)
        if not hasattr(u, 'shape') or not u.requires_grad:
            u = u + 0 * env[wrt]
        inp = {'expr': str(e), 'wrt': wrt, 'order': order, 'points': pts, 'kind': kind}
        try:
            if kind == 'nested':
                w2 = r.choice(leaves)
                got = diff(diff(u, env[wrt]), env[w2], order=order)
                model = ('D', wrt, e)
                for _ in range(order):
                    model = ('D', w2, model)
                inp['wrt2'] = w2
            else:
                fn = r.choice([diff, safe_diff, unsafe_diff])
                got = fn(u, env[wrt], order=order)
                model = e
                for _ in range(order):
                    model = ('D', wrt, model)
        except Exception as ex:
            ck.fail('diff/raises', f'diff raised {type(ex).__name__}: {ex}', inp)
            continue
        gv = [float(v) for v in got.detach().reshape(-1)]
        fenv = {k: p.jet for k, p in probes.items()}
        scale = 1 + max(abs(v) for v in gv)
        dist['orders'][order] = dist['orders'].get(order, 0) + 1
        dist['columns'][ncol] = dist['columns'].get(ncol, 0) + 1
        dist['kinds'][kind] = dist['kinds'].get(kind, 0) + 1
        ck.add_case((str(e), wrt, order, kind, str(pts)))
        if ci < 6:
            ck.sample({'expr': str(e), 'wrt': wrt, 'order': order, 'kind': kind, 'points': pts, 'impl': gv[:3]})
        if tuple(got.shape) != (nrows, 1):
            ck.fail('diff/shape', f'diff returned shape {tuple(got.shape)} for operands of shape ({nrows},1)', inp)
            continue
        for i in range(nrows):
            venv = {l: pts[l][i] for l in leaves}
            mv = ir.feval(model, venv, {}, fenv)
            ck.traces += 1
            if not enga.close(mv, gv[i], scale * 10, rel=1e-8):
                # the symbolic derivative of the expression the user wrote IS the property's oracle
                ck.fail('diff/value', f'diff(order={order}) = {gv[i]!r}, the {order}-th partial derivative of the expression is {mv!r}', dict(inp, row=i), expected=mv, actual=gv[i])
                break
        # differentiable result: one more derivative and a backward pass must work
        try:
            if got.requires_grad:
                got.sum().backward(retain_graph=True)
            else:
                ck.fail('diff/result-not-differentiable', 'diff result does not require grad', inp)
        except Exception as ex:
            ck.fail('diff/backward-raises', f'backward through the diff result raised {type(ex).__name__}', inp)
    # ---- (2) generated targets vs the real unsafe_diff
    for kname in KINDS:
        for order in ORDERS:
            tname = f'ud_{kname}_{order}'
            e = operand(kname)
            probes = {'U': Probe(len(e[3]) if e[0] == 'fun' else 1, r, nterms=2)}
            pts = {l: [dy(r, -1.5, 1.5, 4) for _ in range(3)] for l in COLS}
            env = {l: enga.col(torch, pts[l]) for l in COLS}
            u = torch_eval(torch, e, env, probes)
            got = unsafe_diff(u, env['t'], order=order)
            gv = [float(v) for v in got.detach().reshape(-1)]
            ck.add_case((tname,))
            # `order` given as a 0-dim tensor / numpy scalar array and reused for a second call (a module-level constant): the
            # caller's object must not be consumed, the second call must equal the first
            if order >= 2:
                import numpy as _np
                for okind, oobj in (('torch.tensor', torch.tensor(order)), ('numpy.array', _np.array(order))):
                    try:
                        first = unsafe_diff(u, env['t'], order=oobj)
                        second = unsafe_diff(u, env['t'], order=oobj)
                        ok2 = torch.allclose(first.detach(), got.detach(), rtol=1e-12, atol=1e-12) and torch.allclose(second.detach(), got.detach(), rtol=1e-12, atol=1e-12) \
                            and int(oobj) == order
                    except Exception as ex:
                        ok2 = None      # an order object the implementation refuses is not this property's business
                    if ok2 is False:
                        ck.fail('unsafe_diff/order-object-reused', f'unsafe_diff with order={okind}({order}) passed twice: the second call (or the caller\'s order object) changed',
                                {'operand': kname, 'order': order, 'order_kind': okind, 'points': pts})
            # the documented deprecated spelling `x=` of the first operand must give the same result through all three
            # entry points (the keyword-renaming decorator is assumed to be the identity by the translator; that assumption
            # is checked structurally, and behaviourally here)
            with warnings.catch_warnings():
                warnings.simplefilter('ignore')
                for fn_name, fn in (('unsafe_diff', unsafe_diff), ('safe_diff', safe_diff), ('diff', diff)):
                    try:
                        alt = fn(x=u, t=env['t'], order=order)
                        same = torch.equal(alt.detach(), fn(u, env['t'], order=order).detach())
                    except Exception as ex:
                        same, alt = False, f'{type(ex).__name__}: {ex}'
                    if not same:
                        ck.fail(f'{fn_name}/deprecated-keyword', f'{fn_name}(x=u, t=t, order={order}) differs from {fn_name}(u, t, order={order})',
                                {'operand': kname, 'order': order, 'points': pts}, actual=str(alt)[:200])
            if res is None or 'terms' not in res.get(tname, {}):
                continue
            term = res[tname]['terms'][0]
            for i in range(3):
                venv = {l: pts[l][i] for l in COLS}
                mv = ir.feval(term, venv, {}, {'U': probes['U'].jet})
                ck.traces += 1
                if not enga.close(mv, gv[i], 10 + abs(gv[i]), rel=1e-8):
                    ck.broke('correspondence-broken', f'pyfront:{tname}', f'row {i}: model {mv!r} impl {gv[i]!r}')
                    break
            if len(goals) < n_interval and kname in ('U2', 'mixed', 'poly2') and order <= 2:
                venv = {l: pts[l][0] for l in COLS}
                goals.append(enga.interval_goal(tname, term, venv, {}, probes, gv[0], 10 + abs(gv[0]),
                                                gen=('Gen_C03', tname, 'term'), names=res[tname]['names']))
    # ---- (3) zero for independent operands / above the polynomial degree; network outputs; per-sample
    for ci in range(max(6, n_cases // 10)):
        n = r.randint(2, 6)
        t = enga.col(torch, [dy(r, -2, 2, 4) for _ in range(n)])
        x = enga.col(torch, [dy(r, -2, 2, 4) for _ in range(n)])
        deg = r.randint(0, 3)
        order = deg + r.randint(1, 2)
        p = sum(dy(r, -2, 2) * t ** j for j in range(deg + 1)) * (1 + x)
        if deg == 0:
            p = p + 0 * t
        ck.add_case(('above-degree', deg, order, ci))
        z = diff(p, t, order=order)
        if float(z.abs().max()) > 1e-9:
            ck.fail('diff/above-degree-nonzero', f'diff of a degree-{deg} polynomial at order {order} is not zero', {'deg': deg, 'order': order})
        zi = diff(torch.sin(x) * 2.0, t) if False else unsafe_diff(torch.sin(x) * 2.0, t)
        if float(zi.abs().max()) != 0.0 or tuple(zi.shape) != (n, 1):
            ck.fail('diff/independent-nonzero', 'diff of an operand independent of t is not identically zero', {'n': n})
        torch.manual_seed(r.randrange(10 ** 6))
        net = FCNN(n_input_units=2, n_output_units=1, hidden_units=(r.randint(2, 6),))
        u = net(torch.cat([t, x], dim=1))
        full = diff(u, t, order=2)
        i = r.randrange(n)
        ti, xi = enga.col(torch, [float(t[i])]), enga.col(torch, [float(x[i])])
        single = diff(net(torch.cat([ti, xi], dim=1)), ti, order=2)
        ck.add_case(('per-sample', n, i, ci))
        if not enga.close(float(full[i]), float(single[0]), 1.0):
            ck.fail('diff/not-per-sample', f'row {i} of diff on a batch of {n} differs from diff on that row alone', {'n': n, 'row': i})
    ck.extra['input_distribution'] = dist
    return goals


def shape_cases(ck, res):
    """Exhaustive over ranks 0..3 and sizes {1,2,3}: real safe_diff/diff vs the translated guard,
    evaluated inside Coq."""
    torch = enga.import_repo()
    from neurodiffeq.neurodiffeq import safe_diff, diff
    shapes = [()] + [s for rank in (1, 2, 3) for s in itertools.product((1, 2, 3), repeat=rank)]
    cases = []
    n_acc = 0
    for su in shapes:
        for st in shapes:
            t = torch.ones(st, requires_grad=True)
            if math.prod(su) == math.prod(st):
                u = (t * 2.0).reshape(su)
            else:
                u = torch.ones(su) * t.sum()
            try:
                safe_diff(u, t)
                acc = True
            except ValueError:
                acc = False
            except Exception as e:     # any other exception is not the documented rejection
                acc = None
            exp = len(su) == 2 and su[1] == 1 and su == st
            ck.add_case(('shape', su, st))
            if acc is None or acc != exp:
                ck.fail('safe_diff/shape-guard', f'safe_diff on shapes {su} / {st}: accepted={acc}, the property requires accepted={exp}', {'u_shape': su, 't_shape': st}, expected=exp, actual=acc)
            # every calling style of the shape-checked entry points must apply the same guard: keywords, mixed, and diff()
            for style, call in (('safe_diff(u=u, t=t)', lambda: safe_diff(u=u, t=t)), ('safe_diff(u, t=t)', lambda: safe_diff(u, t=t)),
                                ('diff(u, t)', lambda: diff(u, t)), ('diff(u=u, t=t, shape_check=True)', lambda: diff(u=u, t=t, shape_check=True)),
                                ('safe_diff(t=t, u=u, order=1)', lambda: safe_diff(t=t, u=u, order=1))):
                try:
                    call(); acc2 = True
                except ValueError:
                    acc2 = False
                except Exception:
                    acc2 = None
                if acc2 is None or acc2 != exp:
                    ck.fail('safe_diff/shape-guard/calling-style', f'{style} on shapes {su} / {st}: accepted={acc2}, the property requires accepted={exp}',
                            {'u_shape': su, 't_shape': st, 'call': style}, expected=exp, actual=acc2)
            n_acc += bool(acc)
            lit = lambda s: '[' + '; '.join(f'{d}%nat' for d in s) + ']'
            cases.append((f'{su}/{st}', f'Bool.eqb (guards.safe_diff_accepts {lit(su)} {lit(st)}) {"true" if acc else "false"}'))
    ck.extra['shape_pairs'] = len(cases)
    ck.extra['shape_pairs_accepted'] = n_acc
    if res is not None:
        bad = ck.step_cases('shapes', 'From Coq Require Import List Bool.\nFrom ND.lib Require Import Expr.\nFrom ND.gen Require Import Gen_C03.\nImport ListNotations.', cases)
        for lbl in bad[:5]:
            ck.broke('correspondence-broken', 'guards.safe_diff_accepts', f'translated guard and real safe_diff disagree on shapes {lbl}')


def main():
    ck = Check('C03')
    ck.rule = ('random expression programs (polynomials, sin/cos/exp/tanh compositions, probe fields, FCNN outputs) in 1..4 columns, orders '
               '1..4, nested diff(diff(u,x),y), through diff/safe_diff/unsafe_diff: every row compared with the symbolic derivative of the '
               'same expression; generated operand families x orders vs real unsafe_diff; all 40x40 shape pairs of ranks 0..3 / sizes 1..3 '
               'through the real safe_diff and the translated guard evaluated in Coq; zero for independent / above-degree operands; '
               'row-independence on batches')
    ck.step_hygiene()
    res = ck.step_generate('Gen_C03', TARGETS)
    if res is not None:
        ck.step_prove('P_C03')
    n = 12000 if ck.thorough() else 100
    goals = run_cases(ck, res, n, 40 if ck.thorough() else 4)
    shape_cases(ck, res)
    if res is not None:
        ck.step_interval_goals('corr', goals)
    if ck.broken and not ck.failures:
        ck.notes.append('search: re-ran the implementation oracle on 5x more inputs after a broken obligation')
        run_cases(ck, None, n * 5, 0)
    ck.finish(
        trusted_extra=['Coquelicot (Derive_n), Interval (interval tactic)',
                       'modelled not verified: torch.autograd (autograd.grad returns the derivative, or None only when identically zero) — validated numerically on random programs each run, not proved',
                       'row-wise hypothesis of the ones trick is what C19 establishes for the shipped networks'],
        assumptions=['operands are expressions over coordinate leaves and function symbols with coherent jets (analytic form: smooth expressions)'])


if __name__ == '__main__':
    main()
