"""pyfront targets for C08 (Cartesian operators).  Fields are function symbols of the coordinate
leaves (arbitrary jets); n-ary operators are generated at every dimension the property names
(1..4) and tied to list-generic models in proofs/C08_cart.v."""
from pyfront.gen import Target

F = 'neurodiffeq/operators.py'
V = lambda n: ('var', n)


def sym(name, leaves):
    return ('fun', name, tuple(0 for _ in leaves), tuple(('avar', l) for l in leaves))


def xs(n):
    return [f'x{i}' for i in range(1, n + 1)]


def t_grad(n):
    return lambda I: I.call_module_function('grad', sym('u', xs(n)), *[V(x) for x in xs(n)])


def t_div(n, nargs=None):
    def b(I):
        us = [sym(f'u{i}', xs(n)) for i in range(1, n + 1)]
        args = us + [V(x) for x in xs(n)]
        if nargs is not None:
            args = args[:nargs]
        return I.call_module_function('div', *args)
    return b


def t_lap(n):
    return lambda I: I.call_module_function('laplacian', sym('u', xs(n)), *[V(x) for x in xs(n)])


X3 = ['x1', 'x2', 'x3']
U3 = lambda: [sym('u1', X3), sym('u2', X3), sym('u3', X3)]


def t_curl(I):
    return I.call_module_function('curl', *U3(), *[V(x) for x in X3])


def t_curl_partial(I):
    # components that do not depend on every coordinate: autograd returns None -> zeros
    us = [sym('u1', ['x2', 'x3']), sym('u2', ['x1']), sym('u3', ['x3'])]
    return I.call_module_function('curl', *us, *[V(x) for x in X3])


def t_vlap(I):
    return I.call_module_function('vector_laplacian', *U3(), *[V(x) for x in X3])


def t_div_curl(I):
    c = I.call_module_function('curl', *U3(), *[V(x) for x in X3])
    return I.call_module_function('div', *c, *[V(x) for x in X3])


def t_curl_grad(I):
    g = I.call_module_function('grad', sym('u', X3), *[V(x) for x in X3])
    return I.call_module_function('curl', *g, *[V(x) for x in X3])


def t_div_grad(I):
    g = I.call_module_function('grad', sym('u', X3), *[V(x) for x in X3])
    return I.call_module_function('div', *g, *[V(x) for x in X3])


def t_grad_div(I):
    d = I.call_module_function('div', *U3(), *[V(x) for x in X3])
    return I.call_module_function('grad', d, *[V(x) for x in X3])


def t_curl_curl(I):
    c = I.call_module_function('curl', *U3(), *[V(x) for x in X3])
    return I.call_module_function('curl', *c, *[V(x) for x in X3])


def t_split(n):
    def b(I):
        us, xs_ = I.call_module_function('_split_u_x', *[V(f'a{i}') for i in range(n)])
        return list(us) + list(xs_)
    return b


TARGETS = (
    [Target(f'grad_{n}', F, t_grad(n), leaves=xs(n), funs=['u']) for n in (1, 2, 3, 4)] +
    [Target(f'div_{n}', F, t_div(n), leaves=xs(n), funs=[f'u{i}' for i in range(1, n + 1)]) for n in (1, 2, 3, 4)] +
    [Target('div_reject_empty', F, t_div(1, nargs=0)), Target('div_reject_odd', F, t_div(2, nargs=3))] +
    [Target(f'laplacian_{n}', F, t_lap(n), leaves=xs(n), funs=['u']) for n in (1, 2, 3, 4)] +
    [Target('curl', F, t_curl, leaves=X3, funs=['u1', 'u2', 'u3']),
     Target('curl_partial', F, t_curl_partial, leaves=X3, funs=['u1', 'u2', 'u3']),
     Target('vector_laplacian', F, t_vlap, leaves=X3, funs=['u1', 'u2', 'u3']),
     Target('div_curl', F, t_div_curl, leaves=X3, funs=['u1', 'u2', 'u3']),
     Target('curl_grad', F, t_curl_grad, leaves=X3, funs=['u']),
     Target('div_grad', F, t_div_grad, leaves=X3, funs=['u']),
     Target('grad_div', F, t_grad_div, leaves=X3, funs=['u1', 'u2', 'u3']),
     Target('curl_curl', F, t_curl_curl, leaves=X3, funs=['u1', 'u2', 'u3']),
     Target('split_4', F, t_split(4), leaves=['a0', 'a1', 'a2', 'a3'])]
)
