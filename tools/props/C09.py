#!/venv/bin/python
"""C09 — spherical and cylindrical operators agree with the Cartesian definitions; conversion
helpers are mutual inverses.  Engine A.  DESIGN.md section 7, C09."""
import math
import os
import sys

sys.path.insert(0, os.path.join(os.path.dirname(os.path.abspath(__file__)), '..'))
import common
from common import Check
from pyfront import ir
from props.t_C09 import TARGETS, SPH, CYL
from harness import enga
from harness.probes import Probe, dy, lit

OPS = ['grad', 'div', 'curl', 'laplacian', 'vector_laplacian']


def rand_point(r, system, dyadic_pts=False):
    if system == 'spherical':
        return [dy(r, 0.3, 3, 4), dy(r, 0.2, math.pi - 0.2, 4), dy(r, 0, 6.25, 4)]
    return [dy(r, 0.3, 3, 4), dy(r, 0, 6.25, 4), dy(r, -2, 2, 4)]


def frame(system, q):
    if system == 'spherical':
        _, th, ph = q
        s, c, sp, cp = math.sin(th), math.cos(th), math.sin(ph), math.cos(ph)
        return [(s * cp, s * sp, c), (c * cp, c * sp, -s), (-sp, cp, 0.0)]
    _, ph, _ = q
    sp, cp = math.sin(ph), math.cos(ph)
    return [(cp, sp, 0.0), (-sp, cp, 0.0), (0.0, 0.0, 1.0)]


def to_cart(system, q):
    if system == 'spherical':
        r, th, ph = q
        return [r * math.sin(th) * math.cos(ph), r * math.sin(th) * math.sin(ph), r * math.cos(th)]
    rho, ph, z = q
    return [rho * math.cos(ph), rho * math.sin(ph), z]


def cart_expected(op, probes, xyz):
    """Cartesian object from the jets of Cartesian probe fields at xyz (the textbook definition)."""
    e = lambda i: tuple(1 if j == i else 0 for j in range(3))
    e2 = lambda i, j: tuple((1 if k == i else 0) + (1 if k == j else 0) for k in range(3))
    if op == 'grad':
        return [probes[0].jet(e(i), xyz) for i in range(3)]
    if op == 'div':
        return sum(probes[i].jet(e(i), xyz) for i in range(3))
    if op == 'curl':
        d = lambda comp, wrt: probes[comp].jet(e(wrt), xyz)
        return [d(2, 1) - d(1, 2), d(0, 2) - d(2, 0), d(1, 0) - d(0, 1)]
    if op == 'laplacian':
        return sum(probes[0].jet(e2(i, i), xyz) for i in range(3))
    if op == 'vector_laplacian':
        return [sum(probes[c].jet(e2(i, i), xyz) for i in range(3)) for c in range(3)]


def run_cases(ck, res, n_cases, n_interval):
    n_atan2 = 3 if n_interval else 0
    torch = enga.import_repo()
    from neurodiffeq import operators as O
    r = ck.rng('cases')
    goals, dist = [], {}
    # ---- (a) translation correspondence: curvilinear probe fields, generated term vs real operator
    for ci in range(n_cases):
        system = ['spherical', 'cylindrical'][ci % 2]
        op = OPS[(ci // 2) % len(OPS)]
        name = f'{system}_{op}'
        coords = SPH if system == 'spherical' else CYL
        vector = op in ('div', 'curl', 'vector_laplacian')
        nrows = r.randint(1, 4)
        pts = [rand_point(r, system) for _ in range(nrows)]
        X = [enga.col(torch, [p[k] for p in pts]) for k in range(3)]
        syms = ['u1', 'u2', 'u3'] if vector else ['u']
        probes = {s: Probe(3, r, nterms=r.randint(1, 2), kinds=('one', 'pow', 'sin')) for s in syms}
        fields = [probes[s].torch(*X) for s in syms]
        inp = {'op': name, 'fields': {s: probes[s].describe() for s in syms}, 'points': pts}
        try:
            out = getattr(O, name)(*fields, *X)
        except Exception as e:
            ck.fail(f'{name}/raises', f'{name} raised {type(e).__name__}: {e}', inp)
            continue
        out = [out] if hasattr(out, 'shape') else list(out)
        out = [[float(v) for v in o.detach().reshape(-1)] for o in out]
        dist[name] = dist.get(name, 0) + 1
        ck.add_case((name, str(inp['fields']), str(pts)))
        if ci < 6:
            ck.sample({'op': name, 'fields': inp['fields'], 'points': pts, 'impl': [o[:2] for o in out]})
        if res is None or name not in res or 'terms' not in res[name]:
            continue
        scale = 1 + max(abs(v) for o in out for v in o)
        fenv = {s: probes[s].jet for s in syms}
        for k, term in enumerate(res[name]['terms']):
            for i in range(nrows):
                venv = dict(zip(coords, pts[i]))
                mv = ir.feval(term, venv, {}, fenv)
                ck.traces += 1
                if not enga.close(mv, out[k][i], scale, rel=1e-8):
                    ck.broke('correspondence-broken', f'pyfront:{name}', f'component {k} row {i}: model {mv!r} impl {out[k][i]!r} input {inp}')
                    break
        if len(goals) < n_interval and op in ('grad', 'div', 'laplacian'):
            venv = dict(zip(coords, pts[0]))
            goals.append(enga.interval_goal(f'{name}#{ci}', res[name]['terms'][0], venv, {}, probes, out[0][0], scale * 10,
                                            gen=('Gen_C09', name, 'term_0' if res[name]['multi'] else 'term'), names=res[name]['names']))
    # ---- (b) the property itself: Cartesian fields re-expressed in curvilinear components
    for ci in range(n_cases):
        system = ['spherical', 'cylindrical'][ci % 2]
        op = OPS[(ci // 2) % len(OPS)]
        name = f'{system}_{op}'
        vector = op in ('div', 'curl', 'vector_laplacian')
        q = rand_point(r, system)
        Q = [enga.col(torch, [v]) for v in q]
        if system == 'spherical':
            rr, th, ph = Q
            XYZ = [rr * torch.sin(th) * torch.cos(ph), rr * torch.sin(th) * torch.sin(ph), rr * torch.cos(th)]
            fr = [(torch.sin(th) * torch.cos(ph), torch.sin(th) * torch.sin(ph), torch.cos(th)),
                  (torch.cos(th) * torch.cos(ph), torch.cos(th) * torch.sin(ph), -torch.sin(th)),
                  (-torch.sin(ph), torch.cos(ph), 0 * ph)]
        else:
            rho, ph, z = Q
            XYZ = [rho * torch.cos(ph), rho * torch.sin(ph), z]
            fr = [(torch.cos(ph), torch.sin(ph), 0 * ph), (-torch.sin(ph), torch.cos(ph), 0 * ph), (0 * ph, 0 * ph, 1 + 0 * ph)]
        probes = [Probe(3, r, nterms=r.randint(1, 2), kinds=('one', 'pow', 'sin', 'exp')) for _ in range(3 if vector else 1)]
        cart_fields = [p.torch(*XYZ) for p in probes]
        if vector:
            fields = [sum(f[i] * cart_fields[i] for i in range(3)) for f in fr]     # physical components
        else:
            fields = cart_fields
        xyz = to_cart(system, q)
        exp = cart_expected(op, probes, xyz)
        F = frame(system, q)
        if op in ('grad', 'curl', 'vector_laplacian'):
            exp = [sum(F[k][i] * exp[i] for i in range(3)) for k in range(3)]
        else:
            exp = [exp]
        inp = {'op': name, 'cartesian_fields': [p.describe() for p in probes], 'point': q}
        try:
            out = getattr(O, name)(*fields, *Q)
        except Exception as e:
            ck.fail(f'{name}/raises', f'{name} raised {type(e).__name__}: {e}', inp)
            continue
        out = [out] if hasattr(out, 'shape') else list(out)
        got = [float(o.detach().reshape(-1)[0]) for o in out]
        ck.add_case((name, 'cartesian', str(inp['cartesian_fields']), str(q)))
        scale = 1 + max(abs(v) for v in got + exp)
        for k in range(len(exp)):
            if not enga.close(got[k], exp[k], scale * 100, rel=1e-8):
                ck.fail(f'{name}/component{k}', f'{name}: component {k} is {got[k]!r}, the Cartesian definition gives {exp[k]!r}', inp, expected=exp[k], actual=got[k])
    # ---- (b'') compositions: an operator applied to the RESULT of an operator (the result must carry its full autograd
    #      graph, including the metric factors 1/r^2, 1/sin(theta), 1/rho): bi-Laplacian, gradient of the Laplacian, div grad
    for ci in range(max(9, n_cases // 6)):
        system = ['spherical', 'cylindrical'][ci % 2]
        comp = ['bilaplacian', 'grad_laplacian', 'div_grad'][(ci // 2) % 3]
        q = rand_point(r, system)
        Q = [enga.col(torch, [v]) for v in q]
        if system == 'spherical':
            rr_, th, ph = Q
            XYZ = [rr_ * torch.sin(th) * torch.cos(ph), rr_ * torch.sin(th) * torch.sin(ph), rr_ * torch.cos(th)]
        else:
            rho, ph, z = Q
            XYZ = [rho * torch.cos(ph), rho * torch.sin(ph), z]
        pr = Probe(3, r, nterms=r.randint(1, 2), kinds=('one', 'pow', 'sin', 'exp'))
        u = pr.torch(*XYZ)
        xyz = to_cart(system, q)
        ee = lambda *idx: tuple(sum(1 for j in idx if j == k) for k in range(3))
        inp = {'op': f'{system}_{comp}', 'cartesian_field': pr.describe(), 'point': q}
        lap, grd, dv = getattr(O, f'{system}_laplacian'), getattr(O, f'{system}_grad'), getattr(O, f'{system}_div')
        try:
            if comp == 'bilaplacian':
                got = [float(lap(lap(u, *Q), *Q).detach().reshape(-1)[0])]
                exp = [sum(pr.jet(ee(i, i, j, j), xyz) for i in range(3) for j in range(3))]
            elif comp == 'grad_laplacian':
                got = [float(g.detach().reshape(-1)[0]) for g in grd(lap(u, *Q), *Q)]
                cart = [sum(pr.jet(ee(i, i, k), xyz) for i in range(3)) for k in range(3)]
                F = frame(system, q)
                exp = [sum(F[k][i] * cart[i] for i in range(3)) for k in range(3)]
            else:
                got = [float(dv(*grd(u, *Q), *Q).detach().reshape(-1)[0])]
                exp = [sum(pr.jet(ee(i, i), xyz) for i in range(3))]
        except Exception as e:
            ck.fail(f'{system}_{comp}/raises', f'{comp} raised {type(e).__name__}: {e}', inp)
            continue
        ck.add_case((system, comp, str(inp['cartesian_field']), str(q)))
        scale = 1 + max(abs(v) for v in got + exp)
        for k in range(len(exp)):
            if not enga.close(got[k], exp[k], scale * 100, rel=1e-7):
                ck.fail(f'{system}_{comp}/component{k}', f'{system} {comp}: component {k} is {got[k]!r}, the Cartesian definition gives {exp[k]!r}', inp, expected=exp[k], actual=got[k])
    # ---- (b') fields that ARE a coordinate column (the leaf tensor itself, no autograd history): closed forms
    LEAF = [
        ('spherical', 'grad', lambda Q: [Q[0]], lambda a, b, c: [1.0, 0.0, 0.0]),
        ('spherical', 'laplacian', lambda Q: [Q[0]], lambda a, b, c: [2.0 / a]),
        ('spherical', 'grad', lambda Q: [Q[1]], lambda a, b, c: [0.0, 1.0 / a, 0.0]),
        ('spherical', 'laplacian', lambda Q: [Q[1]], lambda a, b, c: [math.cos(b) / (a * a * math.sin(b))]),
        ('spherical', 'grad', lambda Q: [Q[2]], lambda a, b, c: [0.0, 0.0, 1.0 / (a * math.sin(b))]),
        ('spherical', 'laplacian', lambda Q: [Q[2]], lambda a, b, c: [0.0]),
        ('cylindrical', 'grad', lambda Q: [Q[0]], lambda a, b, c: [1.0, 0.0, 0.0]),
        ('cylindrical', 'laplacian', lambda Q: [Q[0]], lambda a, b, c: [1.0 / a]),
        ('cylindrical', 'grad', lambda Q: [Q[1]], lambda a, b, c: [0.0, 1.0 / a, 0.0]),
        ('cylindrical', 'laplacian', lambda Q: [Q[1]], lambda a, b, c: [0.0]),
        ('cylindrical', 'grad', lambda Q: [Q[2]], lambda a, b, c: [0.0, 0.0, 1.0]),
        ('cylindrical', 'laplacian', lambda Q: [Q[2]], lambda a, b, c: [0.0]),
        ('spherical', 'div', lambda Q: [Q[0], 0 * Q[0], 0 * Q[0]], lambda a, b, c: [3.0]),
        ('cylindrical', 'div', lambda Q: [Q[0], 0 * Q[0], Q[2]], lambda a, b, c: [3.0]),
        ('cylindrical', 'curl', lambda Q: [0 * Q[0], Q[0], 0 * Q[0]], lambda a, b, c: [0.0, 0.0, 2.0]),
        ('spherical', 'curl', lambda Q: [0 * Q[0], 0 * Q[0], Q[0]], lambda a, b, c: [math.cos(b) / math.sin(b), -2.0, 0.0]),
    ]
    for ci in range(max(16, n_cases // 8)):
        system, op, mk, ex = LEAF[ci % len(LEAF)]
        name = f'{system}_{op}'
        q = rand_point(r, system)
        Q = [enga.col(torch, [v]) for v in q]
        inp = {'op': name, 'leaf_field_case': ci % len(LEAF), 'point': q}
        try:
            out = getattr(O, name)(*mk(Q), *Q)
        except Exception as e:
            ck.fail(f'{name}/raises', f'{name} raised {type(e).__name__} on a coordinate-column field: {e}', inp)
            continue
        out = [out] if hasattr(out, 'shape') else list(out)
        got = [float(o.detach().reshape(-1)[0]) for o in out]
        exp = ex(*q)
        ck.add_case((name, 'leaf-field', ci % len(LEAF), str(q)))
        for k in range(len(exp)):
            if not enga.close(got[k], exp[k], 1 + abs(exp[k]), rel=1e-10):
                ck.fail(f'{name}/component{k}/coordinate-field', f'{name} of a field that is a coordinate column itself: component {k} is {got[k]!r}, closed form {exp[k]!r}',
                        inp, expected=exp[k], actual=got[k])
    # ---- (c) conversions
    for ci in range(max(10, n_cases // 4)):
        q = rand_point(r, 'spherical')
        Q = [enga.col(torch, [v], grad=False) for v in q]
        x, y, z = O.spherical_to_cartesian(*Q)
        back = O.cartesian_to_spherical(x, y, z)
        bq = [float(b) for b in back]
        ck.add_case(('conv-sph', str(q)))
        ok = enga.close(bq[0], q[0]) and enga.close(math.cos(bq[1]), math.cos(q[1])) and enga.close(math.sin(bq[1]), math.sin(q[1])) \
            and enga.close(math.cos(bq[2]), math.cos(q[2])) and enga.close(math.sin(bq[2]), math.sin(q[2]))
        if not ok or not (bq[0] >= 0 and 0 <= bq[1] <= math.pi and -math.pi < bq[2] <= math.pi):
            ck.fail('conversion/spherical-roundtrip', 'cartesian_to_spherical(spherical_to_cartesian(q)) != q (mod 2 pi) or out of range', {'q': q}, expected=q, actual=bq)
        # on the coordinate singularities themselves (origin, polar axis, planes): the helpers are total there, return finite
        # values in the documented ranges (angle 0 where it is undetermined) and the Cartesian round trip is exact
        sp = [(0.0, 0.0, 0.0), (0.0, 0.0, 1.5), (0.0, 0.0, -2.25), (1.25, 0.0, 0.0), (0.0, -0.75, 0.0), (-2.0, 0.0, 0.0), (0.0, 1.5, 1.5)][ci % 7]
        Ps = [enga.col(torch, [v], grad=False) for v in sp]
        ck.add_case(('conv-singular', str(sp)))
        for cname, fwd_f, back_f in (('spherical', O.cartesian_to_spherical, O.spherical_to_cartesian), ('cylindrical', O.cartesian_to_cylindrical, O.cylindrical_to_cartesian)):
            cq = [float(v) for v in fwd_f(*Ps)]
            rt = [float(v) for v in back_f(*fwd_f(*Ps))]
            ok_rng = all(math.isfinite(v) for v in cq) and cq[0] >= 0 and (0 <= cq[1] <= math.pi if cname == 'spherical' else -math.pi < cq[1] <= math.pi)
            if cname == 'spherical':
                ok_rng = ok_rng and -math.pi < cq[2] <= math.pi
            if not ok_rng or not all(enga.close(a, b, rel=enga.EXACT) for a, b in zip(rt, sp)):
                ck.fail(f'conversion/{cname}-on-singularity', f'cartesian_to_{cname} at {sp} returned {cq}; back in Cartesian {rt}', {'p': sp}, expected=list(sp), actual=rt)
        # near (but off) the polar axis, both hemispheres: the round trip must stay exact to rounding there too (a formula
        # that is an identity over the reals but ill-conditioned at the poles, e.g. acos(z / r), is not)
        kx = 2 + ci % 6
        thn = 10.0 ** (-kx) if (ci // 6) % 2 == 0 else math.pi - 10.0 ** (-kx)
        qn = [dy(r, 0.5, 3, 3), thn, dy(r, 0, 6, 3)]
        Qn = [enga.col(torch, [v], grad=False) for v in qn]
        bn = [float(b) for b in O.cartesian_to_spherical(*O.spherical_to_cartesian(*Qn))]
        ck.add_case(('conv-sph-near-axis', str(qn)))
        if not (abs(bn[1] - qn[1]) <= 2e-13 and enga.close(bn[0], qn[0], rel=enga.EXACT) and enga.close(math.cos(bn[2]), math.cos(qn[2])) and enga.close(math.sin(bn[2]), math.sin(qn[2]))):
            ck.fail('conversion/spherical-roundtrip/near-axis', f'cartesian_to_spherical(spherical_to_cartesian(q)) loses accuracy near the polar axis: theta {qn[1]!r} -> {bn[1]!r}',
                    {'q': qn}, expected=qn, actual=bn)
        xyz = [dy(r, -2, 2, 4) or 0.5, dy(r, -2, 2, 4) or 0.5, dy(r, -2, 2, 4)]
        P = [enga.col(torch, [v], grad=False) for v in xyz]
        fwd = O.spherical_to_cartesian(*O.cartesian_to_spherical(*P))
        if not all(enga.close(float(a), b) for a, b in zip(fwd, xyz)):
            ck.fail('conversion/cartesian-roundtrip', 'spherical_to_cartesian(cartesian_to_spherical(p)) != p', {'p': xyz}, expected=xyz, actual=[float(a) for a in fwd])
        fwdc = O.cylindrical_to_cartesian(*O.cartesian_to_cylindrical(*P))
        if not all(enga.close(float(a), b) for a, b in zip(fwdc, xyz)):
            ck.fail('conversion/cartesian-cyl-roundtrip', 'cylindrical_to_cartesian(cartesian_to_cylindrical(p)) != p', {'p': xyz}, expected=xyz, actual=[float(a) for a in fwdc])
        qc = rand_point(r, 'cylindrical')
        Qc = [enga.col(torch, [v], grad=False) for v in qc]
        bc = [float(b) for b in O.cartesian_to_cylindrical(*O.cylindrical_to_cartesian(*Qc))]
        if not (enga.close(bc[0], qc[0]) and enga.close(math.cos(bc[1]), math.cos(qc[1])) and enga.close(math.sin(bc[1]), math.sin(qc[1])) and enga.close(bc[2], qc[2])):
            ck.fail('conversion/cylindrical-roundtrip', 'cartesian_to_cylindrical(cylindrical_to_cartesian(q)) != q', {'q': qc}, expected=qc, actual=bc)
        # the atan2 contract assumed by the theorems, on torch.atan2 itself
        a, b = xyz[1], xyz[0]
        t = float(torch.atan2(torch.tensor(a), torch.tensor(b)))
        h = math.hypot(a, b)
        if not (enga.close(math.cos(t), b / h) and enga.close(math.sin(t), a / h) and -math.pi < t <= math.pi):
            ck.broke('correspondence-broken', 'atan2-contract', f'torch.atan2({a},{b}) = {t} violates the contract assumed by C09_conv')
        # in-kernel: the concrete Atan2.atan2 of the unconditional theorems is what torch.atan2 computes (all quadrants and axes)
        if res is not None and ci < n_atan2:
            pts = [(a, b), (abs(a), 0.0), (-abs(a), 0.0), (0.0, -abs(b)), (0.0, abs(b)), (-abs(a), -abs(b)), (abs(a), -abs(b))]
            for (ya, xb) in pts[:3] if ci else pts:
                tv = float(torch.atan2(torch.tensor(ya), torch.tensor(xb)))
                goals.append({'label': f'atan2({ya},{xb})', 'gen': None, 'require': 'From ND.lib Require Atan2.', 'value': tv,
                              'goal': f'Rabs (Atan2.atan2 {lit(ya)} {lit(xb)} - ({common.float_lit(tv)})) <= 1/1000000000000',
                              'proof': 'Proof. first [rewrite Atan2.atan2_right by lra | rewrite Atan2.atan2_left_up by lra | rewrite Atan2.atan2_left_down by lra '
                                       '| rewrite Atan2.atan2_axis_up by lra | rewrite Atan2.atan2_axis_down by lra]; interval with (i_prec 90). Qed.'})
        # generated conversion terms vs implementation
        if res is not None and 'terms' in res.get('cartesian_to_spherical', {}):
            tm = res['cartesian_to_spherical']['terms']
            venv = dict(zip(['x', 'y', 'z'], xyz))
            mv = [ir.feval(tm[0], venv, {}, {}), math.atan2(ir.feval(tm[1], venv, {}, {}), ir.feval(tm[2], venv, {}, {})),
                  math.atan2(ir.feval(tm[3], venv, {}, {}), ir.feval(tm[4], venv, {}, {}))]
            iv = [float(v) for v in O.cartesian_to_spherical(*P)]
            ck.traces += 1
            if not all(enga.close(m, i) for m, i in zip(mv, iv)):
                ck.broke('correspondence-broken', 'pyfront:cartesian_to_spherical', f'model {mv} impl {iv} at {xyz}')
            tm = res['spherical_to_cartesian']['terms']
            venv = dict(zip(SPH, q))
            mv = [ir.feval(t_, venv, {}, {}) for t_ in tm]
            iv = [float(x), float(y), float(z)]
            if not all(enga.close(m, i) for m, i in zip(mv, iv)):
                ck.broke('correspondence-broken', 'pyfront:spherical_to_cartesian', f'model {mv} impl {iv} at {q}')
            tm = res['cartesian_to_cylindrical']['terms']
            venv = dict(zip(['x', 'y', 'z'], xyz))
            mv = [ir.feval(tm[0], venv, {}, {}), math.atan2(ir.feval(tm[1], venv, {}, {}), ir.feval(tm[2], venv, {}, {})), ir.feval(tm[3], venv, {}, {})]
            iv = [float(v) for v in O.cartesian_to_cylindrical(*P)]
            if not all(enga.close(m, i) for m, i in zip(mv, iv)):
                ck.broke('correspondence-broken', 'pyfront:cartesian_to_cylindrical', f'model {mv} impl {iv} at {xyz}')
            tm = res['cylindrical_to_cartesian']['terms']
            venv = dict(zip(CYL, qc))
            mv = [ir.feval(t_, venv, {}, {}) for t_ in tm]
            iv = [float(v) for v in O.cylindrical_to_cartesian(*Qc)]
            if not all(enga.close(m, i) for m, i in zip(mv, iv)):
                ck.broke('correspondence-broken', 'pyfront:cylindrical_to_cartesian', f'model {mv} impl {iv} at {qc}')
    ck.extra['input_distribution'] = dist
    return goals


def main():
    ck = Check('C09')
    ck.rule = ('(a) each of the 10 curvilinear operators on random curvilinear probe fields: generated term on the jets vs the real '
               'operator, every component and row; (b) the property itself: random smooth Cartesian fields (polynomial/sin/exp) '
               're-expressed in curvilinear physical components, real operator vs frame components of the Cartesian object computed '
               'from the jets, points r,rho in [0.3,3], theta in [0.2,pi-0.2], phi in [0,2pi), z in [-2,2]; (c) the 4 conversion '
               'helpers: round trips, ranges, generated terms, torch.atan2 contract')
    ck.step_hygiene()
    res = ck.step_generate('Gen_C09', TARGETS)
    if res is not None:
        ck.step_prove('P_C09')
    n = 8000 if ck.thorough() else 80
    goals = run_cases(ck, res, n, 60 if ck.thorough() else 6)
    if res is not None:
        ck.step_interval_goals('corr', goals)
    if ck.broken and not ck.failures:
        ck.notes.append('search: re-ran the implementation oracle on 4x more inputs after a broken obligation')
        run_cases(ck, None, n * 4, 0)
    ck.finish(
        trusted_extra=['Interval (interval tactic) for in-kernel correspondence goals',
                       'specification side proofs/C09_spec.v (inverse-Jacobian Cartesian partials, frames), anchored by the jacobian_inverse theorems',
                       'torch.atan2: the general conversion theorems assume only its contract (cos/sin/range); the contract is PROVED satisfiable for the concrete lib/Atan2.atan2, '
                       'for which the theorems are unconditional; that torch.atan2 computes Atan2.atan2 (all quadrants, both axes) is checked in the kernel on sampled dyadic inputs each run',
                       'modelled not verified: IEEE-754 rounding, torch.autograd (= symbolic D)'],
        assumptions=['fields are function symbols of the three curvilinear coordinates with arbitrary jets', 'r <> 0, sin theta <> 0, rho <> 0'])


if __name__ == '__main__':
    main()
