"""pyfront targets for C17 (function bases and basis-space Laplacians)."""
from fractions import Fraction
from pyfront.gen import Target
from pyfront.interp import Interp, Matrix, Opaque
from pyfront import ir

F = 'neurodiffeq/function_basis.py'
FO = 'neurodiffeq/operators.py'
V = lambda n: ('var', n)

YNAMES = ['Y0_0', 'Y1n1', 'Y1_0', 'Y1p1', 'Y2n2', 'Y2n1', 'Y2_0', 'Y2p1', 'Y2p2',
          'Y3n3', 'Y3n2', 'Y3n1', 'Y3_0', 'Y3p1', 'Y3p2', 'Y3p3',
          'Y4n4', 'Y4n3', 'Y4n2', 'Y4n1', 'Y4_0', 'Y4p1', 'Y4p2', 'Y4p3', 'Y4p4']


def degree_of(name):
    return int(name[1])


def legendre_coeffs(d):
    """Exact Legendre coefficients, highest degree first (what scipy.special.legendre(d) returns as
    floats).  Bonnet: (n+1) P_{n+1} = (2n+1) x P_n - n P_{n-1}.  Re-derived independently in Coq."""
    p0, p1 = [Fraction(1)], [Fraction(1), Fraction(0)]          # highest first
    if d == 0:
        return p0
    for n in range(1, d):
        a = [c * Fraction(2 * n + 1, n + 1) for c in p1] + [Fraction(0)]
        b = [Fraction(0), Fraction(0)] + [c * Fraction(n, n + 1) for c in p0]
        p0, p1 = p1, [x - y for x, y in zip(a, b)]
    return p1


class Interp17(Interp):
    """np.pi is the symbolic constant PI, np.sqrt stays symbolic, scipy.special.legendre returns the
    exact rational coefficients."""
    def attribute(self, n, env):
        import ast
        if isinstance(n.value, ast.Name) and n.value.id == 'np' and n.attr == 'pi':
            return ('par', 'PI')
        return super().attribute(n, env)

    def builtin(self, n, name, args, kwargs):
        if name in ('numpy.sqrt', 'np.sqrt'):
            return ('sqrt', self.tens(n, args[0]))
        if name in ('scipy.special.legendre', 'legendre'):
            d = args[0]
            if not isinstance(d, int) or d < 0:
                self.err(n, 'legendre degree')
            return [ir.const(c) for c in legendre_coeffs(d)]
        if name == 'warnings.warn':
            return None
        return super().builtin(n, name, args, kwargs)


def t_Y(name):
    def b(I):
        f = I.eval(I.mod.lambdas[name], {})
        return I.apply(None, f, [V('theta'), V('phi')], {})
    return b


def t_harmonics(max_degree):
    def b(I):
        h = I.instantiate('RealSphericalHarmonics', max_degree=max_degree)
        return I.call_method(h, '__call__', V('theta'), V('phi'))
    return b


def t_harmonics_reject(I):
    I.instantiate('RealSphericalHarmonics', max_degree=5)
    return ('cst', 0)


def Rcols(n):
    return Matrix([('fun', f'R{k}', (0,), (('avar', 'r'),)) for k in range(n)])


def t_harm_lap(max_degree):
    def b(I):
        op = I.instantiate('HarmonicsLaplacian', max_degree=max_degree)
        return I.call_method(op, '__call__', Rcols((max_degree + 1) ** 2), V('r'), V('theta'), V('phi'))
    return b


def t_sph_lap_expansion(max_degree):
    """operators.spherical_laplacian of the expanded field sum_k R_k(r) Y_k(theta, phi)."""
    def b(I):
        h = I.instantiate('RealSphericalHarmonics', max_degree=max_degree)
        Y = I.call_method(h, '__call__', V('theta'), V('phi'))
        R = Rcols(len(Y.cols))
        u = ('mul', R.cols[0], Y.cols[0])
        for rk, yk in zip(R.cols[1:], Y.cols[1:]):
            u = ('add', u, ('mul', rk, yk))
        I2 = Interp(I.repo, FO)
        out = I2.call_module_function('spherical_laplacian', u, V('r'), V('theta'), V('phi'))
        I.branch_checks += I2.branch_checks
        return out
    return b


def t_single(kind, k):
    """one summand: spherical_laplacian(R(r) Y_k)  /  the basis-space formula for that summand"""
    def b(I):
        name = YNAMES[k]
        f = I.eval(I.mod.lambdas[name], {})
        Yk = I.apply(None, f, [V('theta'), V('phi')], {})
        R = ('fun', 'R', (0,), (('avar', 'r'),))
        if kind == 'sph':
            I2 = Interp(I.repo, FO)
            out = I2.call_module_function('spherical_laplacian', ('mul', R, Yk), V('r'), V('theta'), V('phi'))
            I.branch_checks += I2.branch_checks
            return out
        l = degree_of(name)
        rad = ('div', ('D', 'r', ('D', 'r', ('mul', R, V('r')))), V('r'))
        ang = ('div', ('mul', ir.const(-float(l * (l + 1))), R), ('pow', V('r'), 2))
        return ('mul', ('add', rad, ang), Yk)
    return b


def t_legendre(d):
    def b(I):
        p = I.instantiate('LegendrePolynomial', d)
        return I.call_method(p, '__call__', V('x'))
    return b


def t_zonal(max_degree=None, degrees=None):
    def b(I):
        z = I.instantiate('ZonalSphericalHarmonics', max_degree=max_degree, degrees=degrees)
        return I.call_method(z, '__call__', V('theta'), V('phi'))
    return b


def t_zonal_lap(max_degree=None, degrees=None):
    def b(I):
        op = I.instantiate('ZonalSphericalHarmonicsLaplacian', max_degree=max_degree, degrees=degrees)
        n = len(degrees) if degrees is not None else max_degree + 1
        return I.call_method(op, '__call__', Rcols(n), V('r'), V('theta'), V('phi'))
    return b


def t_zonal_expansion(max_degree=None, degrees=None):
    def b(I):
        z = I.instantiate('ZonalSphericalHarmonics', max_degree=max_degree, degrees=degrees)
        Y = I.call_method(z, '__call__', V('theta'), V('phi'))
        R = Rcols(len(Y.cols))
        u = ('mul', R.cols[0], Y.cols[0])
        for rk, yk in zip(R.cols[1:], Y.cols[1:]):
            u = ('add', u, ('mul', rk, yk))
        I2 = Interp(I.repo, FO)
        out = I2.call_module_function('spherical_laplacian', u, V('r'), V('theta'), V('phi'))
        I.branch_checks += I2.branch_checks
        return out
    return b


def t_fourier(max_degree):
    def b(I):
        f = I.instantiate('RealFourierSeries', max_degree=max_degree)
        return I.call_method(f, '__call__', V('phi'))
    return b


def t_fourier_lap(max_degree):
    def b(I):
        op = I.instantiate('FourierLaplacian', max_degree=max_degree)
        return I.call_method(op, '__call__', Rcols(2 * max_degree + 1), V('r'), V('phi'))
    return b


def t_fourier_expansion(max_degree):
    """polar Laplacian (cylindrical_laplacian without z dependence) of sum_k R_k(r) F_k(phi)"""
    def b(I):
        f = I.instantiate('RealFourierSeries', max_degree=max_degree)
        Fk = I.call_method(f, '__call__', V('phi'))
        R = Rcols(len(Fk.cols))
        u = ('mul', R.cols[0], Fk.cols[0])
        for rk, yk in zip(R.cols[1:], Fk.cols[1:]):
            u = ('add', u, ('mul', rk, yk))
        I2 = Interp(I.repo, FO)
        out = I2.call_module_function('cylindrical_laplacian', u, V('r'), V('phi'), V('z'))
        I.branch_checks += I2.branch_checks
        return out
    return b


def t_sph_lap_U(I):
    U = ('fun', 'U', (0, 0, 0), (('avar', 'r'), ('avar', 'theta'), ('avar', 'phi')))
    I2 = Interp(I.repo, FO)
    out = I2.call_module_function('spherical_laplacian', U, V('r'), V('theta'), V('phi'))
    I.branch_checks += I2.branch_checks
    return out


RTP = ['r', 'theta', 'phi']
K17 = dict(interp_cls=Interp17)

TARGETS = [Target(n, F, t_Y(n), leaves=['theta', 'phi'], meta=f'{degree_of(n)}%nat', group='Y', **K17) for n in YNAMES]
TARGETS += [Target(f'harmonics_{d}', F, t_harmonics(d), leaves=['theta', 'phi'], **K17) for d in range(5)]
TARGETS += [Target('harmonics_reject_5', F, t_harmonics_reject, **K17)]
TARGETS += [Target(f'single_sph_{k}', F, t_single('sph', k), leaves=RTP, funs=['R'], **K17) for k in range(25)]
TARGETS += [Target(f'single_basis_{k}', F, t_single('basis', k), leaves=RTP, funs=['R'], **K17) for k in range(25)]
TARGETS += [Target(f'harm_lap_{d}', F, t_harm_lap(d), leaves=RTP, funs=[f'R{k}' for k in range((d + 1) ** 2)], **K17) for d in range(5)]
TARGETS += [Target(f'sph_lap_expansion_{d}', F, t_sph_lap_expansion(d), leaves=RTP, funs=[f'R{k}' for k in range((d + 1) ** 2)], **K17) for d in range(3)]
TARGETS += [Target('sph_lap_U', F, t_sph_lap_U, leaves=RTP, funs=['U'], **K17)]
TARGETS += [Target(f'legendre_{d}', F, t_legendre(d), leaves=['x'], meta=f'{d}%nat', group='legendre', **K17) for d in range(13)]
TARGETS += [Target(f'zonal_{d}', F, t_zonal(max_degree=d), leaves=['theta', 'phi'], pars=['PI'], **K17) for d in (0, 1, 4, 12)]
TARGETS += [Target('zonal_degrees_7_2', F, t_zonal(degrees=[7, 2]), leaves=['theta', 'phi'], pars=['PI'], **K17)]
TARGETS += [Target(f'zonal_lap_{d}', F, t_zonal_lap(d), leaves=RTP, pars=['PI'], funs=[f'R{k}' for k in range(d + 1)], **K17) for d in (0, 2, 4)]
TARGETS += [Target(f'zonal_expansion_{d}', F, t_zonal_expansion(d), leaves=RTP, pars=['PI'], funs=[f'R{k}' for k in range(d + 1)], **K17) for d in (0, 2, 4)]
TARGETS += [Target('zonal_lap_deg_3_1', F, t_zonal_lap(degrees=[3, 1]), leaves=RTP, pars=['PI'], funs=['R0', 'R1'], **K17),
            Target('zonal_expansion_deg_3_1', F, t_zonal_expansion(degrees=[3, 1]), leaves=RTP, pars=['PI'], funs=['R0', 'R1'], **K17),
            Target('zonal_lap_deg_2', F, t_zonal_lap(degrees=[2]), leaves=RTP, pars=['PI'], funs=['R0'], **K17),
            Target('zonal_expansion_deg_2', F, t_zonal_expansion(degrees=[2]), leaves=RTP, pars=['PI'], funs=['R0'], **K17)]
TARGETS += [Target(f'fourier_{d}', F, t_fourier(d), leaves=['phi'], **K17) for d in (0, 1, 3, 12)]
TARGETS += [Target(f'fourier_lap_{d}', F, t_fourier_lap(d), leaves=['r', 'phi', 'z'], funs=[f'R{k}' for k in range(2 * d + 1)], **K17) for d in (0, 1, 3)]
TARGETS += [Target(f'fourier_expansion_{d}', F, t_fourier_expansion(d), leaves=['r', 'phi', 'z'], funs=[f'R{k}' for k in range(2 * d + 1)], **K17) for d in (0, 1, 3)]
