#!/venv/bin/python
"""C01 — ODE conditions (IVP, two-point BVP) hold exactly for every network.
Engine A: regenerate Gen_C01.v from conditions.py, re-check the theorems of props/P_C01.v,
validate the translation against the real classes (float64 and in-kernel interval goals), and
evaluate the property's own oracle on the implementation.  DESIGN.md section 7, C01."""
import os
import sys
import warnings

sys.path.insert(0, os.path.join(os.path.dirname(os.path.abspath(__file__)), '..'))
from common import Check, dyadic
from pyfront import ir
from props.t_C01 import TARGETS
from harness import enga
from harness.probes import Probe, make_net, dy

MODES = ['IVP_value', 'IVP_prime', 'DBVP', 'DEBVP_dd', 'DEBVP_dn', 'DEBVP_nd', 'DEBVP_nn']


# the documented positional order of the constructors (part of the public API: existing user code passes the end data
# positionally); a regrouping of the signature silently moves values to the wrong end
GOLDEN = {'IVP': ['t_0', 'u_0', 'u_0_prime'], 'DirichletBVP': ['t_0', 'u_0', 't_1', 'u_1'],
          'DoubleEndedBVP1D': ['x_min', 'x_max', 'x_min_val', 'x_min_prime', 'x_max_val', 'x_max_prime']}


def build_condition(C, mode, pv, positional=False):
    if mode == 'IVP_value':
        cls, kw = 'IVP', dict(t_0=pv['t_0'], u_0=pv['u_0'])
    elif mode == 'IVP_prime':
        cls, kw = 'IVP', dict(t_0=pv['t_0'], u_0=pv['u_0'], u_0_prime=pv['u_0_prime'])
    elif mode == 'DBVP':
        cls, kw = 'DirichletBVP', dict(t_0=pv['t_0'], u_0=pv['u_0'], t_1=pv['t_1'], u_1=pv['u_1'])
    else:
        k2 = {'dd': ('x_min_val', 'x_max_val'), 'dn': ('x_min_val', 'x_max_prime'), 'nd': ('x_min_prime', 'x_max_val'),
              'nn': ('x_min_prime', 'x_max_prime')}[mode[-2:]]
        cls, kw = 'DoubleEndedBVP1D', {'x_min': pv['x_min'], 'x_max': pv['x_max'], k2[0]: pv['a'], k2[1]: pv['b']}
    if positional:
        args = [kw.get(n) for n in GOLDEN[cls]]
        while args and args[-1] is None:
            args.pop()
        return getattr(C, cls)(*args)
    return getattr(C, cls)(**kw)


def gen_params(r, mode, big):
    s = r.choice([1e-3, 1.0, 1.0, 1e3]) if big else 1.0
    # exact zeros are admissible parameter values and a classic special case (`if x:` vs `if x is None:`)
    val = lambda: 0.0 if r.random() < 0.12 else (dy(r, -4, 4) + (r.choice([0.1, 1.0 / 3.0]) if r.random() < 0.3 else 0.0)) * s
    # a third of the locations are NOT dyadic (0.1, 1/3, ...: not representable in float32, inexact in float64), so a
    # silent precision loss (float32 round trip, decimal truncation) shows up against the EXACT tolerance below
    nd = lambda v: v + r.choice([0.1, 0.3, 1.0 / 3.0, 0.7]) if r.random() < 0.35 else v
    if mode.startswith('IVP'):
        return {'t_0': nd(dy(r, -3, 3)), 'u_0': val(), 'u_0_prime': val()}, s
    if mode == 'DBVP':
        t0 = nd(dy(r, -3, 3))
        d = r.choice([-1, 1]) * nd(dy(r, 0, 3) + 0.125)      # both orientations
        return {'t_0': t0, 'u_0': val(), 't_1': t0 + d, 'u_1': val()}, s
    x0 = nd(dy(r, -3, 3))
    d = r.choice([-1, 1]) * nd(dy(r, 0, 3) + 0.125)
    return {'x_min': x0, 'x_max': x0 + d, 'a': val(), 'b': val()}, s


def boundary_expect(mode, pv):
    """[(point, 'value'|'deriv', expected)] — the property's own oracle."""
    if mode == 'IVP_value':
        return [(pv['t_0'], 'value', pv['u_0'])]
    if mode == 'IVP_prime':
        return [(pv['t_0'], 'value', pv['u_0']), (pv['t_0'], 'deriv', pv['u_0_prime'])]
    if mode == 'DBVP':
        return [(pv['t_0'], 'value', pv['u_0']), (pv['t_1'], 'value', pv['u_1'])]
    k = mode[-2:]
    return [(pv['x_min'], 'value' if k[0] == 'd' else 'deriv', pv['a']),
            (pv['x_max'], 'value' if k[1] == 'd' else 'deriv', pv['b'])]


def run_cases(ck, res, n_cases, n_interval):
    torch = enga.import_repo()
    from neurodiffeq import conditions as C
    from neurodiffeq.neurodiffeq import safe_diff
    r = ck.rng('cases')
    goals = []
    dist = {}
    for ci in range(n_cases):
        mode = MODES[ci % len(MODES)]
        unit = (ci // len(MODES)) % 2 == 1
        pv, s = gen_params(r, mode, big=(ci % 3 == 0))
        kind = r.choice(['generic', 'affine'])
        nets = []
        for _ in range(2 if unit else 1):
            if kind == 'affine':   # arbitrary value / slope pairs at the boundary
                nets.append(Probe.affine(1, dy(r, -4, 4) * s, [dy(r, -4, 4) * s]))
            else:
                nets.append(Probe(1, r, scale=s))
        k = r.randrange(2) if unit else None
        net = make_net(nets)
        try:
            cond = build_condition(C, mode, pv, positional=(ci % 3 == 1))
            if unit:
                with warnings.catch_warnings():
                    warnings.simplefilter('ignore')
                    cond.set_impose_on(k)
        except Exception as e:
            ck.fail(f'{mode}/constructor', f'constructor of an admissible {mode} condition raised {type(e).__name__}: {e}',
                    {'mode': mode, 'params': pv})
            continue
        lo_name, hi_name = ('t_0', 't_1') if mode == 'DBVP' else ('x_min', 'x_max')
        ends = [pv['t_0']] if mode.startswith('IVP') else [pv[lo_name], pv[hi_name]]
        lo, hi = min(ends) - 1.0, max(ends) + 1.0
        pts = list(ends) + [dy(r, lo, hi, 4) for _ in range(4)]
        t = enga.col(torch, pts)
        try:
            u = cond.enforce(net, t)
            du = safe_diff(u, t)
        except Exception as e:
            ck.fail(f'{mode}/enforce-raises', f'enforce raised {type(e).__name__}: {e}', {'mode': mode, 'params': pv, 'unit': k})
            continue
        uv = [float(x) for x in u.detach().reshape(-1)]
        dv = [float(x) for x in du.detach().reshape(-1)]
        probe = nets[k] if unit else nets[0]
        scale = s * (1 + max(abs(x) for x in uv))
        inp = {'mode': mode, 'unit': k, 'params': pv, 'net': [p.describe() for p in nets], 'points': pts,
               'constructor_call': 'positional (documented order)' if ci % 3 == 1 else 'keywords'}
        # ---- the property's oracle on the implementation
        for (pt, what, exp) in boundary_expect(mode, pv):
            i = pts.index(pt)
            got = uv[i] if what == 'value' else dv[i]
            if not enga.close(got, exp, scale, rel=enga.EXACT):
                ck.fail(f'{mode}/{what}@{"lo" if i == 0 else "hi"}',
                        f'{mode}{" (ith_unit)" if unit else ""}: enforced {what} at the constrained point is {got!r}, prescribed {exp!r}',
                        inp, expected=exp, actual=got)
        # ---- a network that pre-processes its input IN PLACE (normalisation layers written with sub_/div_, inplace=True):
        #      the library hands networks a fresh copy of the coordinates, so the caller's samples and the enforced
        #      values at the constrained points must be unaffected
        if ci % 5 == 1 and mode in ('IVP_value', 'DBVP', 'DEBVP_dd'):
            class _InPlace(torch.nn.Module):
                def __init__(self, base):
                    super().__init__()
                    self.base = base

                def forward(self, x):
                    x.sub_(0.375).mul_(1.5)
                    return self.base(x)
            try:
                tp = enga.col(torch, pts, grad=False)
                up = cond.enforce(_InPlace(net), tp)
                upv = [float(x) for x in up.detach().reshape(-1)]
                if [float(x) for x in tp.reshape(-1)] != [float(x) for x in pts]:
                    ck.fail(f'{mode}/samples-modified', f'{mode}.enforce let an in-place network modify the caller\'s sample tensor', dict(inp, network='in-place'))
                for (pt, what, exp) in boundary_expect(mode, pv):
                    i = pts.index(pt)
                    if what == 'value' and not enga.close(upv[i], exp, scale, rel=enga.EXACT):
                        ck.fail(f'{mode}/value@{"lo" if i == 0 else "hi"}/in-place-network',
                                f'{mode}: with a network acting in place on its input the enforced value at the constrained point is {upv[i]!r}, prescribed {exp!r}',
                                dict(inp, network='in-place'), expected=exp, actual=upv[i])
            except Exception as e:
                ck.fail(f'{mode}/enforce-raises/in-place-network', f'enforce raised {type(e).__name__}: {e}', dict(inp, network='in-place'))
        # ---- a network whose OUTPUT has a lower precision than the samples (a float32 model fed float64 coordinates,
        #      mixed-precision training): the prescribed values must not be rounded to the network's dtype
        if ci % 5 == 2 and mode in ('IVP_value', 'IVP_prime', 'DBVP', 'DEBVP_dd'):
            class _LowPrec(torch.nn.Module):
                def __init__(self, base):
                    super().__init__()
                    self.base = base

                def forward(self, x):
                    return self.base(x).float()
            try:
                tl = enga.col(torch, pts)
                ul = cond.enforce(_LowPrec(net), tl)
                dul = safe_diff(ul, tl)
                ulv = [float(x) for x in ul.detach().reshape(-1)]
                dulv = [float(x) for x in dul.detach().reshape(-1)]
                if str(ul.dtype) == 'torch.float64':
                    for (pt, what, exp) in boundary_expect(mode, pv):
                        i = pts.index(pt)
                        got = ulv[i] if what == 'value' else dulv[i]
                        # the derivative involves N (float32) times an exactly-zero factor only at the constrained point
                        if not enga.close(got, exp, scale, rel=enga.EXACT if what == 'value' else 1e-6):
                            ck.fail(f'{mode}/{what}@{"lo" if i == 0 else "hi"}/float32-network-output',
                                    f'{mode}: with a float32 network output on float64 samples the enforced {what} at the constrained point is {got!r}, prescribed {exp!r}',
                                    dict(inp, network='float32 output'), expected=exp, actual=got)
            except Exception as e:
                ck.fail(f'{mode}/enforce-raises/float32-network-output', f'enforce raised {type(e).__name__}: {e}', dict(inp, network='float32 output'))
        # ---- the same under default dtype float32 with explicit float64 samples: a Python number that the code turns into
        #      a default-dtype tensor (as_tensor, torch.tensor(...)) silently loses precision; exactness must not depend on it
        if ci % 4 == 0:
            try:
                with enga.default_dtype(torch, torch.float32):
                    t32 = enga.col(torch, pts)
                    u32 = cond.enforce(net, t32)
                    du32 = safe_diff(u32, t32)
                uv32 = [float(x) for x in u32.detach().reshape(-1)]
                dv32 = [float(x) for x in du32.detach().reshape(-1)]
                for (pt, what, exp) in boundary_expect(mode, pv):
                    i = pts.index(pt)
                    got = uv32[i] if what == 'value' else dv32[i]
                    if str(u32.dtype) == 'torch.float64' and not enga.close(got, exp, scale, rel=enga.EXACT):
                        ck.fail(f'{mode}/{what}@{"lo" if i == 0 else "hi"}/default-float32',
                                f'{mode}: with float64 samples under default dtype float32 the enforced {what} at the constrained point is {got!r}, prescribed {exp!r}',
                                dict(inp, default_dtype='float32'), expected=exp, actual=got)
            except Exception as e:
                ck.fail(f'{mode}/enforce-raises/default-float32', f'enforce raised {type(e).__name__}: {e}', dict(inp, default_dtype='float32'))
        # ---- translation correspondence: IR vs torch, every row, value and derivative
        tname = mode + ('_unit' if unit else '')
        dist[tname] = dist.get(tname, 0) + 1
        ck.add_case((tname, tuple(sorted(pv.items())), tuple(pts[2:])))
        if ci < 6:
            ck.sample({'target': tname, 'params': pv, 'net': inp['net'], 'points': pts, 'impl_u': uv[:3], 'impl_du': dv[:3]})
        if res is None or tname not in res or 'terms' not in res[tname]:
            continue
        term = res[tname]['terms'][0]
        leaf = 't' if not mode.startswith('DEBVP') else 'x'
        penv = dict(pv)
        fenv = {('N@k' if unit else 'N'): probe.jet}
        envs = enga.row_envs({leaf: pts}, len(pts), res[tname]['fresh'], penv)
        dterm = ('D', leaf, term)
        for i, venv in enumerate(envs):
            mu, md = ir.feval(term, venv, penv, fenv), ir.feval(dterm, venv, penv, fenv)
            ck.traces += 1
            if not enga.close(mu, uv[i], scale) or not enga.close(md, dv[i], scale * 4):
                ck.broke('correspondence-broken', f'pyfront:{tname}',
                         f'generated term and implementation differ at row {i}: model ({mu!r},{md!r}) impl ({uv[i]!r},{dv[i]!r}) input {inp}')
                break
        if len(goals) < n_interval and abs(s - 1.0) < 1e-12:
            i = 2 + (ci % 3)
            goals.append(enga.interval_goal(f'{tname}#{ci}', term, envs[i], penv, {('N@k' if unit else 'N'): probe}, uv[i], scale,
                                            gen=('Gen_C01', tname, 'term'), names=res[tname]['names']))
            goals.append(enga.interval_goal(f'{tname}#{ci}d', dterm, envs[i], penv, {('N@k' if unit else 'N'): probe}, dv[i], scale * 4,
                                            gen=('Gen_C01', tname, 'term'), names=res[tname]['names'], dwrt=(leaf,)))
    # ---- parameterize targets: affine in the raw output, coefficient non-zero off the boundary
    for ci in range(max(6, n_cases // 6)):
        mode = ['IVP_value', 'IVP_prime', 'DBVP', 'DEBVP_dd'][ci % 4]
        pv, s = gen_params(r, mode, big=False)
        cond = build_condition(C, mode, pv)
        ends = [pv['t_0']] if mode.startswith('IVP') else ([pv['t_0'], pv['t_1']] if mode == 'DBVP' else [pv['x_min'], pv['x_max']])
        pts = [p for p in (dy(r, min(ends) - 1, max(ends) + 1, 4) for _ in range(5)) if p not in ends]
        if not pts:
            continue
        t = enga.col(torch, pts)
        c = dy(r, -3, 3)
        P = lambda cc: [float(x) for x in cond.parameterize(cc * torch.ones_like(t), t).detach().reshape(-1)]
        p0, p1, pc = P(0.0), P(1.0), P(c)
        ck.add_case((mode + '_param', tuple(sorted(pv.items())), tuple(pts), c))
        for i in range(len(pts)):
            if not enga.close(pc[i], p0[i] + (p1[i] - p0[i]) * c, 10.0):
                ck.fail(f'{mode}/not-affine', f'{mode}.parameterize is not affine in the raw output', {'mode': mode, 'params': pv, 'point': pts[i], 'c': c})
            if p1[i] - p0[i] == 0.0:
                ck.fail(f'{mode}/coefficient-vanishes', f'{mode}: coefficient of the raw output vanishes at interior point {pts[i]}',
                        {'mode': mode, 'params': pv, 'point': pts[i]})
        tname = mode + '_param'
        if res is not None and tname in res and 'terms' in res[tname]:
            term = res[tname]['terms'][0]
            leaf = 't' if not mode.startswith('DEBVP') else 'x'
            for i, pt in enumerate(pts):
                mu = ir.feval(term, {leaf: pt, 'o': c}, pv, {})
                ck.traces += 1
                if not enga.close(mu, pc[i], 10.0):
                    ck.broke('correspondence-broken', f'pyfront:{tname}', f'model {mu!r} impl {pc[i]!r} params {pv} point {pt} o={c}')
                    break
    # ---- interior non-degeneracy for every mode, including the ones with extra forward passes: the coefficient
    #      of the raw output at the evaluation point (values/slopes at the ends held fixed) must not vanish or
    #      change sign anywhere strictly between the constrained points (dense grid + sign-change detection)
    for ci in range(max(8, n_cases // 6)):
        mode = ['DEBVP_dd', 'DEBVP_dn', 'DEBVP_nd', 'DEBVP_nn', 'DBVP', 'IVP_value', 'IVP_prime'][ci % 7]
        pv, s = gen_params(r, mode, big=False)
        cond = build_condition(C, mode, pv)
        if mode.startswith('IVP'):
            lo, hi = pv['t_0'], pv['t_0'] + r.choice([-1, 1]) * 3.0
        elif mode == 'DBVP':
            lo, hi = pv['t_0'], pv['t_1']
        else:
            lo, hi = pv['x_min'], pv['x_max']
        grid = [lo + (hi - lo) * j / 48 for j in range(1, 48)]
        x = enga.col(torch, grid)
        M = Probe.affine(1, dy(r, -2, 2), [dy(r, -2, 2)])
        extras = []
        if mode in ('DEBVP_dn', 'DEBVP_nn', 'DEBVP_nd'):
            x0 = pv['x_min'] * torch.ones_like(x, requires_grad=True)
            x1 = pv['x_max'] * torch.ones_like(x, requires_grad=True)
            extras = {'DEBVP_dn': [M.torch(x1), x1], 'DEBVP_nd': [M.torch(x0), x0], 'DEBVP_nn': [M.torch(x0), x0, M.torch(x1), x1]}[mode]
        P = lambda cc: [float(v) for v in cond.parameterize(cc * torch.ones_like(x), x, *extras).detach().reshape(-1)]
        p0, p1, p2 = P(0.0), P(1.0), P(2.0)
        coef = [b - a for a, b in zip(p0, p1)]
        ck.add_case((mode + '_interior', tuple(sorted(pv.items()))))
        for i in range(len(grid)):
            if not enga.close(p2[i], p0[i] + 2 * coef[i], 10.0 * (1 + abs(p0[i]))):
                ck.fail(f'{mode}/not-affine', f'{mode}: not affine in the raw output at {grid[i]}', {'mode': mode, 'params': pv, 'point': grid[i]})
                break
        zero = [i for i in range(len(grid)) if abs(coef[i]) < 1e-9]
        flips = [i for i in range(1, len(grid)) if coef[i - 1] * coef[i] < 0]
        if zero or flips:
            i = (zero or flips)[0]
            ck.fail(f'{mode}/coefficient-vanishes', f'{mode}: the coefficient of the raw network output vanishes or changes sign at an interior point near {grid[i]} '
                    f'(coefficients around it: {coef[max(0, i - 1):i + 2]})', {'mode': mode, 'params': pv, 'point': grid[i]})
    ck.extra['input_distribution'] = dist
    return goals


def main():
    ck = Check('C01')
    ck.rule = ('cases = (condition class/mode x multi-net|ith_unit x random dyadic parameters of both orientations and '
               'magnitudes 1e-3..1e3 x probe network (generic sin/exp/polynomial or affine with arbitrary value/slope) x '
               'points incl. the constrained ones); distinct = distinct (target, parameters, points); every row is compared '
               'value and derivative between the generated term and the real enforce()')
    ck.step_hygiene()
    res = ck.step_generate('Gen_C01', TARGETS)
    if res is not None:
        ck.step_prove('P_C01')
    n = 8400 if ck.thorough() else 84
    goals = run_cases(ck, res, n, 150 if ck.thorough() else 10)
    if res is not None:
        ck.step_interval_goals('corr', goals)
    if ck.broken and not ck.failures:
        # search: a broken obligation without a failing input so far -> widen the oracle run
        ck.notes.append('search: re-ran the implementation oracle on 5x more inputs after a broken obligation')
        run_cases(ck, None, n * 5, 0)
    ck.finish(
        trusted_extra=['Coquelicot 3.x (is_derive), Interval (interval tactic) for in-kernel correspondence goals',
                       'modelled not verified: IEEE-754 rounding, torch.autograd (= symbolic D), broadcasting, nn.Module call'],
        assumptions=['networks are arbitrary function symbols with arbitrary jets (coherent jets for the analytic form)',
                     't_1 <> t_0 / x_max <> x_min; fresh end leaves take the end-point values (checked: fresh tables)'])


if __name__ == '__main__':
    main()
