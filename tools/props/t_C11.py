"""pyfront targets for C11 (spherical shell, infinite-domain and coefficient-space conditions)."""
from pyfront.gen import Target
from pyfront.interp import NetSym, FunSym

F = 'neurodiffeq/conditions.py'
P = lambda n: ('par', n)
V = lambda n: ('var', n)
RTP = ['r', 'theta', 'phi']


def shell(two_sided):
    def b(I):
        if two_sided:
            c = I.instantiate('DirichletBVPSpherical', r_0=P('r_0'), f=FunSym('f'), r_1=P('r_1'), g=FunSym('g'))
        else:
            c = I.instantiate('DirichletBVPSpherical', r_0=P('r_0'), f=FunSym('f'))
        return I.call_method(c, 'enforce', NetSym('N'), V('r'), V('theta'), V('phi'))
    return b


def shell_invalid(I):
    I.instantiate('DirichletBVPSpherical', r_0=P('r_0'), f=FunSym('f'), r_1=P('r_1'))
    return ('cst', 0)


def inf(I):
    c = I.instantiate('InfDirichletBVPSpherical', r_0=P('r_0'), f=FunSym('f'), g=FunSym('g'), order=P('order'))
    return I.call_method(c, 'enforce', NetSym('N'), V('r'), V('theta'), V('phi'))


def basis(two_sided):
    """One column j of the coefficient vector: R_0, R_1 stand for R_0[j], R_1[j]; N for output column j."""
    def b(I):
        if two_sided:
            c = I.instantiate('DirichletBVPSphericalBasis', r_0=P('r_0'), R_0=P('R_0'), r_1=P('r_1'), R_1=P('R_1'))
        else:
            c = I.instantiate('DirichletBVPSphericalBasis', r_0=P('r_0'), R_0=P('R_0'))
        return I.call_method(c, 'enforce', NetSym('N'), V('r'))
    return b


def basis_invalid(I):
    I.instantiate('DirichletBVPSphericalBasis', r_0=P('r_0'), R_0=P('R_0'), R_1=P('R_1'))
    return ('cst', 0)


def inf_basis(I):
    c = I.instantiate('InfDirichletBVPSphericalBasis', r_0=P('r_0'), R_0=P('R_0'), R_inf=P('R_inf'), order=P('order'))
    return I.call_method(c, 'enforce', NetSym('N'), V('r'))


TARGETS = [
    Target('shell2', F, shell(True), leaves=RTP, pars=['r_0', 'r_1'], funs=['N', 'f', 'g']),
    Target('shell1', F, shell(False), leaves=RTP, pars=['r_0'], funs=['N', 'f']),
    Target('shell_reject', F, shell_invalid),
    Target('inf', F, inf, leaves=RTP, pars=['r_0', 'order'], funs=['N', 'f', 'g']),
    Target('basis2', F, basis(True), leaves=['r'], pars=['r_0', 'r_1', 'R_0', 'R_1'], funs=['N']),
    Target('basis1', F, basis(False), leaves=['r'], pars=['r_0', 'R_0'], funs=['N']),
    Target('basis_reject', F, basis_invalid),
    Target('inf_basis', F, inf_basis, leaves=['r'], pars=['r_0', 'order', 'R_0', 'R_inf'], funs=['N']),
]
