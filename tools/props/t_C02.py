"""pyfront targets for C02 (rectangle Dirichlet condition, 1-D initial-boundary condition; the
irregular-domain kernels).  Boundary data are DERIVED FROM AN ARBITRARY FIELD G (function symbol
with arbitrary jets), exactly the property's quantifier: corner / initial compatibility is then a
consequence, not an assumption."""
from pyfront.gen import Target
from pyfront.interp import Interp, NetSym, FunSym, SymInt
from pyfront import ir

F = 'neurodiffeq/conditions.py'
P = lambda n: ('par', n)
V = lambda n: ('var', n)


class PyFun:
    """A boundary-data callable given by a Python function on interpreter values."""
    def __init__(self, fn):
        self.fn = fn

    def __bool__(self):
        return True


class Interp02(Interp):
    def apply(self, n, f, args, kwargs):
        if isinstance(f, PyFun):
            if kwargs:
                self.err(n, 'keyword arguments to boundary data')
            return f.fn(self, n, *args)
        return super().apply(n, f, args, kwargs)

    def as_bool(self, node, v):
        if isinstance(v, PyFun):
            return True
        return super().as_bool(node, v)


def G(alpha, *slots):
    """slots: 'x' -> the call argument, ('apar', name) -> fixed parameter."""
    def fn(I, n, a):
        args = tuple(I.leaf_arg(n, a) if s == 'arg' else s for s in slots)
        return ('fun', 'G', tuple(alpha), args)
    return PyFun(fn)


def bvp2d(unit=False):
    def b(I):
        c = I.instantiate('DirichletBVP2D',
                          x_min=P('x0'), x_min_val=G((0, 0), ('apar', 'x0'), 'arg'),
                          x_max=P('x1'), x_max_val=G((0, 0), ('apar', 'x1'), 'arg'),
                          y_min=P('y0'), y_min_val=G((0, 0), 'arg', ('apar', 'y0')),
                          y_max=P('y1'), y_max_val=G((0, 0), 'arg', ('apar', 'y1')))
        if unit:
            c.attrs['ith_unit'] = SymInt('k')
        return I.call_method(c, 'enforce', NetSym('N', width=2 if unit else 1), V('x'), V('y'))
    return b


def ibvp(mode, unit=False):
    """G(x, t): u(x, t_min) = G(x, t_min); Dirichlet data G(x_end, t); Neumann data dG/dx(x_end, t)."""
    val = lambda end: G((0, 0), ('apar', end), 'arg')
    der = lambda end: G((1, 0), ('apar', end), 'arg')
    kw = {'dd': dict(x_min_val=val('x_min'), x_max_val=val('x_max')),
          'dn': dict(x_min_val=val('x_min'), x_max_prime=der('x_max')),
          'nd': dict(x_min_prime=der('x_min'), x_max_val=val('x_max')),
          'nn': dict(x_min_prime=der('x_min'), x_max_prime=der('x_max'))}[mode]

    def b(I):
        c = I.instantiate('IBVP1D', x_min=P('x_min'), x_max=P('x_max'), t_min=P('t_min'),
                          t_min_val=G((0, 0), 'arg', ('apar', 't_min')), **kw)
        if unit:
            c.attrs['ith_unit'] = SymInt('k')
        return I.call_method(c, 'enforce', NetSym('N', width=2 if unit else 1), V('x'), V('t'))
    return b


def ibvp_invalid(names):
    def b(I):
        I.instantiate('IBVP1D', x_min=P('x_min'), x_max=P('x_max'), t_min=P('t_min'),
                      t_min_val=FunSym('u0'), **{k: FunSym(k) for k in names})
        return ('cst', 0)
    return b


FP = 'neurodiffeq/pde.py'


def custom_enforce(M, unit=False):
    """CustomBoundaryCondition.enforce with M Dirichlet control points (no Neumann points), symbolic
    control-point coordinates (ax_i, ay_i) and symbolic thin-plate-spline coefficients: c_* for A_D,
    d_*, e_* for the two mapped dimensions of L_D.  (The constructor, which calls numpy, is not
    interpreted: the object is assembled from the interpolator classes directly.)"""
    def b(I):
        from pyfront.interp import Obj
        cps = []
        for i in range(M):
            o = Obj(I.mod.classes['DirichletControlPoint'])
            o.attrs.update(loc=(P(f'ax{i}'), P(f'ay{i}')), dim=2, val=P(f'val{i}'))
            cps.append(o)
        n = M + 3
        a_d = I.instantiate('SurfaceInterpolator', [P(f'c{j}') for j in range(n)], cps)
        l_d = I.instantiate('LengthFactorInterpolator', [[P(f'd{j}') for j in range(n)], [P(f'e{j}') for j in range(n)]], cps, P('radius'))
        c = Obj(I.mod.classes['CustomBoundaryCondition'])
        c.attrs.update(ith_unit=SymInt('k') if unit else None, dirichlet_control_points=cps, a_d_interp=a_d, l_d_interp=l_d,
                       neumann_control_points=None, g_interp=None, l_m_interp=None, n_hat_interp=None)
        return I.call_method(c, 'enforce', NetSym('N', width=2 if unit else 1), V('x'), V('y'))
    return b


def custom_pars(M):
    out = []
    for i in range(M):
        out += [f'ax{i}', f'ay{i}']
    n = M + 3
    return out + [f'c{j}' for j in range(n)] + [f'd{j}' for j in range(n)] + [f'e{j}' for j in range(n)] + ['radius']


def kernel(which):
    def b(I):
        from pyfront.interp import Obj
        p = Obj(I.mod.classes['Point']); p.attrs.update(loc=(P('px'), P('py')), dim=2)
        q = Obj(I.mod.classes['Point']); q.attrs.update(loc=(P('qx'), P('qy')), dim=2)
        f = I.find_method(I.mod.classes['Interpolator'], which)[0]
        if which == '_ri_sq_thin_plate_spline_pretrain':
            return I.call_function(f, [p, q], {}, {})
        return I.call_function(f, [q, (V('x'), V('y'))], {}, {})
    return b


PARS2D = ['x0', 'x1', 'y0', 'y1']
PARSIB = ['x_min', 'x_max', 't_min']

TARGETS = [
    Target('BVP2D', F, bvp2d(), leaves=['x', 'y'], pars=PARS2D, funs=['N', 'G'], interp_cls=Interp02),
    Target('BVP2D_unit', F, bvp2d(True), leaves=['x', 'y'], pars=PARS2D, funs=['N@k', 'G'], interp_cls=Interp02),
] + [
    Target(f'IBVP_{m}', F, ibvp(m), leaves=['x', 't'], pars=PARSIB, funs=['N', 'G'], interp_cls=Interp02)
    for m in ('dd', 'dn', 'nd', 'nn')
] + [
    Target(f'IBVP_{m}_unit', F, ibvp(m, True), leaves=['x', 't'], pars=PARSIB, funs=['N@k', 'G'], interp_cls=Interp02)
    for m in ('dd', 'dn', 'nd', 'nn')
] + [
    Target('custom_enforce_4', FP, custom_enforce(4), leaves=['x', 'y'], pars=custom_pars(4), funs=['N']),
    Target('custom_enforce_5', FP, custom_enforce(5), leaves=['x', 'y'], pars=custom_pars(5), funs=['N']),
    Target('custom_enforce_4_unit', FP, custom_enforce(4, True), leaves=['x', 'y'], pars=custom_pars(4), funs=['N@k']),
    Target('ri_sq_pretrain', FP, kernel('_ri_sq_thin_plate_spline_pretrain'), pars=['px', 'py', 'qx', 'qy']),
    Target('ri_sq_trainval', FP, kernel('_ri_sq_thin_plate_spline_trainval'), leaves=['x', 'y'], pars=['px', 'py', 'qx', 'qy']),
    Target('IBVP_reject_three', F, ibvp_invalid(['x_min_val', 'x_min_prime', 'x_max_val'])),
    Target('IBVP_reject_both_max', F, ibvp_invalid(['x_max_val', 'x_max_prime'])),
]
