#!/venv/bin/python
"""C18 — saving never alters a solver; loading restores an equal, resumable one
(neurodiffeq/solvers_utils.py save/load/get_conditions, solvers.py, callbacks.CheckpointCallback).

Engine B: coq/model/Persist.v parameterised by facts regenerated from the source on every run
(tools/props/t_C18.py -> coq/gen/Gen_C18.v), theorems in coq/props/P_C18.v, correspondence of the
model with the real Solver1D / BundleSolver1D / Solver2D on save / load / fit scenarios in two
streams: (a) dill as installed (dill.dump raises here: "whether or not serialisation succeeds"),
(b) a process-local dill.dump(byref=True) shim so that load paths run with real files.
DESIGN.md section 7, C18."""
import json
import os
import shutil
import sys

sys.path.insert(0, os.path.join(os.path.dirname(os.path.abspath(__file__)), '..'))
import common
from common import Check
from props import t_C18
from harness import enga
from harness import persist_h as H

WORK = os.path.join(common.BUILD, f'c18_work_{os.getpid()}')


def gen_spec(r, i, stream):
    kind = ['1d', '2d', 'bundle'][i % 3]
    if kind == '1d':
        cond = r.choice(['ivp', 'dbvp'])
    elif kind == '2d':
        cond = ['functions', 'nosource', 'mixed'][(i // 3) % 3]
    else:
        cond = r.choice(['ivp', 'lookup'])
    spec = {'kind': kind, 'cond': cond, 'opt': ['sgd', 'adam', 'clipped', 'plaingd', 'sgd', 'adam', 'lbfgs'][(i // 2) % 7], 'seed': r.randint(0, 2 ** 31 - 1),
            'numbers': [r.randint(-8, 8) / 4, r.randint(-8, 8) / 4, r.randint(-8, 8) / 4],
            'custom_loss': r.random() < 0.5, 'eq_param': kind == 'bundle' and r.random() < 0.5, 'stream': stream,
            'gen': r.choice(['default', 'batch', 'resample', 'noisy']), 'no_bounds': kind == '1d' and r.random() < 0.5, 'twin': True,
            # BatchNorm cannot be differentiated three times (2-D Laplace residual): Dropout only for Solver2D
            'net': r.choice(['plain', 'plain', 'dropout', 'batchnorm' if kind != '2d' else 'dropout'])}
    # one scenario in five runs with validation disabled (n_batches_valid=0: best model tracked by the training loss), always with a
    # custom loss so that the epochs after a load can be made worse than the saved best
    if i % 5 == 3:
        spec['no_valid'] = True
        spec['custom_loss'] = kind != 'bundle' or True
        if spec['opt'] == 'lbfgs':
            spec['opt'] = 'adam'         # torch warns that closure optimisers snapshot the best nets after the step when validation is off
    if spec['opt'] == 'lbfgs' and spec['gen'] in ('batch', 'resample'):
        # outside C18 (reported separately): a closure optimiser re-runs backward over a batch that ResampleGenerator /
        # BatchGenerator produced by indexing, and torch refuses the second backward through that shared graph
        spec['gen'] = 'noisy'
    ops = [['fit', r.randint(0, 5), 1.0]]
    n_cycles = r.randint(1, 3)
    for c in range(n_cycles):
        if r.random() < 0.25:
            ops.append(['checkpoint'])
        if stream == 'a':
            ops.append(['save'])
        else:
            ops.append(r.choice([['saveload'], ['saveload'], ['save']]))
        # after a load, make the next losses larger now and then, so that best tracking is put to the test
        ops.append(['fit', r.randint(1, 3), (64.0 if spec.get('no_valid') else r.choice([1.0, 1.0, 64.0])) if spec['custom_loss'] else 1.0])
    spec['ops'] = ops
    return spec


def known_specs():
    """the inputs of the recorded findings, replayed on every run (open: expected to fail; fixed:
    suppress nothing and must pass)"""
    out = []
    for e in common.load_known_findings('C18'):
        if e.get('status') in ('open', 'fixed') and isinstance(e.get('input'), dict) and 'ops' in e['input']:
            out.append(e['input'])
    return out


def run_stream(ck, torch, specs, tag, with_coq=True):
    cases = []
    dist = ck.extra.setdefault('input_distribution', {})
    for i, spec in enumerate(specs):
        stream = spec['stream']
        ctx = H.dill_byref_shim() if stream == 'b' else __import__('contextlib').nullcontext()
        with ctx:
            case = H.run_scenario(ck, torch, spec, WORK, f'{tag}{i}')
        key = f'{stream}/{spec["kind"]}/{spec["cond"]}/{spec["opt"]}'
        dist[key] = dist.get(key, 0) + 1
        ck.add_case(json.dumps(spec, sort_keys=True))
        if i % 7 == 0:
            ck.sample({k: spec[k] for k in ('stream', 'kind', 'cond', 'opt', 'custom_loss', 'eq_param', 'ops')})
        if case is not None:
            cases.append((json.dumps(spec, sort_keys=True), case))
    if with_coq and cases:
        bad = ck.step_cases(tag, H.PREAMBLE, cases, shard=40)
        for lbl in bad[:5]:
            ck.broke('correspondence-broken', 'Persist.v:trace',
                     f'the model of save/load/fit and the real solver differ on scenario {lbl}')


def finish_replay(ck):
    known = {e['key']: e for e in common.load_known_findings(ck.pid) if e.get('status') == 'open'}
    rc = 0
    for f in ck.failures:
        if f['key'] in known:
            print(f'KNOWN-FINDING: property={ck.pid} {known[f["key"]]["what"]}')
        else:
            print(f'VIOLATION property={ck.pid} replay={ck.replay}')
            print(f'  {f["key"]}: {f["what"]}')
            rc = 1
    if not ck.failures:
        print(f'[{ck.pid}] replay {ck.replay}: the recorded input no longer fails on this tree')
    sys.exit(rc)


def main():
    ck = Check('C18')
    ck.rule = ('scenario = (stream a: dill as installed | b: dill.dump(byref=True) shim) x solver kind (Solver1D, Solver2D, BundleSolver1D) x '
               'conditions (numbers; functions with / without retrievable source; bundle lookup dict) x train generator (noisy grid | uniform | '
               'BatchGenerator | ResampleGenerator, all behind counting spies; Solver1D with and without t_min/t_max) x optimiser SGD | Adam | ClippedAdam(Adam) subclass | user-written Optimizer | LBFGS x default|custom loss x '
               'network plain FCNN | with Dropout | with BatchNorm1d (training flags observed) x eq_param_index on/off x n_batches_valid default | 0 (validation disabled, oracle only) x 0..5 epochs before the first save x 1..3 cycles of [checkpoint] save|save+load, fit 1..3 (loss scale 1 or 64); '
               'after every operation the observable solver state (fingerprints of nets/optimiser, histories, lowest loss, best nets, condition '
               'dictionaries, loss function, eq_param_index, whether the next fit works, draw counts of the generator spies, changes of the global RNG '
               'states across save) is compared with Persist.v inside Coq; every scenario is re-run on a never-saved, never-loaded twin (same seeds): '
               'histories, networks and draw counts must coincide; '
               'distinct = distinct scenario')
    os.makedirs(WORK, exist_ok=True)
    torch = enga.import_repo()
    if ck.replay:
        payload = json.load(open(ck.replay))
        spec = {k: v for k, v in (payload.get('input') or {}).items() if k not in ('kind_', 'failing_op')}
        if 'ops' in spec:
            run_stream(ck, torch, [spec], 'replay', with_coq=False)
        else:
            print(f'replay: broken-obligation replay (no implementation input): {payload.get("obligations")}')
        finish_replay(ck)
    ck.step_hygiene()
    with common.Lock():
        ok, info = t_C18.generate(common.REPO, common.GEN)
    if not ok:
        ck.broke('translator-refusal', f'Gen_C18:{info.get("target")}', info['error'])
    else:
        f = info['facts']
        ck.extra['source_facts'] = {'get_conditions_aliased': f['aliased'], 'writes_condition_type': f['writes_type'],
                                    'replaces_functions': f['replaces_fun'], 'touch_before_dump': f['touch_before_dump'],
                                    'save_dict_keys': [k for k, _ in f['save_dict']], 'load_restores': [k for k, _ in f['restores']],
                                    'save_path_effects': f['effects']}
        if ck.thorough():
            import glob
            with common.Lock():
                for pat in ('props/P_C18.vo', 'proofs/C18_*.vo'):
                    for p in glob.glob(os.path.join(common.COQ, pat)):
                        os.remove(p)
        ck.step_prove('P_C18')
        for name in ('F_C18_save', 'F_C18_load'):
            okf, logf = common.coqc_file(os.path.join(common.COQ, 'findings', name + '.v'))
            ck.extra[f'finding_{name}_refutation_compiles'] = okf
            if not okf:
                ck.notes.append(f'findings/{name}.v (historical, about the pre-fix facts) does not compile: '
                                + common.first_error(logf)['error'][:200])
    n = 500 if ck.thorough() else 60
    specs = known_specs()
    r = ck.rng('scenarios')
    for stream in ('a', 'b'):
        specs += [gen_spec(r, i, stream) for i in range(n)]
    run_stream(ck, torch, specs, 'sc', with_coq=ok)
    known = {e['key'] for e in common.load_known_findings('C18') if e.get('status') == 'open'}
    if ck.broken and not [f for f in ck.failures if f['key'] not in known]:
        ck.notes.append('search: re-ran the implementation oracle on more scenarios after a broken obligation')
        r2 = ck.rng('search')
        run_stream(ck, torch, [gen_spec(r2, i, s) for s in ('a', 'b') for i in range(120)], 'search', with_coq=False)
    shutil.rmtree(WORK, ignore_errors=True)
    ck.finish(
        trusted_extra=['tools/props/t_C18.py extractor (Python ast -> facts about get_conditions / save_dict / load; fail-closed)',
                       'tools/harness/persist_h.py abstraction of the real solver state (fingerprints, Fractions)',
                       'modelled not verified: pickling fidelity (dill round-trips the dictionary; stream b uses dill.dump(byref=True) '
                       'because plain dill.dump of any torch optimiser raises PicklingError in this image), copy.deepcopy, '
                       'torch optimiser update rules (epoch losses and parameters are oracle data), inspect.getsourcelines'],
        assumptions=['n_batches_valid > 0 and a non-closure optimiser (best tracking follows the validation loss)',
                     'load with the default SolverConfig()',
                     'all statements at full strength since fixes 90081b1, 02ac05f, 446840b; findings/F_C18_save.v, F_C18_load.v keep '
                     'the refutations for the facts of the old tree (written out by hand)',
                     'not in the model (outside the property\'s list): n_batches and custom-metric histories are not restored by load'])


if __name__ == '__main__':
    main()
