#!/venv/bin/python
"""C08 — Cartesian grad/div/curl/laplacian equal their textbook definitions.  Engine A.
DESIGN.md section 7, C08."""
import os
import sys

sys.path.insert(0, os.path.join(os.path.dirname(os.path.abspath(__file__)), '..'))
from common import Check
from pyfront import ir
from props.t_C08 import TARGETS
from harness import enga
from harness.probes import Probe, dy


def spec(name):
    """target -> (dimension n, field symbol names with the leaves each depends on, how to call)"""
    xs = lambda n: [f'x{i}' for i in range(1, n + 1)]
    if name.startswith('grad_') and name[5:].isdigit():
        n = int(name[5:]); return n, [('u', xs(n))]
    if name.startswith('div_') and name[4:].isdigit():
        n = int(name[4:]); return n, [(f'u{i}', xs(n)) for i in range(1, n + 1)]
    if name.startswith('laplacian_'):
        n = int(name[10:]); return n, [('u', xs(n))]
    if name == 'curl_partial':
        return 3, [('u1', ['x2', 'x3']), ('u2', ['x1']), ('u3', ['x3'])]
    if name in ('curl', 'vector_laplacian', 'div_curl', 'grad_div', 'curl_curl'):
        return 3, [(f'u{i}', xs(3)) for i in (1, 2, 3)]
    if name in ('curl_grad', 'div_grad'):
        return 3, [('u', xs(3))]
    return None


def call_real(O, name, fields, X):
    if name.startswith('grad_') and name[5:].isdigit():
        return O.grad(fields[0], *X)
    if name.startswith('div_') and name[4:].isdigit():
        return [O.div(*fields, *X)]
    if name.startswith('laplacian_'):
        return [O.laplacian(fields[0], *X)]
    if name in ('curl', 'curl_partial'):
        return O.curl(*fields, *X)
    if name == 'vector_laplacian':
        return O.vector_laplacian(*fields, *X)
    if name == 'div_curl':
        return [O.div(*O.curl(*fields, *X), *X)]
    if name == 'curl_grad':
        return O.curl(*O.grad(fields[0], *X), *X)
    if name == 'div_grad':
        return [O.div(*O.grad(fields[0], *X), *X)]
    if name == 'grad_div':
        return O.grad(O.div(*fields, *X), *X)
    if name == 'curl_curl':
        return O.curl(*O.curl(*fields, *X), *X)
    raise KeyError(name)


def textbook(torch, name, fields, X):
    """Independent recomputation with raw autograd (oracle for arbitrary, e.g. network, fields)."""
    def d(u, x):
        if not u.requires_grad:
            return torch.zeros_like(x)
        g, = torch.autograd.grad(u, x, grad_outputs=torch.ones_like(u), create_graph=True, allow_unused=True)
        return torch.zeros_like(x) if g is None else g
    if name.startswith('grad_') and name[5:].isdigit():
        return [d(fields[0], x) for x in X]
    if name.startswith('div_') and name[4:].isdigit():
        return [sum(d(u, x) for u, x in zip(fields, X))]
    if name.startswith('laplacian_'):
        return [sum(d(d(fields[0], x), x) for x in X)]
    if name == 'curl':
        ux, uy, uz = fields; x, y, z = X
        return [d(uz, y) - d(uy, z), d(ux, z) - d(uz, x), d(uy, x) - d(ux, y)]
    if name == 'vector_laplacian':
        return [sum(d(d(u, x), x) for x in X) for u in fields]
    return None


def run_cases(ck, res, n_cases, n_interval):
    torch = enga.import_repo()
    from neurodiffeq import operators as O
    from neurodiffeq.networks import FCNN
    r = ck.rng('cases')
    names = [t.name for t in TARGETS if spec(t.name)]
    goals, dist = [], {}
    for ci in range(n_cases):
        name = names[ci % len(names)]
        n, syms = spec(name)
        leaves = [f'x{i}' for i in range(1, n + 1)]
        nrows = r.randint(1, 5)
        pts = {l: [dy(r, -2, 2, 4) for _ in range(nrows)] for l in leaves}
        if r.random() < 0.2:      # (random, not `ci % k`: the operator is chosen by `ci % 20`, a modular trigger would alias)
            # every sample on a symmetry plane x_j = 0: a derivative that VANISHES on the whole batch is still a function of
            # the coordinates (its own derivatives need not vanish)
            pts[r.choice(leaves)] = [0.0] * nrows
        X = {l: enga.col(torch, pts[l]) for l in leaves}
        aliased = None
        if n >= 2 and (name.split('_')[0] in ('laplacian', 'grad', 'div') or name == 'vector_laplacian') and r.random() < 0.12:
            # the SAME tensor object passed for two coordinates (u(t, t) with laplacian(u, t, t)): every LISTED coordinate
            # contributes its term (2 u_tt here), whatever identity / hashing the implementation uses to organise them (C08/i).
            # Only the textbook oracle applies (the generated term treats the coordinates as independent variables).
            i_, j_ = r.sample(range(n), 2)
            pts[leaves[j_]] = pts[leaves[i_]]
            X[leaves[j_]] = X[leaves[i_]]
            aliased = [leaves[i_], leaves[j_]]
        affine_case = r.random() < 0.25
        # a quarter of the cases: fields affine in the coordinates (constant slopes: derivatives that do not require grad)
        probes = {s: (Probe.affine(len(dep), dy(r, -2, 2), [dy(r, -2, 2) or 1.0 for _ in dep]) if affine_case else Probe(len(dep), r, nterms=r.randint(1, 3)))
                  for s, dep in syms}
        fields = [probes[s].torch(*[X[l] for l in dep]) for s, dep in syms]
        bare = {}
        if r.random() < 0.17:
            # some components are a coordinate column ITSELF (the leaf tensor, no autograd history): the position field
            # (x, y, z) has divergence 3; "no history" does not mean "constant"
            for k, (s, dep) in enumerate(syms):
                if dep and (k == 0 or r.random() < 0.5):
                    j = r.randrange(len(dep))
                    probes[s] = Probe.affine(len(dep), 0.0, [1.0 if q == j else 0.0 for q in range(len(dep))])
                    fields[k] = X[dep[j]]
                    bare[s] = dep[j]
        inp = {'op': name, 'fields': {s: probes[s].describe() for s, _ in syms}, 'points': pts, 'bare_leaf_components': bare}
        if aliased:
            inp['same_tensor_for_coordinates'] = aliased
        try:
            out = call_real(O, name, fields, [X[l] for l in leaves])
        except Exception as e:
            ck.fail(f'{name}/raises', f'{name} raised {type(e).__name__}: {e}', inp)
            continue
        out = [[float(v) for v in o.detach().reshape(-1)] for o in out]
        dist[name] = dist.get(name, 0) + 1
        ck.add_case((name, str(inp['fields']), str(pts)))
        if ci < 8:
            ck.sample({'op': name, 'fields': inp['fields'], 'points': pts, 'impl': [o[:2] for o in out]})
        scale = 1 + max(abs(v) for o in out for v in o)
        # the property's oracle for probe fields = the jets themselves (textbook expression)
        tb = textbook(torch, name, fields, [X[l] for l in leaves])
        if tb is not None:
            for k, (o, t) in enumerate(zip(out, tb)):
                tv = [float(v) for v in t.detach().reshape(-1)]
                for i in range(nrows):
                    if not enga.close(o[i], tv[i], scale):
                        ck.fail(f'{name}/component{k}', f'{name} component {k} differs from the textbook expression', inp, expected=tv[i], actual=o[i])
        if res is None or name not in res or 'terms' not in res[name] or aliased:
            continue
        terms = res[name]['terms']
        fenv = {s: probes[s].jet for s, _ in syms}
        for k, term in enumerate(terms):
            for i in range(nrows):
                venv = {l: pts[l][i] for l in leaves}
                mv = ir.feval(term, venv, {}, fenv)
                ck.traces += 1
                if not enga.close(mv, out[k][i], scale):
                    ck.broke('correspondence-broken', f'pyfront:{name}', f'component {k} row {i}: model {mv!r} impl {out[k][i]!r} input {inp}')
                    # the jets are the textbook ground truth: a mismatch is also an oracle failure candidate
                    break
        if len(goals) < n_interval and n <= 3 and ir.size(ir.expand(terms[0])) < 400:
            venv = {l: pts[l][0] for l in leaves}
            goals.append(enga.interval_goal(f'{name}#{ci}', terms[0], venv, {}, probes, out[0][0], scale,
                                            gen=('Gen_C08', name, 'term_0' if res[name]['multi'] else 'term'), names=res[name]['names']))
    # ---- rejected call shapes
    for args, label in ((0, 'empty'), (3, 'odd')):
        ck.add_case(('div-reject', label))
        try:
            O.div(*[enga.col(torch, [1.0]) for _ in range(args)])
            ck.fail(f'div/accepts-{label}', f'div accepted {args} arguments', {'nargs': args})
        except RuntimeError:
            pass
        except Exception as e:
            ck.fail(f'div/accepts-{label}', f'div raised {type(e).__name__} instead of RuntimeError', {'nargs': args})
    # ---- network fields: the operators against raw autograd
    for ci in range(max(4, n_cases // 10)):
        n = r.randint(1, 4)
        torch.manual_seed(r.randrange(10 ** 6))
        net = FCNN(n_input_units=n, n_output_units=max(n, 3), hidden_units=(r.randint(2, 8),))
        X = [enga.col(torch, [dy(r, -2, 2, 4) for _ in range(3)]) for _ in range(n)]
        out_all = net(torch.cat(X, dim=1))
        comps = [out_all[:, j:j + 1] for j in range(out_all.shape[1])]
        for name in ([f'grad_{n}', f'div_{n}', f'laplacian_{n}'] + (['curl', 'vector_laplacian'] if n == 3 else [])):
            fields = comps[:len(spec(name)[1])]
            got = call_real(O, name, fields, X)
            tb = textbook(torch, name, fields, X)
            ck.add_case((name, 'fcnn', ci))
            for k, (o, t) in enumerate(zip(got, tb)):
                if not torch.allclose(o, t, rtol=1e-9, atol=1e-11):
                    ck.fail(f'{name}/network-field', f'{name} on a network field differs from the textbook expression', {'op': name, 'n': n, 'seed': ci})
            # results remain differentiable
            if not all(o.requires_grad for o in got):
                ck.fail(f'{name}/not-differentiable', f'{name} returned a tensor that does not require grad', {'op': name, 'n': n})
    ck.extra['input_distribution'] = dist
    return goals


def main():
    ck = Check('C08')
    ck.rule = ('cases = (operator or composition of two operators x dimension 1..4 x random smooth probe fields '
               '(polynomial/sin/exp products with known jets, incl. fields independent of some coordinates) x random points); '
               'every component and row of the real operator is compared with the generated term evaluated on the jets and with '
               'an independent raw-autograd recomputation; plus FCNN network fields')
    ck.step_hygiene()
    res = ck.step_generate('Gen_C08', TARGETS)
    if res is not None:
        ck.step_prove('P_C08')
    n = 15000 if ck.thorough() else 120
    goals = run_cases(ck, res, n, 100 if ck.thorough() else 8)
    if res is not None:
        ck.step_interval_goals('corr', goals)
    if ck.broken and not ck.failures:
        ck.notes.append('search: re-ran the implementation oracle on 4x more inputs after a broken obligation')
        run_cases(ck, None, n * 4, 0)
    ck.finish(
        trusted_extra=['Interval (interval tactic) for in-kernel correspondence goals',
                       'modelled not verified: IEEE-754 rounding, torch.autograd (= symbolic D; None result <-> syntactic independence)'],
        assumptions=['fields are function symbols of the coordinate leaves with arbitrary jets (mixed partials symmetric)',
                     'n-ary operators: generic theorem for every n; the tie to the code is at n = 1..4'])


if __name__ == '__main__':
    main()
