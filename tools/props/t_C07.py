"""C07 generator: method tables and per-index node formulas of the atomic generators, extracted
from the *current* source text of neurodiffeq/generators.py on every run (fail-closed).

An abstract interpreter (a subclass of pyfront's Interp; tools/pyfront is not edited) runs each
constructor with symbolic bounds/sizes and a concrete method string, then the getter.  Tensors
are abstract values (AT): a per-index real formula (IR term over the index leaf `i`, draw leaves
u*/z*/s*), a symbolic length, a requires_grad flag propagated through the torch calls, whether
an RNG call of the *getter phase* flows into it, meshgrid position / indexing / flatten.  The
method strings tried are exactly the string constants the constructor compares `method` with;
a method is accepted iff the interpreted constructor does not raise.

Output: coq/gen/Gen_C07.v (table : list entry, det_terms, modules with named terms) and
coq/gen/Gen_C07.json (the same, for the harness)."""
import ast
import json
import os

from pyfront import ir
from pyfront.interp import Interp, TranslationError, RaisedInSource, Builtin, Obj, Closure, Opaque, BoundMethod

F = 'neurodiffeq/generators.py'
P = lambda n: ('par', n)
V = lambda n: ('var', n)
PI = ('par', 'pi')
LN10 = ('ln', ('cst', 10))

CANON_VARS = ['i', 'u0', 'u1', 'u2', 'u3', 'z0', 's0', 's1', 'atan', 'denom']
CANON_PARS = ['a', 'b', 'n', 'pi', 'tiny']


def _is_static(fn):
    return any(isinstance(d, ast.Name) and d.id == 'staticmethod' for d in fn.decorator_list)


class NeedFact(TranslationError):
    def __init__(self, file, line, key):
        super().__init__(file, line, f'comparison {key} is not decided by the configuration')
        self.key = key


class AT:
    """Abstract 1-D (or meshed) tensor."""
    def __init__(self, term, length, rg=False, fresh=False, rand=False, perm=False, mesh=None, flat=True, zero=False,
                 wrap=None, clamp=None):
        self.term, self.length = term, length
        self.clamp = clamp        # None | (lo term, hi term): torch.clamp(term, lo, hi), only acos may follow
        self.rg, self.fresh, self.rand, self.perm = rg, fresh, rand, perm
        self.mesh = mesh          # None | (position, indexing, [lengths of all axes])
        self.flat = flat
        self.zero = zero
        self.wrap = wrap          # None | ('acos',) | ('acos', lo, hi) (clamped argument) | ('atan2', yterm, xterm)

    def like(self, term, **kw):
        d = dict(rg=self.rg, fresh=self.fresh, rand=self.rand, perm=self.perm, mesh=self.mesh, flat=self.flat, wrap=self.wrap, zero=self.zero, clamp=self.clamp)
        d.update(kw)
        length = d.pop('length', self.length)
        return AT(term, length, **d)


class Shape:
    def __init__(self, length):
        self.length = length


def factors(t):
    """Normalised product of a symbolic length: sorted tuple of factor strings."""
    if not isinstance(t, int) and t[0] == 'sub' and t[2] == ('cst', 1) and t[1][0] == 'add' and t[1][2] == ('cst', 1):
        return factors(t[1][1])            # (n + 1) - 1
    if isinstance(t, int):
        return () if t == 1 else (str(t),)
    if t[0] == 'mul':
        return tuple(sorted(factors(t[1]) + factors(t[2])))
    if t[0] == 'cst':
        return () if t[1] == 1 else (str(t[1]),)
    return (json.dumps(t),)


class GenInterp(Interp):
    def __init__(self, repo, relpath):
        super().__init__(repo, relpath)
        self.phase = 'ctor'
        self.rng = {'ctor': [], 'call': []}
        self.facts = {}
        self.n_draw = {'u': 0, 'z': 0, 's': 0}
        self.leaf_defs = {}           # leaf m<k> -> (argument term, lower bound term): leaf = max(argument, bound)
        self.perm_pos = {}            # id(term) of a permuted tensor -> (phase, position) of its randperm call
        self.draw_pos = {}            # leaf name -> (phase, position in that phase's RNG call list)

    # ------------------------------------------------------------- helpers
    def scalar(self, node, v):
        if isinstance(v, AT):
            self.err(node, 'tensor used where a scalar is expected')
        if isinstance(v, bool):
            self.err(node, 'bool used as a number')
        if isinstance(v, (int, float)):
            return ir.const(v)
        if ir.is_term(v):
            return v
        self.err(node, f'{type(v).__name__} used as a number')

    def length_of(self, node, v):
        if isinstance(v, Shape):
            return v.length
        if isinstance(v, (tuple, list)) and len(v) == 1 and not ir.is_term(v):
            return self.length_of(node, v[0])
        if isinstance(v, int) and not isinstance(v, bool):
            return ('cst', v)
        if ir.is_term(v):
            return v
        self.err(node, f'cannot read a tensor length from {type(v).__name__}')

    def draw(self, kind, fn, length):
        name = f'{kind}{self.n_draw[kind]}'
        self.n_draw[kind] += 1
        self.draw_pos[name] = (self.phase, len(self.rng[self.phase]))
        self.rng[self.phase].append(fn)
        return AT(V(name), length, fresh=self.phase == 'call', rand=True)

    def same_len(self, node, a, b):
        if factors(a.length) != factors(b.length):
            self.err(node, f'element-wise operation on tensors of different symbolic lengths {a.length} / {b.length}')

    # ------------------------------------------------------------- calling conventions
    def call_function(self, node, args, kwargs, closure_env, owner=None):
        if node.args.kwarg is not None:
            named = {p.arg for p in node.args.args} | {k.arg for k in node.args.kwonlyargs}
            extra = {k: v for k, v in kwargs.items() if k not in named}
            kwargs = {k: v for k, v in kwargs.items() if k in named}
            closure_env = dict(closure_env)
            closure_env[node.args.kwarg.arg] = extra
            node2 = ast.FunctionDef(name=node.name, args=ast.arguments(posonlyargs=[], args=node.args.args, vararg=node.args.vararg,
                                                                       kwonlyargs=node.args.kwonlyargs, kw_defaults=node.args.kw_defaults,
                                                                       kwarg=None, defaults=node.args.defaults),
                                    body=node.body, decorator_list=node.decorator_list, lineno=node.lineno)
            return super().call_function(node2, args, kwargs, closure_env, owner=owner)
        return super().call_function(node, args, kwargs, closure_env, owner=owner)

    def assign(self, target, val, env):
        if isinstance(target, ast.Attribute) and target.attr == 'requires_grad':
            obj = self.eval(target.value, env)
            if isinstance(obj, AT) and isinstance(val, bool):
                obj.rg = val              # in place, as torch does
                return
        return super().assign(target, val, env)

    def eval(self, n, env):
        if isinstance(n, ast.UnaryOp) and isinstance(n.op, ast.USub):
            v = super().eval(n.operand, env) if not isinstance(n.operand, ast.UnaryOp) else self.eval(n.operand, env)
            if isinstance(v, AT):
                return v.like(('neg', v.term))
            if isinstance(v, (int, float)) and not isinstance(v, bool):
                return -v
            return ('neg', self.scalar(n, v))
        return super().eval(n, env)

    def attribute(self, n, env):
        base = self.eval(n.value, env)
        a = n.attr
        if isinstance(base, AT):
            if a == 'dtype':
                return Opaque('dtype')
            return ('%atmethod', base, a)
        if isinstance(base, dict) and a == 'pop':
            return ('%dictpop', base)
        if isinstance(base, dict) and a == 'keys':
            return ('%dictkeys', base)
        if isinstance(base, Builtin) and f'{base.name}.{a}' == 'numpy.pi':
            return PI
        if isinstance(base, Opaque) and base.what == 'finfo' and a == 'tiny':
            return ('par', 'tiny')        # smallest positive normal float: a positive constant
        # re-dispatch without evaluating n.value twice: build a constant node
        return super().attribute(ast.Attribute(value=_Pre(base), attr=a, lineno=getattr(n, 'lineno', 0)), env)

    def apply(self, n, f, args, kwargs):
        # a @staticmethod helper called through the instance: the instance is not passed
        if isinstance(f, BoundMethod) and _is_static(f.func_node):
            return self.call_function(f.func_node, list(args), kwargs, {}, owner=f.owner)
        if isinstance(f, tuple) and f and f[0] == '%atmethod':
            return self.at_method(n, f[1], f[2], args, kwargs)
        if isinstance(f, tuple) and f and f[0] == '%dictpop':
            if len(args) not in (1, 2) or kwargs:
                self.err(n, 'dict.pop usage')
            if args[0] in f[1]:
                return f[1].pop(args[0])
            if len(args) == 2:
                return args[1]
            self.err(n, 'dict.pop of a missing key')
        if isinstance(f, tuple) and f and f[0] == '%dictkeys':
            return list(f[1].keys())
        return super().apply(n, f, args, kwargs)

    def at_method(self, n, t, meth, args, kwargs):
        if meth == 'requires_grad_' and args in ([True], []) and not kwargs:
            t.rg = True                       # in place, as torch does
            return t
        if meth == 'flatten' and not args and not kwargs:
            return self._flatten(t)
        if meth == 'size' and not args and not kwargs:
            return Shape(t.length)
        if meth == 'clone' and not args and not kwargs:
            return t.like(t.term)
        if meth == 'detach' and not args and not kwargs:
            return t.like(t.term, rg=False)
        if meth == 'abs' and not args and not kwargs:
            if t.wrap or t.clamp:
                self.err(n, '.abs() of an acos/atan2/clamp result')
            return t.like(('abs', t.term), zero=False)
        self.err(n, f'tensor method .{meth} not accepted')

    def _flatten(self, t):
        r = t.like(t.term, flat=True)
        if t.mesh is not None and not t.flat:
            ln = t.mesh[2][0]
            for x in t.mesh[2][1:]:
                ln = ('mul', ln, x)
            r.length = ln
        return r

    # ------------------------------------------------------------- comparisons decided by guards
    def compare(self, n, env):
        if len(n.ops) == 1 and isinstance(n.ops[0], (ast.Lt, ast.LtE, ast.Gt, ast.GtE)):
            left, right = self.eval(n.left, env), self.eval(n.comparators[0], env)
            sym = lambda v: ir.is_term(v) and v[0] == 'par'
            if sym(left) or sym(right):
                nm = lambda v: v[1] if sym(v) else repr(v)
                key = f'{nm(left)} {type(n.ops[0]).__name__} {nm(right)}'
                if key not in self.facts:
                    raise NeedFact(self.mod.relname, n.lineno, key)
                return self.facts[key]
            n = ast.Compare(left=_Pre(left), ops=n.ops, comparators=[_Pre(right)], lineno=n.lineno)
        return super().compare(n, env)

    # ------------------------------------------------------------- subscripts on tensors
    def subscript(self, n, env):
        base = self.eval(n.value, env)
        if isinstance(base, AT):
            sl = n.slice
            if isinstance(sl, ast.Slice):
                lo = None if sl.lower is None else self.eval(sl.lower, env)
                hi = None if sl.upper is None else self.eval(sl.upper, env)
                if sl.step is not None:
                    self.err(n, 'slice step')
                if lo is None and hi is None:
                    return base
                if lo is None and hi == -1 and base.mesh is None:
                    return base.like(base.term, length=('sub', base.length, ('cst', 1)))
                self.err(n, 'tensor slice not accepted')
            idx = self.eval(sl, env)
            if isinstance(idx, int) and not isinstance(idx, bool) and idx >= 0 and base.mesh is None and not base.rand:
                return subst_var(base.term, 'i', ('cst', idx))          # a scalar
            if isinstance(idx, tuple) and idx and idx[0] == '%perm':
                if factors(idx[1]) != factors(base.length):
                    self.err(n, 'permutation length differs from the tensor length')
                self.perm_pos[id(base.term)] = idx[2]
                return base.like(base.term, zero=False, perm=True, fresh=base.fresh or self.phase == 'call', rand=True, rg=base.rg)
            self.err(n, 'tensor index not accepted')
        return super().subscript(ast.Subscript(value=_Pre(base), slice=n.slice, lineno=getattr(n, 'lineno', 0)), env)

    # ------------------------------------------------------------- arithmetic
    def binop(self, node, op, a, b):
        if isinstance(a, AT) or isinstance(b, AT):
            tag = {ast.Add: 'add', ast.Sub: 'sub', ast.Mult: 'mul', ast.Div: 'div'}.get(op)
            if tag is None:
                self.err(node, f'operator {op.__name__} on a tensor')
            if isinstance(a, AT) and isinstance(b, AT):
                self.same_len(node, a, b)
                if a.mesh != b.mesh or a.flat != b.flat:
                    if not (a.mesh is None or b.mesh is None):
                        self.err(node, 'element-wise operation on tensors from different meshes')
                if a.wrap or b.wrap or a.clamp or b.clamp:
                    self.err(node, 'arithmetic on acos/atan2/clamp results of two tensors')
                base = a if a.mesh is not None or b.mesh is None else b
                zero = False
                return AT((tag, a.term, b.term), base.length, rg=a.rg or b.rg, fresh=a.fresh or b.fresh, rand=a.rand or b.rand,
                          perm=a.perm or b.perm, mesh=base.mesh, flat=base.flat, zero=zero)
            t, s, left = (a, b, True) if isinstance(a, AT) else (b, a, False)
            sv = self.scalar(node, s)
            term = (tag, t.term, sv) if left else (tag, sv, t.term)
            if tag == 'div' and not left:
                self.err(node, 'scalar / tensor')
            if t.clamp is not None:
                self.err(node, 'arithmetic on a clamp result')
            if t.wrap is not None:
                if t.wrap[0] != 'atan2':
                    self.err(node, 'arithmetic on an acos result')
            return t.like(term, zero=t.zero and tag == 'mul')
        if op is ast.Pow and isinstance(a, (int, float)) and not isinstance(a, bool) and a > 0 and a != 1 and ir.is_term(b):
            return ('exp', ('mul', b, ('ln', ir.const(a))))          # base ** exponent, concrete positive base
        return super().binop(node, op, a, b)

    # ------------------------------------------------------------- torch / numpy
    def builtin(self, n, name, args, kwargs):
        if name == 'torch.log10' and len(args) == 1 and not kwargs and isinstance(args[0], AT) and not args[0].wrap and not args[0].clamp:
            return args[0].like(('div', ('ln', args[0].term), LN10), zero=False)
        un = {'torch.cos': 'cos', 'torch.sqrt': 'sqrt', 'torch.log': 'ln', 'torch.abs': 'abs', 'torch.sin': 'sin', 'torch.exp': 'exp'}
        if name in un and len(args) == 1 and not kwargs and isinstance(args[0], AT):
            t = args[0]
            if t.wrap or t.clamp:
                self.err(n, f'{name} of an acos/atan2/clamp result')
            return t.like((un[name], t.term), zero=False)
        if name == 'torch.arange':
            if len(args) != 1 or kwargs:
                self.err(n, 'torch.arange(n) expected')
            return AT(V('i'), self.length_of(n, args[0]))
        if name in ('torch.linspace', 'torch.logspace'):
            rg = kwargs.pop('requires_grad', False)
            steps = kwargs.pop('steps', None)
            args = list(args)
            if 'start' in kwargs and not args:
                args.append(kwargs.pop('start'))
            if 'end' in kwargs and len(args) == 1:
                args.append(kwargs.pop('end'))
            if steps is None:
                if len(args) != 3:
                    self.err(n, f'{name}(start, end, steps) expected')
                steps = args[2]
                args = args[:2]
            if len(args) != 2 or kwargs or not isinstance(rg, bool):
                self.err(n, f'{name} usage')
            a, b, m = self.scalar(n, args[0]), self.scalar(n, args[1]), self.length_of(n, steps)
            lin = ('add', a, ('div', ('mul', ('sub', b, a), V('i')), ('sub', m, ('cst', 1))))
            term = lin if name == 'torch.linspace' else ('exp', ('mul', lin, LN10))
            return AT(term, m, rg=rg)
        if name in ('torch.zeros', 'torch.ones'):
            rg = kwargs.pop('requires_grad', False)
            if len(args) != 1 or kwargs:
                self.err(n, f'{name} usage')
            return AT(('cst', 0 if name == 'torch.zeros' else 1), self.length_of(n, args[0]), rg=rg, zero=name == 'torch.zeros')
        if name == 'torch.rand':
            if len(args) != 1 or kwargs:
                self.err(n, 'torch.rand(size) expected')
            return self.draw('u', 'rand', self.length_of(n, args[0]))
        if name == 'torch.randperm':
            if len(args) != 1 or kwargs:
                self.err(n, 'torch.randperm(n) expected')
            pos = (self.phase, len(self.rng[self.phase]))
            self.rng[self.phase].append('randperm')
            return ('%perm', self.length_of(n, args[0]), pos)
        if name == 'torch.randint':
            kwargs.pop('dtype', None)
            if len(args) != 3 or kwargs or args[0] != 0 or args[1] != 2:
                self.err(n, 'torch.randint(0, 2, shape) expected')
            return self.draw('s', 'randint', self.length_of(n, args[2]))
        if name == 'torch.normal':
            mean = kwargs.pop('mean', args[0] if args else None)
            std = kwargs.pop('std', args[1] if len(args) > 1 else None)
            if kwargs or len(args) > 2 or not isinstance(mean, AT) or std is None:
                self.err(n, 'torch.normal(mean=<tensor>, std=<tensor|float>) expected')
            z = self.draw('z', 'normal', mean.length)
            if isinstance(std, AT):
                self.same_len(n, mean, std)
                noise_zero = std.zero
                sterm = std.term
            else:
                sterm = self.scalar(n, std)
                noise_zero = sterm == ('cst', 0)
            # torch.normal is differentiable w.r.t. mean: the result requires grad iff mean does
            return AT(('add', mean.term, ('mul', sterm, z.term)), mean.length, rg=mean.rg,
                      fresh=mean.fresh or (z.fresh and not noise_zero), rand=True, perm=mean.perm, mesh=mean.mesh, flat=mean.flat)
        if name == 'torch.meshgrid':
            idx = kwargs.pop('indexing', None)
            if kwargs:
                self.err(n, 'torch.meshgrid keywords')
            ts = list(args[0]) if len(args) == 1 and isinstance(args[0], (list, tuple)) and not isinstance(args[0], AT) else list(args)
            if not ts or not all(isinstance(t, AT) and t.mesh is None for t in ts):
                self.err(n, 'torch.meshgrid of 1-D tensors expected')
            lens = [t.length for t in ts]
            return tuple(t.like(t.term, mesh=(k, idx, lens), flat=False) for k, t in enumerate(ts))
        if name == 'torch.finfo':
            if len(args) != 1 or kwargs or not isinstance(args[0], Opaque) or args[0].what != 'dtype':
                self.err(n, 'torch.finfo(<tensor>.dtype) expected')
            return Opaque('finfo')
        if name == 'torch.clamp' and len(args) == 1 and set(kwargs) == {'min'}:
            # clamp from below only: a fresh leaf  m = max(argument, bound)  with a recorded definition
            t = args[0]
            lo = self.scalar(n, kwargs['min'])
            if not isinstance(t, AT) or t.wrap or t.clamp or t.mesh is not None or lo != ('par', 'tiny'):
                self.err(n, 'torch.clamp(<1-D tensor>, min=torch.finfo(dtype).tiny) expected')
            name_ = f'm{len(self.leaf_defs)}'
            self.leaf_defs[name_] = (t.term, lo)
            return t.like(V(name_), zero=False)
        if name == 'torch.clamp':
            if len(args) != 3 or kwargs or not isinstance(args[0], AT) or args[0].wrap or args[0].clamp:
                self.err(n, 'torch.clamp(tensor, lo, hi) expected')
            lo, hi = self.scalar(n, args[1]), self.scalar(n, args[2])
            if lo[0] not in ('cst', 'cstq') or hi[0] not in ('cst', 'cstq'):
                self.err(n, 'torch.clamp bounds must be literals')
            return args[0].like(args[0].term, clamp=(lo, hi))
        if name == 'torch.acos':
            t = args[0]
            if len(args) != 1 or kwargs or not isinstance(t, AT) or t.wrap:
                self.err(n, 'torch.acos usage')
            return t.like(t.term, wrap=('acos',) + (tuple(t.clamp) if t.clamp else ()), rg=False, clamp=None)
        if name == 'torch.atan2':
            if len(args) != 2 or kwargs or not all(isinstance(t, AT) and not t.wrap and not t.clamp for t in args):
                self.err(n, 'torch.atan2 usage')
            y, x = args
            self.same_len(n, y, x)
            return AT(V('atan'), y.length, rg=y.rg or x.rg, fresh=y.fresh or x.fresh, rand=y.rand or x.rand, wrap=('atan2', y.term, x.term))
        if name == 'numpy.log10':
            return ('div', ('ln', self.scalar(n, args[0])), LN10)
        if name == 'numpy.log':
            return ('ln', self.scalar(n, args[0]))
        if name == 'numpy.prod':
            seq = args[0]
            if not isinstance(seq, (tuple, list)) or ir.is_term(seq) or not seq:
                self.err(n, 'np.prod of a concrete tuple expected')
            out = self.scalar(n, seq[0])
            for x in seq[1:]:
                out = ('mul', out, self.scalar(n, x))
            return out
        if name == 'float' and len(args) == 1 and ir.is_term(args[0]):
            return args[0]
        if name == 'abs' and len(args) == 1 and not kwargs and not isinstance(args[0], AT):
            v = args[0]
            if isinstance(v, (int, float)) and not isinstance(v, bool):
                return abs(v)
            return ('abs', self.scalar(n, v))
        if name == 'isinstance':
            v, t = args
            tn = t.name if isinstance(t, Builtin) else None
            if tn in ('int', 'float', 'str'):
                if ir.is_term(v):
                    return False         # symbolic sizes / bounds are passed inside tuples by the driver
                return isinstance(v, {'int': int, 'float': float, 'str': str}[tn]) and not isinstance(v, bool)
            self.err(n, f'isinstance(_, {tn}) not accepted')
        if name == 'tuple' and len(args) == 1 and isinstance(args[0], list):
            return tuple(args[0])
        return super().builtin(n, name, args, kwargs)

    def as_bool(self, node, v):
        if isinstance(v, (AT, Shape)):
            self.err(node, 'truth value of a tensor')
        return super().as_bool(node, v)


class _Pre(ast.AST):
    """An AST leaf holding an already evaluated value (so that operands are evaluated once)."""
    _fields = ()

    def __init__(self, value):
        super().__init__()
        self.value_ = value
        self.lineno = 0


_orig_eval = GenInterp.eval


def _eval(self, n, env):
    if isinstance(n, _Pre):
        return n.value_
    return _orig_eval(self, n, env)


GenInterp.eval = _eval


def subst_var(t, name, val):
    k = t[0]
    if k == 'var':
        return val if t[1] == name else t
    if k in ('par', 'cst', 'cstq'):
        return t
    if k == 'pow':
        return ('pow', subst_var(t[1], name, val), t[2])
    if k in ir.UN:
        return (k, subst_var(t[1], name, val))
    if k in ir.BIN:
        return (k, subst_var(t[1], name, val), subst_var(t[2], name, val))
    raise ValueError(k)


def z_coeffs(t, acc=None):
    """All S with a node ('mul', S, ('var', 'z0')) in t: the std of the torch.normal draw."""
    acc = [] if acc is None else acc
    k = t[0]
    if k == 'mul' and t[2] == ('var', 'z0'):
        acc.append(t[1])
        z_coeffs(t[1], acc)
    elif k == 'pow' or k in ir.UN:
        z_coeffs(t[1], acc)
    elif k in ir.BIN:
        z_coeffs(t[1], acc); z_coeffs(t[2], acc)
    return acc


def rename(t, vmap, pmap):
    k = t[0]
    if k == 'var':
        return ('var', vmap[t[1]])
    if k == 'par':
        return ('par', pmap[t[1]])
    if k in ('cst', 'cstq'):
        return t
    if k == 'pow':
        return ('pow', rename(t[1], vmap, pmap), t[2])
    if k in ir.UN:
        return (k, rename(t[1], vmap, pmap))
    if k in ir.BIN:
        return (k, rename(t[1], vmap, pmap), rename(t[2], vmap, pmap))
    raise ValueError(k)


# ----------------------------------------------------------------------------------------------
# class configurations

CLASSES = {
    'G1D': dict(cls='Generator1D', dim=1, ctor=lambda m: dict(size=P('n0'), t_min=P('a0'), t_max=P('b0'), method=m)),
    'G2D': dict(cls='Generator2D', dim=2, ctor=lambda m: dict(grid=(P('n0'), P('n1')), xy_min=(P('a0'), P('a1')), xy_max=(P('b0'), P('b1')), method=m)),
    'G3D': dict(cls='Generator3D', dim=3, ctor=lambda m: dict(grid=(P('n0'), P('n1'), P('n2')), xyz_min=(P('a0'), P('a1'), P('a2')),
                                                              xyz_max=(P('b0'), P('b1'), P('b2')), method=m)),
    'GND': dict(cls='GeneratorND', dim=2, ctor=lambda m, noisy: dict(grid=(P('n0'), P('n1')), r_min=(P('a0'), P('a1')), r_max=(P('b0'), P('b1')),
                                                                     methods=[m, m], noisy=noisy)),
    'GSph': dict(cls='GeneratorSpherical', dim=3, ctor=lambda m: dict(size=P('n0'), r_min=P('a0'), r_max=P('b0'), method=m)),
}

# comparisons the property's quantifier decides (positive bounds for log spacing; 0 <= r_min <= r_max)
GUARDS = {'a0 LtE 0': False, 'b0 LtE 0': False, 'a0 Lt 0': False, 'b0 Lt a0': False}


def method_strings(repo, clsname):
    """String constants the constructor (and the methods it calls on self) compares `method` with."""
    tree = ast.parse(open(os.path.join(repo, F)).read())
    out = []
    for node in tree.body:
        if isinstance(node, ast.ClassDef) and node.name == clsname:
            for fn in node.body:
                if isinstance(fn, ast.FunctionDef) and fn.name == '__init__':
                    for c in ast.walk(fn):
                        if isinstance(c, ast.Compare) and isinstance(c.left, ast.Name) and c.left.id == 'method':
                            for comp in c.comparators:
                                for k in ast.walk(comp):
                                    if isinstance(k, ast.Constant) and isinstance(k.value, str) and k.value not in out:
                                        out.append(k.value)
    if not out:
        raise TranslationError(F, 0, f'no method strings found in {clsname}.__init__')
    return out


def run_entry(repo, ckey, method, noisy=None, base=None):
    """Returns an entry dict, or None if the constructor rejects the method.  `base` (GeneratorND only): a
    concrete per-axis base for validation-only entries (the emitted table uses the default base)."""
    conf = CLASSES[ckey]
    facts = {}
    for _ in range(6):
        I = GenInterp(repo, F)
        I.facts = dict(facts)
        try:
            kw = conf['ctor'](method, noisy) if ckey == 'GND' else conf['ctor'](method)
            if base is not None:
                kw['base'] = tuple(base)
            obj = I.instantiate(conf['cls'], **kw)
            break
        except NeedFact as e:
            if e.key not in GUARDS:
                raise
            facts[e.key] = GUARDS[e.key]
        except RaisedInSource as r:
            if r.exc_name == 'ValueError':
                return None
            raise TranslationError(F, r.line, f'{conf["cls"]}({method}) raises {r.exc_name}')
    else:
        raise TranslationError(F, 0, 'guards did not converge')
    ent = {'cls': ckey, 'method': method, 'noisy': bool(noisy), 'base': list(base) if base is not None else None, 'pos_guard': any(k.endswith('LtE 0') for k in facts) or method.startswith('log-spaced'),
           'ctor_rng': list(I.rng['ctor']), 'call_rng': [], 'tensors': [], 'defs': [], 'mesh': 'none', 'getter': 'missing'}
    size = obj.attrs.get('size')
    if size is None:
        raise TranslationError(F, 0, f'{conf["cls"]}: self.size not set')
    getter = obj.attrs.get('getter')
    get_fn, _ = I.find_method(obj.cls, 'get_examples')
    src = ast.unparse(get_fn)
    uses_getter = 'self.getter()' in src
    if uses_getter:
        if isinstance(getter, (Closure, BoundMethod)):      # a lambda, a nested def or a bound method: callable
            ent['getter'] = 'lambda'
        elif getter is None:
            ent['getter'] = 'missing'
            return ent
        else:
            ent['getter'] = 'callresult'
            return ent
    else:
        ent['getter'] = 'lambda'        # get_examples computes the points itself (spherical)
    I.phase = 'call'
    res = I.call_method(obj, 'get_examples')
    ent['call_rng'] = list(I.rng['call'])
    ts = [res] if isinstance(res, AT) else list(res) if isinstance(res, (tuple, list)) else None
    if ts is None or not all(isinstance(t, AT) for t in ts):
        raise TranslationError(F, 0, f'{conf["cls"]}({method}).get_examples() does not return tensors')
    meshes = set()
    for pos, t in enumerate(ts):
        if t.clamp is not None:
            raise TranslationError(F, 0, f'{conf["cls"]}({method}): a clamped tensor is returned directly (not modelled)')
        terms = [t.term] + (list(t.wrap[1:]) if t.wrap else [])
        n_main = len(terms)
        used_defs = []
        changed = True
        while changed:                    # definitions of the max-leaves occurring in the formulas
            changed = False
            for x in list(terms):
                for l in ir.leaves(x):
                    if l in I.leaf_defs and l not in used_defs:
                        used_defs.append(l)
                        terms.append(I.leaf_defs[l][0])
                        changed = True
        if len(used_defs) > 1:
            raise TranslationError(F, 0, f'{conf["cls"]}({method}): more than one clamped denominator in one tensor')
        pars = set()
        leaves = set()
        for x in terms:
            pars |= ir.symbols(x)[0]
            leaves |= ir.leaves(x)
        axes = {p[1:] for p in pars if p not in ('pi', 'tiny')}
        if len(axes) > 1:
            raise TranslationError(F, 0, f'{conf["cls"]}({method}): tensor {pos} mixes the parameters of several axes')
        axis = int(axes.pop()) if axes else pos
        pmap = {f'a{axis}': 'a', f'b{axis}': 'b', f'n{axis}': 'n', 'pi': 'pi', 'tiny': 'tiny'}
        vmap = {'i': 'i', 'atan': 'atan'}
        for l in used_defs:
            vmap[l] = 'denom'
        for kind in 'uzs':
            names = sorted((l for l in leaves if l[0] == kind and l[1:].isdigit()), key=lambda s: int(s[1:]))
            for k, nm in enumerate(names):
                vmap[nm] = f'{kind}{k}'
        try:
            cterms = [rename(x, vmap, pmap) for x in terms]
        except KeyError as e:
            raise TranslationError(F, 0, f'{conf["cls"]}({method}): unexpected symbol {e}')
        for x in cterms:
            bad = (ir.leaves(x) - set(CANON_VARS)) | (ir.symbols(x)[0] - set(CANON_PARS))
            if bad:
                raise TranslationError(F, 0, f'{conf["cls"]}({method}): symbols outside the canonical set: {sorted(bad)}')
        wrap = 'none'
        if t.wrap:
            wrap = ('acos_clamp' if len(t.wrap) == 3 else 'acos') if t.wrap[0] == 'acos' else 'phi'
        noise = any(l.startswith('z') for l in ir.leaves(cterms[0]))
        if t.mesh is not None:
            meshes.add((t.mesh[1], t.flat))
        inv = {v: k for k, v in vmap.items()}
        draws = {c: list(I.draw_pos[inv[c]]) for c in sorted(set().union(*[ir.leaves(x) for x in cterms])) if c in inv and inv[c] in I.draw_pos}
        ppos = I.perm_pos.get(id(t.term))
        defs = [{'leaf': 'denom', 'arg': cterms[n_main + j], 'lo': rename(I.leaf_defs[l][1], vmap, pmap)} for j, l in enumerate(used_defs)]
        for dd in defs:
            if dd not in ent['defs']:
                ent['defs'].append(dd)
        ent['tensors'].append({'draws': draws, 'perm_pos': list(ppos) if ppos else None, 'defs': defs, 'term': cterms[0], 'aux': cterms[1:n_main], 'wrap': wrap, 'len_ok': factors(t.length) == factors(I.scalar(get_fn, size)) and t.flat,
                               'rg': bool(t.rg), 'fresh': bool(t.fresh), 'noise': noise, 'rand': bool(t.rand), 'perm': bool(t.perm),
                               'par_axis': axis, 'mesh_pos': None if t.mesh is None else t.mesh[0]})
    if len(meshes) > 1:
        raise TranslationError(F, 0, f'{conf["cls"]}({method}): outputs come from different meshes')
    if meshes:
        idx, flat = meshes.pop()
        ent['mesh'] = {'ij': 'ij', 'xy': 'xy', None: 'default'}.get(idx, 'other') if flat else 'unflattened'
    return ent


def build_table(repo):
    table = []
    for ckey, conf in CLASSES.items():
        if ckey == 'GND':
            # the per-axis method strings are compared inside the loop: `method == ...` on the loop variable
            ms = method_strings(repo, conf['cls'])
            for m in ms:
                for noisy in (False, True):
                    e = run_entry(repo, ckey, m, noisy)
                    if e is not None:
                        table.append(e)
            continue
        for m in method_strings(repo, conf['cls']):
            e = run_entry(repo, ckey, m)
            if e is not None:
                table.append(e)
    return table


# ----------------------------------------------------------------------------------------------
# emission

def ident(s):
    return ''.join(c if c.isalnum() else '_' for c in s)


def coq_term(t):
    nm = ir.Names()
    return ir.coq(t, nm)


def coq_bool(b):
    return 'true' if b else 'false'


def entry_name(e):
    return f'{e["cls"]}_{ident(e["method"])}' + ('_noisy' if e['noisy'] else '')


def emit(table):
    out = ['(* GENERATED by tools/props/t_C07.py from neurodiffeq/generators.py on every run -- do not edit.',
           '   Method tables of the atomic generators and the per-index formulas of every returned tensor. *)',
           'From Coq Require Import Reals List ZArith String.', 'From ND.lib Require Import Expr.',
           'From ND.model Require Import AtomicGen.', 'Import ListNotations.', 'Open Scope string_scope.', '']
    det = []
    stds = []
    names = []
    for e in table:
        nm = entry_name(e)
        names.append(nm)
        out.append(f'Module {nm}.')
        tnames = []
        for k, t in enumerate(e['tensors']):
            out.append(f'  Definition term_{k} : expr :=\n    {coq_term(t["term"])}.')
            for j, a in enumerate(t['aux']):
                out.append(f'  Definition aux_{k}_{j} : expr :=\n    {coq_term(a)}.')
            wrap = {'none': 'WNone', 'acos': 'WAcos'}.get(t['wrap']) or \
                (f'(WAcosClamp aux_{k}_0 aux_{k}_1)' if t['wrap'] == 'acos_clamp' else f'(WPhi aux_{k}_0 aux_{k}_1)')
            mp = 'None' if t['mesh_pos'] is None else f'(Some {t["mesh_pos"]}%nat)'
            out.append(f'  Definition tensor_{k} : tinfo := mk_tinfo term_{k} {wrap} {coq_bool(t["len_ok"])} {coq_bool(t["rg"])} '
                       f'{coq_bool(t["fresh"])} {coq_bool(t["noise"])} {coq_bool(t["rand"])} {coq_bool(t["perm"])} {t["par_axis"]}%nat {mp}.')
            tnames.append(f'tensor_{k}')
            if t['noise']:
                for c in z_coeffs(t['term']):
                    if c not in stds:
                        stds.append(c)
            if not t['noise'] and t['wrap'] == 'none' and e['cls'] != 'GSph':
                key = (t['term'], e['pos_guard'])
                if key not in det:
                    det.append(key)
        dnames = []
        for j, dd in enumerate(e['defs']):
            out.append(f'  Definition def_{j}_arg : expr :=\n    {coq_term(dd["arg"])}.')
            out.append(f'  Definition def_{j}_lo : expr :=\n    {coq_term(dd["lo"])}.')
            dnames.append(f'(v_{dd["leaf"]}, def_{j}_arg, def_{j}_lo)')
        rl = lambda l: '[' + '; '.join({'rand': 'RRand', 'normal': 'RNormal', 'randperm': 'RRandperm', 'randint': 'RRandint'}[x] for x in l) + ']'
        getter = {'lambda': 'GetLambda', 'callresult': 'GetCallResult', 'missing': 'GetMissing'}[e['getter']]
        mesh = {'none': 'MeshNone', 'ij': 'MeshIJ', 'xy': 'MeshXY', 'default': 'MeshDefault', 'other': 'MeshOther', 'unflattened': 'MeshUnflattened'}[e['mesh']]
        out.append(f'  Definition entry : entry := mk_entry {e["cls"]} "{e["method"]}" {coq_bool(e["noisy"])} {getter} {coq_bool(e["pos_guard"])} '
                   f'[{"; ".join(tnames)}] {mesh} {rl(e["ctor_rng"])} {rl(e["call_rng"])} [{"; ".join(dnames)}].')
        out.append(f'End {nm}.\n')
    out.append('Definition table : list entry :=\n  [' + ';\n   '.join(f'{n}.entry' for n in names) + '].\n')
    out.append('(* distinct formulas of the tensors without normal noise, with the positivity guard of their entry *)')
    out.append('Definition det_terms : list (expr * bool) :=\n  [' + ';\n   '.join(f'({coq_term(t)}, {coq_bool(g)})' for t, g in det) + '].\n')
    out.append('(* distinct std factors S of the torch.normal draws (nodes  mean + S * z0) *)')
    out.append('Definition std_terms : list expr :=\n  [' + ';\n   '.join(coq_term(t) for t in stds) + '].\n')
    return '\n'.join(out), det


def generate(repo, outdir):
    """Writes Gen_C07.v / Gen_C07.json.  Returns (ok, info)."""
    try:
        table = build_table(repo)
    except TranslationError as e:
        return False, {'error': str(e)}
    except RaisedInSource as e:
        return False, {'error': f'unexpected raise in source: {e}'}
    text, det = emit(table)
    os.makedirs(outdir, exist_ok=True)
    vpath = os.path.join(outdir, 'Gen_C07.v')
    old = open(vpath).read() if os.path.exists(vpath) else None
    if old != text:
        with open(vpath, 'w') as f:
            f.write(text)
    with open(os.path.join(outdir, 'Gen_C07.json'), 'w') as f:
        json.dump({'table': table, 'det_terms': [[t, g] for t, g in det]}, f)
    return True, {'table': table, 'det_terms': det, 'changed': old != text, 'vpath': vpath}


def generate_for_make(repo=None, outdir=None):
    """Entry point for tools/registry.py-style pre-build generation."""
    import common
    with common.Lock():
        return generate(repo or common.REPO, outdir or common.GEN)
