#!/venv/bin/python
"""C13 -- generator combinators preserve points, pairing and size arithmetic.
Engine B: model coq/model/GenComb.v, theorems coq/props/P_C13.v (any tree, any depth, any call
index), correspondence of the executable model (vm_compute inside Coq) with the REAL classes
on random / enumerated expression trees over spying leaves with identifiable points, scripted
randperm / randint, logged filter masks; plus the property's own oracle: a list-based reference
interpreter written from the property text (rows are atomic) fed the recorded leaf draws.
DESIGN.md section 7, C13."""
import itertools
import json
import os
import sys

sys.path.insert(0, os.path.join(os.path.dirname(os.path.abspath(__file__)), '..'))
from common import Check, coq_make
from props import t_C13
from harness import enga
from harness import gen_drivers as gd
from harness import gen_comb as gc

PREAMBLE = ('From Coq Require Import List ZArith Bool.\nImport ListNotations.\n'
            'From ND.model Require Import Batch GenComb.\nLocal Open Scope Z_scope.\n')

BEST = {}
COUNT = {}


def note_failure(key, top, what, exp=None, act=None):
    cost = (gc.node_count(top['tree']), top['calls'], len(json.dumps(top)))
    COUNT[key] = COUNT.get(key, 0) + 1
    if key not in BEST or cost < BEST[key][0]:
        BEST[key] = (cost, top, what, exp, act)


def flush_failures(ck):
    for key, (_, top, what, exp, act) in sorted(BEST.items()):
        ck.fail(key, f'{what} [{COUNT[key]} failing inputs with this key in this run; smallest shown]', top, exp, act)
    ck.extra['oracle_failures_by_key'] = dict(COUNT)


def show(s):
    """compact expression for messages"""
    op = s['op']
    if op == 'leaf':
        return f'L{s["id"]}[{s["size"]}x{s["dims"]}]'
    if op == 'predef':
        return f'Predef[{len(s["cols"][0])}x{len(s["cols"])}]'
    if op in gc.NARY:
        sym = {'concat': '+', 'ensemble': '*', 'mesh': '^'}[op]
        if s.get('style') == 'op' and len(s['kids']) == 2:
            return '(' + f' {sym} '.join(show(k) for k in s['kids']) + ')'
        return op.capitalize() + '(' + ', '.join(show(k) for k in s['kids']) + ')'
    extra = {'transL': lambda: f', transforms={s["ts"]}', 'transF': lambda: f', transform=T{s["t"]}', 'transN': lambda: '',
             'filter': lambda: f', f{s["m"]}' + (f', size={s["size"]}' if s['size'] is not None else '') + ('' if s['upd'] else ', update_size=False'),
             'resample': lambda: (f', size={s["size"]}' if s['size'] is not None else '') + (', replacement=True' if s['repl'] else ''),
             'static': lambda: ''}[op]()
    name = {'transL': 'Transform', 'transF': 'Transform', 'transN': 'Transform', 'filter': 'Filter', 'resample': 'Resample', 'static': 'Static'}[op]
    return f'{name}({show(s["kid"])}{extra})'


def expected_ctor_error(s):
    """constructors that must refuse: ensemble of unequal nominal sizes"""
    for n in gc.walk(s):
        if n['op'] == 'ensemble' and len({gc.nominal_size(k) for k in n['kids']}) > 1:
            return 'ValueError'
        if n['op'] == 'predef' and len({len(c) for c in n['cols']}) > 1:
            return 'ValueError'
    return None


# ------------------------------------------------------------------ the property's oracle on one run
def oracle(top, res, dist):
    """Returns the class of the case (for the distribution).  Failures go to note_failure."""
    tree = top['tree']
    root = tree['op']
    expr = ('Sampler(' if top.get('sampler') else '') + show(tree) + (')' if top.get('sampler') else '')
    exp_ctor = expected_ctor_error(tree)
    if res['ctor_error'] or exp_ctor:
        if res['ctor_error'] and not exp_ctor and res.get('partial') is not None:
            # a StaticGenerator samples its child at construction: is that first draw outside the preconditions?
            for n in gc.walk(tree):
                if n['op'] == 'static':
                    tags = set()
                    try:
                        gc.ref_rows(n['kid'], 0, res['partial'], tags)
                    except gc.Precondition as e:
                        return 'outside-precondition (at construction): ' + str(e)
                    except gc.Impossible as e:
                        key = ('+'.join(sorted(tags)) or 'resample-range') + '/' + res['ctor_error']
                        note_failure(key, top, f'{expr}: StaticGenerator samples its child at construction: {e}; the implementation raised '
                                     f'{res["ctor_error"]}', 'rows of the underlying draw', res['ctor_error'])
                        return 'finding:' + key
                    except Exception:
                        pass
        if res['ctor_error'] != exp_ctor:
            note_failure(f'constructor/{root}', top, f'{expr}: constructor raised {res["ctor_error"]}, expected {exp_ctor}', exp_ctor, res['ctor_error'])
        return 'ctor-refuses'
    b = res['built']
    cls = 'ok'
    for what in res.get('construction', []):
        note_failure(f'construction-draws/{root}', top, f'{expr}: {what}', 'no draw at construction (one for the child of a StaticGenerator)', what)
    for key, what in res.get('interference', []):
        note_failure(key, top, f'{expr}: {what}', 'unchanged', 'changed')
    for key, what in res.get('operand_reuse', []):
        note_failure(key, top, f'{expr}: {what}', 'operands unchanged by the construction of the composite', 'operand changed')
    for k, o in enumerate(res['outs']):
        tags = set()
        try:
            ref = gc.ref_rows(tree, k, b, tags)
        except gc.Precondition as e:
            return 'outside-precondition: ' + str(e)
        except gc.Impossible as e:
            key = ('+'.join(sorted(tags)) or 'resample-range') + '/' + (o[1] if o[0] == 'raises' else 'wrong-rows')
            note_failure(key, top, f'{expr}, call {k}: {e}; the implementation ' + (f'raised {o[1]}' if o[0] == 'raises' else 'returned other rows'),
                         'rows of the underlying draw', o[1] if o[0] == 'raises' else o[2])
            return 'finding:' + key
        except gd.Malformed as e:
            return 'outside-precondition: malformed leaf ' + str(e)
        except gc.Undrawn as e:
            note_failure(f'child-not-sampled/{root}', top, f'{expr}, call {k}: {e}', 'every child sampled once per call', str(e))
            return 'fail'
        if o[0] == 'raises':
            key = ('+'.join(sorted(tags)) or f'raises/{root}') + '/' + o[1].split(':')[0]
            note_failure(key, top, f'{expr}, call {k}: get_examples() raised {o[1]}; the sub-generators\' samples determine {len(ref)} rows',
                         [list(r) for r in ref[:6]], o[1])
            return 'finding:' + key
        try:
            rows = gd.rows_of(o[2])
        except gd.Malformed as e:
            note_failure(f'unpaired/{root}', top, f'{expr}, call {k}: {e}', [list(r) for r in ref[:6]], o[2])
            return 'fail'
        if rows != ref:
            j = next((i for i, (x, y) in enumerate(zip(rows, ref)) if x != y), min(len(rows), len(ref)))
            note_failure(f'rows/{root}', top,
                         f'{expr}, call {k}: returned {len(rows)} rows, the reference (property text over the recorded leaf draws) has '
                         f'{len(ref)}; first difference at row {j}: {rows[j] if j < len(rows) else None} vs {ref[j] if j < len(ref) else None}',
                         [list(r) for r in ref[:8]], [list(r) for r in rows[:8]])
            return 'fail'
        if top.get('sampler') and o[1] != 'list':
            note_failure('sampler-form', top, f'{expr}: SamplerGenerator returned a {o[1]}', 'list', o[1])
        # a filter's size after the call = number of rows it kept
        for m, (sz, kept) in res['filter_sizes'][k].items():
            node = next(n for n in gc.walk(tree) if n['op'] == 'filter' and n['m'] == m)
            if node['upd'] and kept is not None and sz != kept:
                note_failure(f'filter-size/{root}', top, f'{expr}, call {k}: filter f{m} kept {kept} rows but has size {sz}', kept, sz)
        # size arithmetic for static-size trees
        if gc.size_claimed(tree):
            if res['sizes'][k] != len(ref) or res['sizes'][k + 1] != len(ref):
                note_failure(f'size/{root}', top, f'{expr}, call {k}: .size is {res["sizes"][k]} but {len(ref)} rows are returned', len(ref), res['sizes'][k])
        else:
            cls = 'ok(size not claimed: filter below)'
        # static / predefined: same points forever
        if root in ('static', 'predef') and k > 0 and o[2] != res['outs'][0][2]:
            note_failure(f'not-constant/{root}', top, f'{expr}: call {k} differs from call 0', res['outs'][0][2], o[2])
    return cls


# ------------------------------------------------------------------ input generation
def exhaustive_tops(full):
    """bounded-exhaustive depth <= 2: every combinator over leaves (and every combinator over every
    combinator over leaves in the thorough tier), small leaf sizes and all dimension counts that type-check."""
    def leaves(ids, d, n):
        return {'op': 'leaf', 'id': ids, 'size': n, 'dims': d, 'form': 'tensor' if d == 1 else ['list', 'tuple'][(ids + n) % 2]}

    def unary(kid, d, n, mid=0):
        yield {'op': 'static', 'kid': kid}
        yield {'op': 'transF', 'kid': kid, 't': 1}
        yield {'op': 'transF', 'kid': kid, 't': 2} if d >= 1 else None
        yield {'op': 'transL', 'kid': kid, 'ts': [None if j % 2 else j + 1 for j in range(d)]}
        yield {'op': 'filter', 'kid': kid, 'm': mid, 'size': None, 'upd': True, 'salt': n % 5}
        yield {'op': 'filter', 'kid': kid, 'm': mid, 'size': n, 'upd': False, 'salt': (n + 1) % 5}
        yield {'op': 'resample', 'kid': kid, 'r': mid, 'size': None, 'repl': False}
        yield {'op': 'resample', 'kid': kid, 'r': mid, 'size': max(1, n - 1), 'repl': False}
        yield {'op': 'resample', 'kid': kid, 'r': mid, 'size': n + 1, 'repl': True}
        yield {'op': 'transN', 'kid': kid}

    def binary(a, b, da, db, na, nb):
        for st in ('op', 'ctor'):
            if da == db:
                yield {'op': 'concat', 'kids': [a, b], 'style': st}
            if na == nb:
                yield {'op': 'ensemble', 'kids': [a, b], 'style': st}
            if da == 1 and db == 1:
                yield {'op': 'mesh', 'kids': [a, b], 'style': st}

    sizes = range(1, 9) if full else (1, 2, 3, 5, 8)
    # depth 2: unary over a leaf
    for d in (1, 2, 3):
        for n in sizes:
            for s in unary(leaves(0, d, n), d, n):
                if s:
                    yield s
    # depth 3: resample directly over a size-updating filter over a leaf
    for d in (1, 2, 3):
        for n in sizes:
            f = {'op': 'filter', 'kid': leaves(0, d, n), 'm': 0, 'size': None, 'upd': True, 'salt': (n + d) % 5}
            yield {'op': 'resample', 'kid': f, 'r': 0, 'size': None, 'repl': False}
            yield {'op': 'resample', 'kid': f, 'r': 0, 'size': max(1, n // 2), 'repl': False}
            yield {'op': 'resample', 'kid': f, 'r': 0, 'size': n, 'repl': True}
    # depth 2: binary over two leaves
    for da, db in itertools.product((1, 2, 3), repeat=2):
        for na, nb in itertools.product(sizes if full else (1, 2, 3), repeat=2):
            yield from binary(leaves(0, da, na), leaves(1, db, nb), da, db, na, nb)
    # ternary constructor forms and nested meshes
    for n1, n2, n3 in itertools.product((1, 2, 3) if full else (2, 3), repeat=3):
        a, b, c = leaves(0, 1, n1), leaves(1, 1, n2), leaves(2, 1, n3)
        yield {'op': 'mesh', 'kids': [a, b, c], 'style': 'ctor'}
        yield {'op': 'mesh', 'kids': [{'op': 'mesh', 'kids': [a, b], 'style': 'op'}, c], 'style': 'op'}
        yield {'op': 'mesh', 'kids': [a, {'op': 'mesh', 'kids': [b, c], 'style': 'ctor'}], 'style': 'ctor'}
        yield {'op': 'concat', 'kids': [a, b, c], 'style': 'ctor'}
        yield {'op': 'concat', 'kids': [{'op': 'concat', 'kids': [a, b], 'style': 'op'}, c], 'style': 'op'}
        if n1 == n2 == n3:
            yield {'op': 'ensemble', 'kids': [a, b, c], 'style': 'ctor'}
    if full:
        # depth 3: unary over binary over leaves, binary over (unary, leaf)
        for da in (1, 2):
            for na, nb in itertools.product((2, 3), repeat=2):
                for inner in binary(leaves(0, da, na), leaves(1, da, nb), da, da, na, nb):
                    d = gc.dims_of(inner)
                    n = gc.nominal_size(inner)
                    for s in unary(inner, d, n):
                        if s:
                            yield s
                for u in unary(leaves(0, da, na), da, na):
                    if not u or u['op'] in ('filter',):
                        continue
                    du, nu = gc.dims_of(u), gc.nominal_size(u)
                    yield from binary(u, leaves(1, da, nb), du, da, nu, nb)


def finding_tops():
    """dedicated inputs for the recorded findings (replayed on every run)"""
    leaf = {'op': 'leaf', 'id': 0, 'size': 8, 'dims': 1, 'form': 'tensor'}
    filt = {'op': 'filter', 'kid': leaf, 'm': 0, 'size': None, 'upd': True, 'salt': 0}
    # fixed by 184d471 (must pass; a VIOLATION again if the defect returns)
    yield {'sampler': False, 'tree': {'op': 'resample', 'kid': filt, 'r': 0, 'size': None, 'repl': False}, 'calls': 2, 'rng_seed': 1}
    for seed in (2, 3):
        for repl in (False, True):
            yield {'sampler': False, 'tree': {'op': 'resample', 'kid': dict(filt, salt=seed), 'r': 0, 'size': 4 if repl else None, 'repl': repl},
                   'calls': 3, 'rng_seed': seed}
    # fixed by e57b511
    leaf2 = {'op': 'leaf', 'id': 0, 'size': 3, 'dims': 2, 'form': 'list'}
    yield {'sampler': False, 'tree': {'op': 'transN', 'kid': leaf2}, 'calls': 1, 'rng_seed': 1}
    leaf3 = {'op': 'leaf', 'id': 0, 'size': 4, 'dims': 3, 'form': 'tuple'}
    yield {'sampler': True, 'tree': {'op': 'transN', 'kid': leaf3}, 'calls': 2, 'rng_seed': 1}
    # fixed by 4431876: a combinator between the resampler and the filter keeps its construction-time .size
    yield {'sampler': False, 'tree': {'op': 'resample', 'kid': {'op': 'static', 'kid': filt}, 'r': 0, 'size': None, 'repl': False},
           'calls': 2, 'rng_seed': 1}
    yield {'sampler': False, 'tree': {'op': 'resample', 'kid': {'op': 'transL', 'kid': filt, 'ts': [3]}, 'r': 0, 'size': None, 'repl': False},
           'calls': 3, 'rng_seed': 1}
    nofilt = dict(filt, upd=False, size=8)
    yield {'sampler': False, 'tree': {'op': 'resample', 'kid': nofilt, 'r': 0, 'size': 3, 'repl': True}, 'calls': 3, 'rng_seed': 4}
    leafb = {'op': 'leaf', 'id': 1, 'size': 3, 'dims': 1, 'form': 'tensor'}
    yield {'sampler': True, 'tree': {'op': 'resample', 'kid': {'op': 'concat', 'kids': [filt, leafb], 'style': 'op'}, 'r': 0, 'size': None,
                                     'repl': False}, 'calls': 3, 'rng_seed': 5}


def offprecondition_tops(r):
    """constructors that must refuse, and trees outside the preconditions (model follows the code)"""
    a = {'op': 'leaf', 'id': 0, 'size': r.randint(1, 8), 'dims': r.randint(1, 3), 'form': 'tuple'}
    b = {'op': 'leaf', 'id': 1, 'size': a['size'] + r.randint(1, 3), 'dims': r.randint(1, 3), 'form': 'list'}
    if a['dims'] == 1:
        a['form'] = 'tensor'
    if b['dims'] == 1:
        b['form'] = 'tensor'
    yield {'op': 'ensemble', 'kids': [a, b], 'style': r.choice(['op', 'ctor'])}
    yield {'op': 'concat', 'kids': [{'op': 'ensemble', 'kids': [b, a], 'style': 'ctor'}, a], 'style': 'ctor'}


def explore(ck, torch, G, SpyLeaf, tops, dist, opdist, coq=True):
    cases = []
    for top in tops:
        res = gc.run_real(torch, G, SpyLeaf, top)
        cls = oracle(top, res, dist)
        dist[cls] = dist.get(cls, 0) + 1
        dk = f'depth{gc.depth(top["tree"])}'
        opdist[dk] = opdist.get(dk, 0) + 1
        for n in gc.walk(top['tree']):
            o = n['op'] + ('/infix' if n.get('style') == 'op' else '')
            opdist[o] = opdist.get(o, 0) + 1
        if top.get('sampler'):
            opdist['sampler'] = opdist.get('sampler', 0) + 1
        key = json.dumps(top, sort_keys=True)
        ck.add_case(key, nontrivial=gc.depth(top['tree']) >= 2)
        ck.traces += len(res['outs'])
        if coq:
            cases.append((key, gc.coq_case(top, res)))
        if len(ck.samples) < 8 and 2 <= gc.node_count(top['tree']) <= 6 and len(ck.samples) < gc.depth(top['tree']) * 3:
            ck.sample({'expression': ('Sampler ' if top.get('sampler') else '') + show(top['tree']), 'calls': top['calls'],
                       'outputs': [o[2] if o[0] != 'raises' else o for o in res['outs']][:2], 'sizes': res['sizes'], 'class': cls})
    return cases


def wrap(trees, calls=2):
    for i, t in enumerate(trees):
        yield {'sampler': i % 7 == 3, 'tree': t, 'calls': calls, 'rng_seed': 1000 + i}


def main():
    ck = Check('C13')
    ck.rule = ('a case = one combinator expression tree built from FRESH real generator objects (constructor or infix + * ^ form) over '
               'spying leaves whose points are identifiable integers, run for 1..4 get_examples() calls with scripted randperm/randint '
               'and a logged data-dependent filter predicate; afterwards consumers (BatchGenerator, SamplerGenerator) are put on top and every '
               'predefined / static node and every object handed out earlier is checked for non-interference; bounded-exhaustive over all depth<=2 shapes (depth 3 in the thorough tier) '
               'with leaf sizes 1..8 and 1..3 dimensions, typed random trees up to depth 4 beyond; distinct = distinct (tree, calls, rng '
               'script); non-trivial = depth >= 2')
    ck.step_hygiene()
    # regenerate coq/gen/Gen_C13.v from the combinator classes (fail-closed translator), then re-check the theorems,
    # among them the equalities of the generated definitions with the model
    ok, info = t_C13.setup_generate()
    ck.extra['generated'] = {k: info.get(k) for k in ('lines', 'changed')} if ok else None
    if ok:
        proved = ck.step_prove('P_C13')
    else:
        ck.broke('translator-refusal', f'Gen_C13:{info.get("target")}', info['error'])
        proved = False
    model_ok = proved or coq_make(['model/GenComb.vo'])[0]      # the correspondence needs the model only
    torch = enga.import_repo()
    from neurodiffeq import generators as G
    SpyLeaf = gd.make_leaf_class(torch, G.BaseGenerator)
    dist, opdist = {}, {}

    if ck.replay:
        rp = json.load(open(ck.replay))
        top = rp.get('input')
        if isinstance(top, dict) and 'tree' in top:
            cases = explore(ck, torch, G, SpyLeaf, [top], dist, opdist)
            for lbl in (ck.step_cases('replay', PREAMBLE, cases) if model_ok else []):
                ck.broke('correspondence-broken', 'cases:replay', f'model and implementation differ on {lbl[:400]}')
        ck.extra['input_distribution'] = {'classes': dist, 'ops': opdist}
        flush_failures(ck)
        ck.finish(trusted_extra=TRUSTED, assumptions=ASSUME)

    th = ck.thorough()
    r = ck.rng('trees')
    cases = []
    cases += explore(ck, torch, G, SpyLeaf, finding_tops(), dist, opdist)
    cases += explore(ck, torch, G, SpyLeaf, wrap(exhaustive_tops(th)), dist, opdist)
    cases += explore(ck, torch, G, SpyLeaf, wrap((t for _ in range(40 if th else 10) for t in offprecondition_tops(r)), 1), dist, opdist)
    cases += explore(ck, torch, G, SpyLeaf, (gc.random_top(r) for _ in range(14000 if th else 1200)), dist, opdist)
    # more random trees through the implementation oracle only
    explore(ck, torch, G, SpyLeaf, (gc.random_top(r) for _ in range(30000 if th else 3000)), dist, opdist, coq=False)
    ck.extra['exhaustive'] = True
    ck.extra['exhaustive_note'] = 'all depth<=2 shapes (every combinator over leaves; depth 3 unary-over-binary and binary-over-unary in thorough) enumerated'
    ck.extra['coq_cases'] = len(cases)

    if model_ok:
        bad = ck.step_cases('corr', PREAMBLE, cases, shard=150)
        for lbl in bad[:3]:
            top = json.loads(lbl)
            res = gc.run_real(torch, G, SpyLeaf, top)
            b = res['built']
            model = []
            if b is not None:
                dr, mk, rp, ri = gc.coq_tables(top, b)
                t = f'({"Sampler" if top.get("sampler") else "Plain"} {gc.coq_gen(top["tree"])})'
                model = ck.step_eval('diag', PREAMBLE, [f'run (table {dr} []) (table {mk} []) (table {rp} []) (table {ri} []) h_tvec h_tmulti {t} {k}%nat'
                                                        for k in range(len(res['outs']))])
            ck.broke('correspondence-broken', 'cases:corr:' + top['tree']['op'],
                     f'model and implementation differ on {show(top["tree"])} input {lbl[:600]}: model {model} impl {res["outs"]} sizes {res["sizes"]}')
        if len(bad) > 3:
            ck.broke('correspondence-broken', 'cases:corr', f'{len(bad)} cases differ in total')

    known = set()     # keys of the OPEN findings (none at present)
    if ck.broken and not (set(BEST) - known):
        ck.notes.append('search: after a broken obligation the implementation oracle was re-run on 12000 more random trees and the full exhaustive set')
        rs = ck.rng('search')
        explore(ck, torch, G, SpyLeaf, (gc.random_top(rs) for _ in range(12000)), dist, opdist, coq=False)
        explore(ck, torch, G, SpyLeaf, wrap(exhaustive_tops(True), 3), dist, opdist, coq=False)
    ck.extra['input_distribution'] = {'classes': dict(sorted(dist.items())), 'ops_and_depths': dict(sorted(opdist.items()))}
    flush_failures(ck)
    ck.finish(trusted_extra=TRUSTED, assumptions=ASSUME)


TRUSTED = ['coq/gen/Gen_C13.v (constructor size arithmetic / mesh flattening / ensemble check, StaticGenerator caching, the list code of '
           'FilterGenerator and ResampleGenerator.get_examples) is regenerated from the source on every run by the fail-closed translator '
           'tools/props/t_C13.py + tools/harness/gen_pyast.py and PROVED equal to the model (C13_gen_*); translator and coq/model/PySem.v trusted',
           'coq/model/GenComb.v is a hand-written model of the combinator classes of generators.py (read line by line: isinstance '
           'dispatch, zip truncation, construction-time .size, size-updating filter, child sampled before the index draw over the rows returned); tied to the code by '
           'the in-kernel correspondence cases and the implementation-level reference interpreter on every run',
           'modelled not verified: torch.cat = append, boolean-mask and index-vector indexing = select / gather, '
           'torch.meshgrid(indexing=ij)+flatten = transposed row-major Cartesian product, reshape(-1,1) = a flag',
           'tools/harness/gen_comb.py, gen_drivers.py (tree builder, spying leaves, scripted randperm/randint, reference interpreter)']
ASSUME = ['the tree is built from fresh generator objects (no object shared between two parents), so the k-th top-level call reads the k-th '
          'draw of every leaf not below a StaticGenerator',
          'leaves return one vector per dimension, all of one length; user transforms act pointwise for the row-pairing theorem',
          'ensemble children have equal run-time sizes, mesh children are one-dimensional, transforms lists have one entry per dimension '
          '(preconditions of C13_rows_paired; outside them the model still follows the code and is compared, but the property claims '
          'nothing); sampling WITH replacement needs a non-empty draw',
          'randperm returns a permutation of range(n), randint values below n (oracle contract)']


if __name__ == '__main__':
    main()
