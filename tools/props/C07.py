#!/venv/bin/python
"""C07 — every accepted sampling method of the atomic generators yields usable in-domain
differentiable points.

Steps: regenerate gen/Gen_C07.v (method table + per-index formulas) from generators.py with the
abstract interpreter of tools/props/t_C07.py; re-check props/P_C07.v; then on the real classes
  * oracle (independent of the model): every accepted method x sizes x bounds of both signs,
    get_examples() three times: count, lengths, NaN, requires_grad, domain (non-noisy),
    determinism / freshness, tensor-product structure against the documented 1-D nodes, Latin
    hypercube strata;
  * translation validation of the table: getter callable, number of tensors, RNG calls made by
    the constructor / by each get_examples() (spied), and the formulas evaluated on scripted
    torch.rand / normal / randperm / randint draws against what the implementation returned
    (float64, plus in-kernel interval goals for a sample);
  * the table's boolean facts compared with the observations inside Coq (step_cases).
DESIGN.md section 7, C07; findings F1, F8, F12 and the 0/0 case (all fixed in /repo) are in known_findings.d/C07.json."""
import json
import math
import os
import sys
import warnings

sys.path.insert(0, os.path.join(os.path.dirname(os.path.abspath(__file__)), '..'))
import common
from common import Check, REPO
from pyfront import ir
from props import t_C07
from harness import enga
from harness.probes import lit

CLASSNAME = {'G1D': 'Generator1D', 'G2D': 'Generator2D', 'G3D': 'Generator3D', 'GND': 'GeneratorND', 'GSph': 'GeneratorSpherical'}
DIM = {'G1D': 1, 'G2D': 2, 'G3D': 3, 'GSph': 3}
# every method name the documentation or the source mentions for any class (candidates; a class
# accepts the ones its constructor does not reject)
CANDIDATES = ['uniform', 'equally-spaced', 'equally-spaced-noisy', 'log-spaced', 'log-spaced-noisy', 'exp-spaced', 'chebyshev', 'chebyshev1',
              'chebyshev2', 'chebyshev2-noisy', 'latin-hypercube', 'latin_hypercube', 'equally-radius-noisy']

PRE = ('From Coq Require Import List Arith Bool String.\nFrom ND.lib Require Import Expr.\nFrom ND.model Require Import AtomicGen.\n'
       'From ND.gen Require Import Gen_C07.\nImport ListNotations.\n'
       'Definition rng_eqb (a b : rngcall) : bool := match a, b with RRand, RRand | RNormal, RNormal | RRandperm, RRandperm | RRandint, RRandint => true | _, _ => false end.\n')


# ----------------------------------------------------------------------------------------------
# the property's own table (an independent copy of the statement, not read from the model)

def requirement(cls, method, noisy):
    det = {'equally-spaced', 'log-spaced', 'exp-spaced', 'chebyshev', 'chebyshev1', 'chebyshev2'}
    if cls == 'GND':
        if method == 'uniform':
            return 'any'
        return 'fresh' if noisy else 'static'
    if cls == 'GSph':
        return 'fresh'
    if method in det:
        return 'static'
    if method.endswith('-noisy'):
        return 'fresh'
    if method == 'uniform':
        return 'fresh'
    if method in ('latin-hypercube', 'latin_hypercube'):
        return 'any'
    return 'any'


def normal_noise(cls, method, noisy):
    """Does the method add normal noise (then the domain clause does not apply)?"""
    if cls == 'GND':
        return bool(noisy)
    return method in ('equally-spaced-noisy', 'log-spaced-noisy')


def domain_applies(cls, method, noisy):
    return not normal_noise(cls, method, noisy) and method != 'chebyshev2-noisy' and cls != 'GSph'


BASES = [2, math.e, 10, 100, 1.5]


def doc_nodes(method, a, b, n, base=10):
    """Documented 1-D nodes of the deterministic methods (independent formulas); exp-spaced in the given base.
    Equally spaced knots are evaluated from the nearer end (as torch.linspace does), which keeps the float
    evaluation well-conditioned when the two ends differ by many orders of magnitude."""
    def lin(s0, s1, i):
        return s0 + (s1 - s0) * i / (n - 1) if 2 * i < n else s1 - (s1 - s0) * (n - 1 - i) / (n - 1)
    if method == 'equally-spaced':
        return [a] if n == 1 else [lin(a, b, i) for i in range(n)]
    if method == 'log-spaced':
        la, lb = math.log10(a), math.log10(b)
        return [a] if n == 1 else [10.0 ** lin(la, lb, i) for i in range(n)]
    if method == 'exp-spaced':
        ea, eb = float(base) ** a, float(base) ** b
        return [a] if n == 1 else [math.log(lin(ea, eb, i)) / math.log(base) for i in range(n)]
    if method in ('chebyshev', 'chebyshev1'):
        return [((a + b) + (b - a) * math.cos((i + 0.5) / n * math.pi)) / 2 for i in range(n)]
    if method == 'chebyshev2':
        return [((a + b) + (b - a) * math.cos(i / (n - 1) * math.pi)) / 2 for i in range(n)]
    return None


# ----------------------------------------------------------------------------------------------
# process-local RNG wrapping

class RNG:
    """Wraps torch.rand / normal / randperm / randint.  mode 'spy' records the calls and returns
    the real draws; mode 'script' returns draws taken from `r` (and records them)."""
    def __init__(self, torch, mode, r=None, force=None):
        self.torch, self.mode, self.r, self.force = torch, mode, r, force or {}
        self.calls = []
        self.orig = {k: getattr(torch, k) for k in ('rand', 'normal', 'randperm', 'randint')}

    def __enter__(self):
        t = self.torch

        def n_of(size):
            if isinstance(size, (tuple, list)):
                assert len(size) == 1
                size = size[0]
            return int(size)

        def rand(*size, **kw):
            if self.mode == 'spy':
                out = self.orig['rand'](*size, **kw)
                self.calls.append(('rand', out.tolist()))
                return out
            # torch.rand(n), torch.rand((n,)), torch.rand(n, m), torch.rand((n, m)): any shape is legitimate; the scripted
            # draws fill it in row-major order (the per-call `force` table addresses flat positions)
            shape = tuple(int(x) for x in (size[0] if len(size) == 1 and isinstance(size[0], (tuple, list, t.Size)) else size))
            n = 1
            for x in shape:
                n *= x
            k = sum(1 for c in self.calls if c[0] == 'rand')
            vals = [self.r.randrange(0, 1 << 20) / float(1 << 20) for _ in range(n)]
            if k in self.force:
                for j, v in self.force[k].items():
                    if j < n:
                        vals[j] = v
            self.calls.append(('rand', vals))
            return t.tensor(vals, dtype=t.float64).reshape(shape)

        def normal(*a, **kw):
            mean = kw.get('mean', a[0] if a else None)
            std = kw.get('std', a[1] if len(a) > 1 else None)
            if self.mode == 'spy':
                out = self.orig['normal'](*a, **kw)
                self.calls.append(('normal', None, mean.detach().tolist(), std.tolist() if hasattr(std, 'tolist') else std))
                return out
            z = [self.r.randrange(-(1 << 12), 1 << 12) / float(1 << 10) for _ in range(mean.numel())]
            self.calls.append(('normal', z, mean.detach().tolist(), std.tolist() if hasattr(std, 'tolist') else std))
            return mean + std * t.tensor(z, dtype=t.float64)

        def randperm(n, **kw):
            if self.mode == 'spy':
                out = self.orig['randperm'](n, **kw)
                self.calls.append(('randperm', out.tolist()))
                return out
            p = list(range(int(n)))
            self.r.shuffle(p)
            self.calls.append(('randperm', p))
            return t.tensor(p, dtype=t.int64)

        def randint(*a, **kw):
            if self.mode == 'spy':
                out = self.orig['randint'](*a, **kw)
                self.calls.append(('randint', out.tolist()))
                return out
            lo, hi, size = (0, a[0], a[1]) if len(a) == 2 else a      # torch.randint(high, size) / torch.randint(low, high, size)
            # any half-open integer range and any shape are legitimate calls; scripted values fill the shape in row-major order
            shape = tuple(int(x) for x in size) if isinstance(size, (tuple, list, t.Size)) else (int(size),)
            n = 1
            for x in shape:
                n *= x
            bits = [self.r.randrange(int(lo), int(hi)) for _ in range(n)]
            self.calls.append(('randint', bits))
            return t.tensor(bits, dtype=kw.get('dtype', t.int64)).reshape(shape)
        t.rand, t.normal, t.randperm, t.randint = rand, normal, randperm, randint
        return self

    def __exit__(self, *a):
        for k, f in self.orig.items():
            setattr(self.torch, k, f)

    def mark(self):
        return len(self.calls)


# ----------------------------------------------------------------------------------------------
# configurations

def build(G, cfg):
    cls, m = cfg['cls'], cfg['method']
    with warnings.catch_warnings():
        warnings.simplefilter('ignore')
        if cls == 'G1D':
            return G.Generator1D(cfg['sizes'][0], cfg['lo'][0], cfg['hi'][0], method=m)
        if cls == 'G2D':
            return G.Generator2D(tuple(cfg['sizes']), tuple(cfg['lo']), tuple(cfg['hi']), method=m)
        if cls == 'G3D':
            return G.Generator3D(tuple(cfg['sizes']), tuple(cfg['lo']), tuple(cfg['hi']), method=m)
        if cls == 'GSph':
            return G.GeneratorSpherical(cfg['sizes'][0], cfg['lo'][0], cfg['hi'][0], method=m)
        ms = cfg.get('methods') or [m] * len(cfg['sizes'])
        kw = {'abs_value': True} if cfg.get('abs_value') else {}
        if cfg.get('base') is not None:      # per-axis list/tuple, or a scalar for the N = 1 scalar spelling
            bs = cfg['base']
            kw['base'] = bs[0] if cfg.get('scalar') else (tuple(bs) if cfg.get('base_kind', 'tuple') == 'tuple' else list(bs))
        if cfg.get('scalar'):
            return G.GeneratorND(cfg['sizes'][0], cfg['lo'][0], cfg['hi'][0], methods=ms[0], noisy=cfg['noisy'], **kw)
        return G.GeneratorND(tuple(cfg['sizes']), tuple(cfg['lo']), tuple(cfg['hi']), methods=list(ms), noisy=cfg['noisy'], **kw)


def accepted_methods(G, cls):
    out = []
    for m in CANDIDATES:
        cfg = {'cls': cls, 'method': m, 'sizes': [3] * DIM.get(cls, 2), 'lo': [0.5] * 3, 'hi': [2.0] * 3, 'noisy': False}
        cfg['sizes'], cfg['lo'], cfg['hi'] = cfg['sizes'][:DIM.get(cls, 2)], cfg['lo'][:DIM.get(cls, 2)], cfg['hi'][:DIM.get(cls, 2)]
        try:
            build(G, cfg)
            out.append(m)
        except ValueError:
            pass
        except Exception:
            out.append(m)       # accepted by the method test but failing later: the oracle reports it
    return out


def gen_bounds(r, positive, nonneg=False):
    if positive:
        lo = r.choice([0.125, 0.5, 1.0, 3.0])
        return lo, lo + r.choice([0.25, 1.0, 7.5])
    if nonneg:
        lo = r.choice([0.0, 0.5, 2.0])
        return lo, lo + r.choice([0.25, 1.0, 3.0])
    lo = r.choice([-3.0, -1.5, -0.25, 0.0, 0.5, 2.0])
    return lo, lo + r.choice([0.25, 1.0, 2.5, 6.0])


def desc_ok(cls, mk, noisy):
    """May this axis be given in DESCENDING order (min argument > max argument)?  The constructors of the
    1-D/2-D/3-D/N-D classes accept it for every method (the noisy ones since the default std is
    |(max - min)/n|/4, commit 0dd583c); GeneratorSpherical rejects r_max < r_min."""
    return cls != 'GSph'


def orient(r, a, b, ok, force=None):
    """Return the interval as passed to the constructor: ascending, or (if allowed) descending."""
    desc = ok and (force if force is not None else r.random() < 0.35)
    return (b, a) if desc else (a, b)


def gen_cfgs(r, G, quick):
    """Every accepted method of every class x sampled sizes in 1..64 x bounds of both signs and BOTH ORIENTATIONS
    (descending intervals where the constructor accepts them, see desc_ok)."""
    cfgs = []
    size_pool = [1, 2, 3, 5, 7, 16, 33, 64]
    for cls in ('G1D', 'G2D', 'G3D', 'GSph'):
        d = DIM[cls] if cls != 'GSph' else 1
        for m in accepted_methods(G, cls):
            need2 = m.startswith('chebyshev2')
            k = (4 if quick else 24) if cls != 'G3D' else (3 if quick else 10)
            shapes = [[1] * d, [2] * d, [64 if cls != 'G3D' else 16] + [r.choice(size_pool[:6]) for _ in range(d - 1)]]
            while len(shapes) < k + 1:
                shapes.append([r.choice(size_pool if cls != 'G3D' else size_pool[:7]) for _ in range(d)])
            ok_d = desc_ok(cls, m, False)
            plans = [(sz, None) for sz in shapes]
            if ok_d:          # deterministic coverage: all axes descending, and only the first axis descending
                plans += [([r.choice([3, 5, 8]) for _ in range(d)], 'all'), ([r.choice([2, 4, 7]) for _ in range(d)], 'first')]
            for sz, plan in plans:
                if need2 and min(sz) < 2:
                    continue
                lo, hi = [], []
                for ax in range(d):
                    a, b = gen_bounds(r, positive=m.startswith('log-spaced'), nonneg=cls == 'GSph')
                    force = None if plan is None else (plan == 'all' or ax == 0)
                    a, b = orient(r, a, b, ok_d, force)
                    lo.append(a); hi.append(b)
                cfgs.append({'cls': cls, 'method': m, 'noisy': False, 'sizes': sz, 'lo': lo, 'hi': hi})
    nd_methods = accepted_methods(G, 'GND')
    for m in nd_methods:
        for noisy in (False, True):
            for N in (1, 2, 3):
                for rep in range(1 if quick else 6):
                    sz = [r.choice(size_pool[:6] if N == 3 else size_pool) for _ in range(N)]
                    if rep == 0 and N == 2:
                        sz = [1, 64]
                    if m == 'chebyshev2':
                        sz = [max(2, s) for s in sz]
                    lo, hi = [], []
                    for ax in range(N):
                        a, b = gen_bounds(r, positive=m == 'log-spaced')
                        a, b = orient(r, a, b, desc_ok('GND', m, noisy), force=True if (rep == 0 and N == 3 and ax == 1) else None)
                        lo.append(a); hi.append(b)
                    c = {'cls': 'GND', 'method': m, 'noisy': noisy, 'sizes': sz, 'lo': lo, 'hi': hi, 'scalar': N == 1 and rep == 0}
                    if m in ('exp-spaced', 'log-spaced'):
                        c['base'] = [BASES[(N + rep + ax + (1 if noisy else 0)) % len(BASES)] for ax in range(N)] if rep == 0 else [r.choice(BASES) for _ in range(N)]
                        c['base_kind'] = 'list' if (N + rep) % 2 else 'tuple'
                    cfgs.append(c)
    # mixed per-axis methods and abs_value
    for rep in range(4 if quick else 48):
        N = r.choice([2, 3])
        ms = [r.choice(nd_methods) for _ in range(N)]
        sz = [max(2, r.choice(size_pool[:6])) for _ in range(N)]
        lo, hi = [], []
        for m in ms:
            a, b = gen_bounds(r, positive=m == 'log-spaced')
            a, b = orient(r, a, b, desc_ok('GND', m, rep % 2 == 1))
            lo.append(a); hi.append(b)
        cfgs.append({'cls': 'GND', 'method': '+'.join(ms), 'methods': ms, 'noisy': rep % 2 == 1, 'abs_value': rep % 4 == 3, 'sizes': sz, 'lo': lo, 'hi': hi,
                     'base': [r.choice(BASES) for _ in range(N)] if rep % 3 else None})
    # every base once, deterministically (exp-spaced, N = 1 in both spellings, and per-axis bases for N = 2)
    for bi, bb in enumerate(BASES):
        cfgs.append({'cls': 'GND', 'method': 'exp-spaced', 'noisy': False, 'sizes': [5], 'lo': [0.5], 'hi': [2.0], 'scalar': bi % 2 == 0, 'base': [bb]})
    cfgs.append({'cls': 'GND', 'method': 'exp-spaced', 'noisy': False, 'sizes': [3, 4], 'lo': [0.5, 1.0], 'hi': [2.0, -1.0], 'base': [2, 100], 'base_kind': 'list'})
    return cfgs


# ----------------------------------------------------------------------------------------------
# the oracle on the implementation (independent of the model)

def tol(a, b):
    return 1e-9 * (1.0 + abs(a) + abs(b))


def oracle(ck, torch, G, cfg):
    cls, m, noisy = cfg['cls'], cfg['method'], cfg.get('noisy', False)
    cname = CLASSNAME[cls]
    key = f'{cname}/{m}' + ('/noisy' if noisy and cls == 'GND' else '')
    inp = {'kind': 'oracle', 'cfg': cfg}
    try:
        g = build(G, cfg)
    except Exception as e:
        ck.fail(f'{key}/constructor-raises', f'{cname}(method={m!r}) with admissible arguments raised {type(e).__name__}: {e}', inp)
        return None
    outs = []
    for c in range(3):
        try:
            with warnings.catch_warnings():
                warnings.simplefilter('ignore')
                ex = g.get_examples()
        except Exception as e:
            k2 = f'{key}/get_examples-raises:{type(e).__name__}'
            axes_m = cfg.get('methods') or [m] * len(cfg['sizes'])
            if 'std >= 0' in str(e) and any(lo > hi for lo, hi in zip(cfg['lo'], cfg['hi'])):
                k2 += '/descending-interval'
            if cls == 'GND' and noisy and 'std >= 0' in str(e) and any(mk == 'exp-spaced' and min(lo, hi) < 0 for mk, lo, hi in zip(axes_m, cfg['lo'], cfg['hi'])):
                # the cause is the exp-spaced axis with negative nodes, whatever the other axes are
                k2 = 'GeneratorND/exp-spaced/noisy/get_examples-raises:RuntimeError/negative-bounds'
            ck.fail(k2, f'{cname}(method={m!r}) is accepted by the constructor but get_examples() raises {type(e).__name__}: {e}',
                    inp, expected='tensors', actual=type(e).__name__)
            return None
        outs.append([ex] if isinstance(ex, torch.Tensor) else list(ex) if isinstance(ex, (tuple, list)) else ex)
    dim = len(cfg['sizes']) if cls in ('G2D', 'G3D', 'GND') else (3 if cls == 'GSph' else 1)
    size = 1
    for s in cfg['sizes']:
        size *= s
    if cls in ('G1D', 'GSph'):
        size = cfg['sizes'][0]
    if int(g.size) != size:
        ck.fail(f'{key}/size-attr', f'{cname}.size is {g.size}, expected {size}', inp, expected=size, actual=int(g.size))
    for ex in outs:
        if not isinstance(ex, list) or len(ex) != dim or not all(isinstance(t, torch.Tensor) for t in ex):
            ck.fail(f'{key}/count', f'get_examples() does not return {dim} tensors', inp, expected=dim, actual=str(type(ex)))
            return None
        for k, t in enumerate(ex):
            if t.dim() != 1 or t.numel() != size:
                ck.fail(f'{key}/length', f'tensor {k} has shape {tuple(t.shape)}, expected ({size},)', inp, expected=size, actual=list(t.shape))
                return None
            if bool(torch.isnan(t).any()):
                ck.fail(f'{key}/nan', f'tensor {k} contains NaN', inp)
                return None
            if not t.requires_grad:
                ck.fail(f'{key}/requires_grad', f'tensor {k} does not require grad', inp, expected=True, actual=False)
    ms = cfg.get('methods') or [m] * dim
    # ---- domain
    if cls != 'GSph':
        for k in range(dim):
            mk = ms[k] if cls == 'GND' else m
            if not domain_applies(cls, mk, noisy):
                continue
            a, b = min(cfg['lo'][k], cfg['hi'][k]), max(cfg['lo'][k], cfg['hi'][k])      # either orientation
            for ex in outs:
                v = ex[k].detach()
                lo_v, hi_v = float(v.min()), float(v.max())
                if lo_v < a - tol(a, b) or hi_v > b + tol(a, b):
                    ck.fail(f'{key}/domain', f'axis {k}: points in [{lo_v}, {hi_v}] leave the requested domain [{a}, {b}]', inp,
                            expected=[a, b], actual=[lo_v, hi_v])
                    break
    else:
        a, b = cfg['lo'][0], cfg['hi'][0]
        for ex in outs:
            rr, th, ph = [t.detach() for t in ex]
            if float(rr.min()) < a - tol(a, b) or float(rr.max()) > b + tol(a, b):
                ck.fail(f'{key}/r-range', 'r outside [r_min, r_max]', inp, expected=[a, b], actual=[float(rr.min()), float(rr.max())])
            if float(th.min()) < 0 or float(th.max()) > math.pi:
                ck.fail(f'{key}/theta-range', 'theta outside [0, pi]', inp, actual=[float(th.min()), float(th.max())])
            if float(ph.min()) < 0 or float(ph.max()) >= 2 * math.pi:
                ck.fail(f'{key}/phi-range', 'phi outside [0, 2 pi)', inp, actual=[float(ph.min()), float(ph.max())])
    # ---- determinism / freshness
    req = requirement(cls, m, noisy) if 'methods' not in cfg else ('static' if not noisy else ('fresh' if any(x != 'uniform' for x in ms) else 'any'))
    same = [all(torch.equal(x, y) for x, y in zip(outs[0], o)) for o in outs[1:]]
    if req == 'static' and not all(same):
        ck.fail(f'{key}/not-deterministic', 'a deterministic method returned different points on repeated get_examples() calls', inp)
    if req == 'fresh' and cls != 'GND':
        if any(same) or all(torch.equal(x, y) for x, y in zip(outs[1], outs[2])):
            ck.fail(f'{key}/not-fresh', 'a method that must draw fresh points returned identical points on two get_examples() calls', inp)
        else:
            for k in range(dim):
                if torch.equal(outs[0][k], outs[1][k]):
                    ck.fail(f'{key}/not-fresh', f'tensor {k} is identical on two get_examples() calls', inp)
    if req == 'fresh' and cls == 'GND':
        # The property speaks about POINTS: the sample as a whole must change.  Per axis, only axes whose
        # reference noise std is not identically zero are required to move: 'uniform' axes get std 0 by
        # design, and an exp-spaced axis has std |noise_rstd * node| (generators.py:529), which vanishes
        # on the whole axis iff every reference node is exactly 0.0 (one node, at r_min = 0).
        zero_std = [ms[k] == 'exp-spaced' and all(x == 0.0 for x in doc_nodes('exp-spaced', cfg['lo'][k], cfg['hi'][k], cfg['sizes'][k], (cfg.get('base') or [10] * dim)[k]))
                    for k in range(dim)]
        movable = [k for k in range(dim) if ms[k] != 'uniform' and not zero_std[k]]
        identical = any(same) or all(torch.equal(x, y) for x, y in zip(outs[1], outs[2]))
        if not movable and any(zero_std):
            # every noisy axis is exp-spaced with its single node at 0: nothing can move (recorded open finding)
            if identical:
                ck.fail('GeneratorND/exp-spaced/noisy/not-fresh/all-nodes-zero',
                        'GeneratorND(noisy=True) whose only noisy axes are exp-spaced with a single node at 0 returns identical points on every call '
                        '(std = |noise_rstd * node| = 0)', inp)
        elif identical:
            ck.fail(f'{key}/not-fresh', 'a method that must draw fresh points returned identical points on two get_examples() calls', inp)
        else:
            for k in movable:
                if torch.equal(outs[0][k], outs[1][k]):
                    ck.fail(f'{key}/not-fresh', f'tensor {k} (noisy axis with non-zero reference std) is identical on two get_examples() calls', inp)
    # ---- tensor-product structure and documented nodes
    if cls in ('G2D', 'G3D', 'GND') and not normal_noise(cls, m, noisy):
        ex = outs[0]
        strides = [1] * dim
        for k in range(dim - 2, -1, -1):
            strides[k] = strides[k + 1] * cfg['sizes'][k + 1]
        for k in range(dim):
            v = ex[k].detach().tolist()
            nodes = [v[i * strides[k]] for i in range(cfg['sizes'][k])]
            if any(v[f] != nodes[(f // strides[k]) % cfg['sizes'][k]] for f in range(size)):
                ck.fail(f'{key}/not-a-product', f'tensor {k} is not the k-th coordinate of a row-major tensor product of 1-D node lists', inp)
                break
            mk = ms[k]
            doc = doc_nodes(mk, cfg['lo'][k], cfg['hi'][k], cfg['sizes'][k], (cfg.get('base') or [10] * dim)[k])
            if doc is not None and any(abs(x - y) > tol(cfg['lo'][k], cfg['hi'][k]) * 10 for x, y in zip(nodes, doc)):
                ck.fail(f'{key}/nodes', f'axis {k}: 1-D nodes are not the documented {mk} nodes', inp, expected=doc[:6], actual=nodes[:6])
                break
            if mk in ('latin-hypercube',):
                check_strata(ck, key, inp, nodes, cfg['lo'][k], cfg['hi'][k])
    if cls == 'G1D':
        doc = doc_nodes(m, cfg['lo'][0], cfg['hi'][0], cfg['sizes'][0])
        if doc is not None:
            v = outs[0][0].detach().tolist()
            if any(abs(x - y) > tol(cfg['lo'][0], cfg['hi'][0]) * 10 for x, y in zip(v, doc)):
                ck.fail(f'{key}/nodes', f'1-D nodes are not the documented {m} nodes', inp, expected=doc[:6], actual=v[:6])
        if m == 'latin-hypercube':
            for ex in outs:
                check_strata(ck, key, inp, ex[0].detach().tolist(), cfg['lo'][0], cfg['hi'][0])
    ck.add_case((cls, m, noisy, tuple(cfg['sizes']), tuple(cfg['lo']), tuple(cfg['hi']), cfg.get('abs_value', False), tuple(cfg.get('base') or ())), nontrivial=size > 1)
    return g


def check_strata(ck, key, inp, pts, a, b):
    """strata = the n equal-width cells of [min(a,b), max(a,b)]"""
    a, b = min(a, b), max(a, b)
    n = len(pts)
    w = (b - a) / n
    idx = sorted(min(n - 1, max(0, int(math.floor((x - a) / w)))) for x in pts)
    if idx != list(range(n)):
        ck.fail(f'{key}/strata', 'Latin hypercube: not exactly one point per stratum', inp, expected=list(range(min(n, 8))), actual=idx[:8])


# ----------------------------------------------------------------------------------------------
# translation validation of the generated table against the real classes

def entry_cfg(e, r):
    cls, m = e['cls'], e['method']
    d = 2 if cls == 'GND' else (DIM[cls] if cls != 'GSph' else 1)
    sz = [r.choice([2, 3, 5, 8]) for _ in range(d)]
    lo, hi = [], []
    for _ in range(d):
        a, b = gen_bounds(r, positive=m.startswith('log-spaced'), nonneg=cls == 'GSph')
        if m == 'exp-spaced':
            # keep base**max / base**min moderate: the generated formula start + (end - start) i/(n-1) is evaluated
            # naively in float64 here and would lose digits against torch.linspace's two-ended evaluation
            a = r.choice([-1.0, 0.0, 0.5]); b = a + r.choice([0.25, 1.0, 1.5])
        a, b = orient(r, a, b, desc_ok(cls, m, e['noisy']))
        lo.append(a); hi.append(b)
    out = {'cls': cls, 'method': m, 'noisy': e['noisy'], 'sizes': sz, 'lo': lo, 'hi': hi}
    if e.get('base') is not None:
        out['base'] = list(e['base'])
    return out


def validate_entry(ck, torch, G, e, r, cases, goals, n_goals):
    cfg = entry_cfg(e, r)
    name = t_C07.entry_name(e) + (f'_base{"_".join(str(b) for b in e["base"])}' if e.get('base') else '')
    ob = f'table:{name}'
    # ---- spied run: which RNG calls, getter callable, count, flags
    with RNG(torch, 'spy') as spy:
        try:
            g = build(G, cfg)
        except Exception as ex:
            ck.broke('correspondence-broken', ob, f'table lists the method as accepted, constructor raised {type(ex).__name__}: {ex}')
            return
        c0 = spy.mark()
        uses_getter = hasattr(g, 'getter')
        callable_getter = callable(g.getter) if uses_getter else True
        try:
            with warnings.catch_warnings():
                warnings.simplefilter('ignore')
                ex = g.get_examples()
            raised = None
        except Exception as exn:
            ex, raised = None, type(exn).__name__
        ctor_calls = [c[0] for c in spy.calls[:c0]]
        call_calls = [c[0] for c in spy.calls[c0:]]
    ck.traces += 1
    rl = lambda l: '[' + '; '.join({'rand': 'RRand', 'normal': 'RNormal', 'randperm': 'RRandperm', 'randint': 'RRandint'}[x] for x in l) + ']'
    tens = [ex] if isinstance(ex, torch.Tensor) else (list(ex) if ex is not None else [])
    cases.append((f'{name}:getter', f'Bool.eqb (is_lambda (e_getter {name}.entry)) {"true" if callable_getter else "false"}'))
    cases.append((f'{name}:ctor_rng', f'list_eqb rng_eqb (e_ctor_rng {name}.entry) {rl(ctor_calls)}'))
    if raised is None:
        cases.append((f'{name}:call_rng', f'list_eqb rng_eqb (e_call_rng {name}.entry) {rl(call_calls)}'))
        cases.append((f'{name}:count', f'Nat.eqb (List.length (e_tensors {name}.entry)) {len(tens)}'))
        flags = '[' + '; '.join('true' if t.requires_grad else 'false' for t in tens) + ']'
        cases.append((f'{name}:requires_grad', f'list_eqb Bool.eqb (map t_rg (e_tensors {name}.entry)) {flags}'))
        size = int(g.size)
        lens = '[' + '; '.join('true' if (t.dim() == 1 and t.numel() == size) else 'false' for t in tens) + ']'
        cases.append((f'{name}:length', f'list_eqb Bool.eqb (map t_len_ok (e_tensors {name}.entry)) {lens}'))
    elif e['getter'] == 'lambda':
        ck.broke('correspondence-broken', ob, f'table says the getter is callable, get_examples() raised {raised}')
        return
    if raised is not None or e['getter'] != 'lambda':
        return
    # ---- scripted run: formulas
    with RNG(torch, 'script', r=r) as scr:
        g = build(G, cfg)
        c0 = scr.mark()
        with warnings.catch_warnings():
            warnings.simplefilter('ignore')
            ex = g.get_examples()
        calls = {'ctor': scr.calls[:c0], 'call': scr.calls[c0:]}
    tens = [ex] if isinstance(ex, torch.Tensor) else list(ex)
    sizes = cfg['sizes']
    total = int(g.size)
    d = len(tens)
    strides = [1] * len(sizes)
    for k in range(len(sizes) - 2, -1, -1):
        strides[k] = strides[k + 1] * sizes[k + 1]
    for k, (t, info) in enumerate(zip(tens, e['tensors'])):
        ax = info['par_axis'] if e['cls'] != 'GSph' else 0
        n_ax = sizes[ax] if e['cls'] != 'GSph' else sizes[0]
        penv = {'a': cfg['lo'][ax], 'b': cfg['hi'][ax], 'n': float(n_ax), 'pi': math.pi, 'tiny': sys.float_info.min}
        vals = t.detach().tolist()
        perm = calls[info['perm_pos'][0]][info['perm_pos'][1]][1] if info['perm_pos'] else None
        probe = sorted(set([0, total - 1] + [r.randrange(total) for _ in range(4)]))
        for f in probe:
            ai = (f // strides[ax]) % n_ax if info['mesh_pos'] is not None else f
            src = perm[ai] if perm is not None else ai
            venv = {'i': float(src)}
            for leaf, (ph, pos) in info['draws'].items():
                c = calls[ph][pos]
                seq = c[1]
                venv[leaf] = float(seq[f] if len(seq) == total and (info['mesh_pos'] is None or leaf.startswith('z')) and not (len(seq) == n_ax and leaf[0] == 'u') else seq[src])
            try:
                for dd in info.get('defs', []):       # leaf = torch.clamp(arg, min=lo) = max(arg, lo)
                    venv[dd['leaf']] = max(ir.feval(dd['arg'], venv, penv, {}), ir.feval(dd['lo'], venv, penv, {}))
                if info['wrap'] == 'none':
                    mv = ir.feval(info['term'], venv, penv, {})
                elif info['wrap'] == 'acos':
                    z = ir.feval(info['term'], venv, penv, {})
                    mv = math.acos(z) if -1 <= z <= 1 else float('nan')
                elif info['wrap'] == 'acos_clamp':
                    z = ir.feval(info['term'], venv, penv, {})
                    lo_c, hi_c = ir.feval(info['aux'][0], {}, {}, {}), ir.feval(info['aux'][1], {}, {}, {})
                    z = min(max(z, lo_c), hi_c)           # torch.clamp
                    mv = math.acos(z) if -1 <= z <= 1 else float('nan')
                else:
                    venv['atan'] = math.atan2(ir.feval(info['aux'][0], venv, penv, {}), ir.feval(info['aux'][1], venv, penv, {}))
                    mv = ir.feval(info['term'], venv, penv, {})
            except (ZeroDivisionError, ValueError):
                mv = float('nan')
            ck.traces += 1
            if not enga.close(mv, vals[f], abs(penv['a']) + abs(penv['b'])):
                if n_ax == 1 and math.isnan(mv) and abs(vals[f] - penv['a']) < 1e-12:
                    continue            # torch.linspace(a, b, 1) = [a]: outside the formula's n >= 2 guard
                ck.broke('correspondence-broken', ob, f'tensor {k} at flat index {f}: formula gives {mv!r}, implementation {vals[f]!r}; cfg {cfg}')
                return
            if len(goals) < n_goals and info['wrap'] == 'none' and f == probe[-1] and e['cls'] != 'GSph' and not info['noise']:
                vs = {kk: lit(v) for kk, v in venv.items()}
                ps = {'a': lit(penv['a']), 'b': lit(penv['b']), 'n': lit(penv['n']), 'pi': 'PI'}
                goals.append((f'{name}#{k}', ir.coq_real(info['term'], vs, ps, {}), vals[f], enga.tol_str(abs(penv['a']) + abs(penv['b']))))
    ck.add_case(('table', name, tuple(cfg['sizes']), tuple(cfg['lo']), tuple(cfg['hi'])))


def check_table_vs_acceptance(ck, G, table):
    """The table must list exactly the methods the real constructors accept."""
    for cls in CLASSNAME:
        real = set(accepted_methods(G, cls))
        tab = {e['method'] for e in table if e['cls'] == cls}
        if real != tab:
            ck.broke('correspondence-broken', f'table:{cls}:methods', f'table lists {sorted(tab)}, constructor accepts {sorted(real)} (of the candidates)')


# ----------------------------------------------------------------------------------------------
# scripted torch.rand probes of the spherical generator: two draws 0 (F8, fixed by 75057c3: must
# stay fixed) and all three draws 0 (0/0, fixed by f2992d2: must stay fixed)

def probe_F8(ck, torch, G):
    import random
    inp = {'kind': 'F8', 'size': 4, 'r_min': 0.5, 'r_max': 2.0, 'forced_draws': 'sample 1: a = 0, b = 0, c = 0.5'}
    with RNG(torch, 'script', r=random.Random(7), force={0: {1: 0.0}, 1: {1: 0.0}, 2: {1: 0.5}}):
        g = G.GeneratorSpherical(4, 0.5, 2.0)
        with warnings.catch_warnings():
            warnings.simplefilter('ignore')
            rr, th, ph = g.get_examples()
    ck.add_case(('F8',))
    if bool(torch.isnan(th).any()):
        ck.fail('GeneratorSpherical/theta-nan/a=b=0', 'GeneratorSpherical: theta is NaN when two of the three uniform draws are 0 (acos argument sqrt(c/(a+b+c)) + 1e-6 > 1)',
                inp, expected='theta in [0, pi]', actual=th.detach().tolist())
    inp0 = {'kind': 'F8', 'size': 4, 'r_min': 0.5, 'r_max': 2.0, 'forced_draws': 'sample 1: a = 0, b = 0, c = 0'}
    with RNG(torch, 'script', r=random.Random(7), force={0: {1: 0.0}, 1: {1: 0.0}, 2: {1: 0.0}}):
        g = G.GeneratorSpherical(4, 0.5, 2.0)
        with warnings.catch_warnings():
            warnings.simplefilter('ignore')
            rr, th, ph = g.get_examples()
    ck.add_case(('F8-all-zero',))
    if bool(torch.isnan(th).any()) or bool(torch.isnan(ph).any()):
        ck.fail('GeneratorSpherical/nan/a=b=c=0', 'GeneratorSpherical: theta and phi are NaN when all three uniform draws of a sample are exactly 0 (0/0 in a/denom)',
                inp0, expected='theta in [0, pi], phi in [0, 2 pi)', actual={'theta': th.detach().tolist(), 'phi': ph.detach().tolist()})


# ----------------------------------------------------------------------------------------------

ZERO_NODE_CFG = {'cls': 'GND', 'method': 'exp-spaced', 'noisy': True, 'sizes': [1], 'lo': [0.0], 'hi': [1.0]}


def probe_zero_node(ck, torch, G):
    """GeneratorND(grid=(1,), r_min=(0.0,), r_max=(1.0,), methods=['exp-spaced'], noisy=True): the open finding, every run."""
    oracle(ck, torch, G, dict(ZERO_NODE_CFG))


DESC_NOISY_PROBES = [
    {'cls': 'G1D', 'method': 'equally-spaced-noisy', 'noisy': False, 'sizes': [6], 'lo': [2.0], 'hi': [0.5]},
    {'cls': 'G1D', 'method': 'log-spaced-noisy', 'noisy': False, 'sizes': [6], 'lo': [2.0], 'hi': [0.5]},
    {'cls': 'G2D', 'method': 'equally-spaced-noisy', 'noisy': False, 'sizes': [3, 4], 'lo': [2.0, 0.0], 'hi': [0.5, 1.0]},
    {'cls': 'G3D', 'method': 'equally-spaced-noisy', 'noisy': False, 'sizes': [3, 4, 2], 'lo': [0.0, 2.0, 0.0], 'hi': [1.0, 0.5, 1.0]},
    {'cls': 'GND', 'method': 'chebyshev2', 'noisy': True, 'sizes': [3, 4], 'lo': [2.0, 0.5], 'hi': [0.5, 1.0]},
]


def probe_desc_noisy(ck, torch, G):
    """Regression probes of the repaired finding (0dd583c): noisy methods with a descending interval."""
    for cfg in DESC_NOISY_PROBES:
        oracle(ck, torch, G, dict(cfg))


def run_oracle(ck, torch, G, quick, salt='oracle'):
    r = ck.rng(salt)
    dist = ck.extra.setdefault('input_distribution', {})
    for i, cfg in enumerate(gen_cfgs(r, G, quick)):
        k = f"{cfg['cls']}/{cfg['method'] if 'methods' not in cfg else 'mixed'}"
        dist[k] = dist.get(k, 0) + 1
        oracle(ck, torch, G, cfg)
        if i % 37 == 0:
            ck.sample(cfg)


def replay(ck, path):
    data = json.load(open(path))
    inp = data.get('input') or {}
    torch = enga.import_repo()
    from neurodiffeq import generators as G
    if inp.get('kind') == 'oracle':
        oracle(ck, torch, G, inp['cfg'])
    elif inp.get('kind') == 'F8':
        probe_F8(ck, torch, G)
    else:
        print(f'replay: nothing to re-run on the implementation for {path}')
    ck.rule = f'replay of {path}'
    ck.add_case(('replay', path))
    ck.sample(inp)


def main():
    ck = Check('C07')
    ck.rule = ('cases = every method each generator class accepts (candidates: all documented names) x sampled sizes in 1..64 per axis '
               '(>= 2 for second-kind Chebyshev) x bounds of both signs and both orientations (descending intervals for every class but the sphere; '
               'positive for log spacing, 0 <= r_min <= r_max for the sphere) x 3 '
               'get_examples() calls; + one scripted-RNG run per table entry; distinct = distinct (class, method, noisy, sizes, bounds); '
               'non-trivial = more than one point')
    if ck.replay:
        evp = os.path.join(common.VERIF, 'evidence', 'C07.json')
        old = open(evp).read() if os.path.exists(evp) else None
        replay(ck, ck.replay)
        try:
            ck.finish()
        finally:
            if old is not None:
                open(evp, 'w').write(old)
    ck.step_hygiene()
    with common.Lock():
        ok, info = t_C07.generate(REPO, common.GEN)
    table = None
    if not ok:
        ck.broke('translator-refusal', 'extractor:Gen_C07', info['error'])
    else:
        table = info['table']
        ck.step_prove('P_C07')
    torch = enga.import_repo()
    from neurodiffeq import generators as G
    T = ck.thorough()
    run_oracle(ck, torch, G, quick=not T)
    probe_F8(ck, torch, G)
    probe_zero_node(ck, torch, G)
    probe_desc_noisy(ck, torch, G)
    if table is not None:
        cases, goals = [], []
        check_table_vs_acceptance(ck, G, table)
        r = ck.rng('table')
        for rep in range(8 if T else 1):
            for e in table:
                validate_entry(ck, torch, G, e, r, cases if rep == 0 else [], goals, 24 if T else 10)
        # validation-only entries: exp-spaced with a non-default base (the emitted table uses base 10)
        for bb in ([2, 100], [1.5, 2], [100, 1.5]):
            for noisy_ in (False, True):
                try:
                    e2 = t_C07.run_entry(REPO, 'GND', 'exp-spaced', noisy_, base=bb)
                except Exception as exn:
                    ck.broke('translator-refusal', f'extractor:GND_exp_spaced(base={bb})', str(exn))
                    continue
                if e2 is not None:
                    validate_entry(ck, torch, G, e2, r, [], [], 0)
        bad = ck.step_cases('table', PRE, cases)
        for lbl in bad:
            ck.broke('correspondence-broken', 'table-vs-implementation', f'table fact differs from the observation: {lbl}')
        ck.step_interval_goals('nodes', goals)
        ck.extra['table_entries'] = len(table)
        ck.extra['det_terms'] = len(info['det_terms'])
    if ck.broken and not ck.failures:
        ck.notes.append('search: re-ran the implementation oracle with a second seed / more sizes after a broken obligation')
        run_oracle(ck, torch, G, quick=False, salt='search')
    ck.finish(
        trusted_extra=['tools/props/t_C07.py abstract interpreter (a subclass of pyfront Interp; validated each run: spied RNG calls, scripted draws, interval goals)',
                       'Interval (interval tactic) for the in-kernel node goals',
                       'modelled not verified: IEEE-754 rounding, torch.linspace/logspace/meshgrid(ij)/flatten element formulas, ranges of torch.rand/randperm/randint, '
                       'torch.normal = mean + std*z, atan2 range, acos domain'],
        assumptions=['theorems: a < b per axis (hypothesis ne_ab / Hab); node/std theorems hold in both orientations, the LHS stratum theorem for a < b (descending: oracle + scripted table validation); positive bounds for log spacing; 0 <= r_min <= r_max for the sphere; n >= 2 where the formula uses n - 1',
                     'GeneratorND is tabulated at N = 2 with the same method on both axes (the oracle also runs N = 1, 3 and mixed methods)',
                     'GeneratorND "uniform" and the 2-D/3-D Latin hypercube are drawn once by the constructor: the property does not classify them (AnyOf)',
                     'spherical: denom is the leaf v_denom = Rmax (a+b+c) tiny with tiny = torch.finfo(dtype).tiny > 0 (generated definition e_defs); '
                     'torch.normal requires std >= 0: not part of the formula model, exercised by the oracle (F12, fixed)'])


if __name__ == '__main__':
    main()
